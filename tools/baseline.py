#!/venv/bin/python
"""Development aid (NOT a check): run the pinned suite in a tree and compare with BASELINE.json.

usage: baseline.py <tree-root> [-n JOBS]
Exits 0 iff every test of BASELINE.stable_pass passes in <tree-root>.
Used before every `fix:` commit in /repo and when confirming a seeded change still passes.
"""
import json
import os
import subprocess
import sys
import tempfile
import xml.etree.ElementTree as ET


def main() -> int:
    root = os.path.abspath(sys.argv[1])
    jobs = "12"
    if "-n" in sys.argv:
        jobs = sys.argv[sys.argv.index("-n") + 1]
    base = json.load(open("/root/.vp/BASELINE.json"))
    want = set(base["stable_pass"])
    with tempfile.TemporaryDirectory() as td:
        xml = os.path.join(td, "j.xml")
        env = dict(os.environ, PYTHONPATH=os.path.join(root, "src"))
        subprocess.run(
            ["/venv/bin/python", "-m", "pytest", "-q", "-p", "no:cacheprovider", "--timeout=900",
             "--continue-on-collection-errors", "-n", jobs, "--junitxml=" + xml],
            cwd=root, env=env, stdout=subprocess.DEVNULL, stderr=subprocess.DEVNULL)
        passed = set()
        for tc in ET.parse(xml).getroot().iter("testcase"):
            if not any(c.tag in ("failure", "error", "skipped") for c in tc):
                passed.add(tc.get("classname") + "::" + tc.get("name"))
    missing = sorted(want - passed)
    if missing and len(missing) <= 5 and "--no-retry" not in sys.argv:
        # timer-based tests fail spuriously when the machine is overloaded: re-run just those, serially
        still = []
        for t in missing:
            cls, name = t.split("::")
            parts = cls.split(".")
            node = "/".join(parts[:-1]) + ".py::" + parts[-1] + "::" + name
            env = dict(os.environ, PYTHONPATH=os.path.join(root, "src"))
            ok = False
            for _ in range(2):
                r = subprocess.run(["/venv/bin/python", "-m", "pytest", "-q", "-p", "no:cacheprovider", node],
                                   cwd=root, env=env, stdout=subprocess.DEVNULL, stderr=subprocess.DEVNULL)
                if r.returncode == 0:
                    ok = True
                    break
            if ok:
                print(f"  (re-run alone: {t} passes - load-induced timing failure in the parallel run)")
                passed.add(t)
            else:
                still.append(t)
        missing = still
    print(f"baseline: {len(want)} expected, {len(want & passed)} pass, {len(missing)} missing; "
          f"{len(passed - want)} extra passes")
    for m in missing[:40]:
        print("  MISSING", m)
    return 0 if not missing else 1


if __name__ == "__main__":
    sys.exit(main())
