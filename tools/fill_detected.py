#!/venv/bin/python
"""Development aid: for every confirmed seeded change under /verif/seeded, apply its patch to a scratch copy of /repo's
working tree, run all 20 quick checks on it and record in meta.json which rules of which properties report a NEW violation
(`detected_by`), or [] when none does.  Never touches /repo; scratch copies are removed."""
import concurrent.futures, glob, json, os, shutil, subprocess, sys, tempfile

VERIF = "/verif"
PROPS = [f"C{i:02d}" for i in range(1, 21)]


def one(seed_dir):
    sid = os.path.basename(seed_dir)
    td = tempfile.mkdtemp(prefix="seeddet_")
    try:
        shutil.copytree("/repo/src", os.path.join(td, "src"))
        shutil.copytree("/repo/examples", os.path.join(td, "examples"))
        r = subprocess.run(["patch", "-p1", "-s", "-f", "--no-backup-if-mismatch", "-d", td, "-i", os.path.join(seed_dir, "patch.diff")],
                           capture_output=True, text=True)
        if r.returncode:
            return sid, None, "patch does not apply to the current tree"
        env = dict(os.environ, FLEXLINT_REPO=td, FLEXLINT_EVIDENCE_DIR=os.path.join(td, "ev"))
        fired = []
        only = sys.argv[2:] if len(sys.argv) > 2 else PROPS
        for p in only:
            r = subprocess.run(["/venv/bin/python", "-m", "flexlint", "check", p], cwd=VERIF, env=env, capture_output=True, text=True)
            if r.returncode == 1:
                rules = sorted({l.split("rule ", 1)[1].split(" ", 1)[0] for l in r.stdout.splitlines() if "violation:" in l and "rule " in l})
                fired.extend(rules)
            elif r.returncode == 2:
                fired.append(f"{p}:ANALYSIS-ERROR")
                sys.stderr.write(f"[{sid}] {p}: " + "\n".join(l for l in (r.stdout + r.stderr).splitlines() if "ANALYSIS-ERROR" in l or "Error" in l)[:600] + "\n")
        return sid, fired, None
    finally:
        shutil.rmtree(td, ignore_errors=True)


def main():
    pat = sys.argv[1] if len(sys.argv) > 1 else "*"
    dirs = sorted(d for d in glob.glob(os.path.join(VERIF, "seeded", pat)) if os.path.isdir(d))
    with concurrent.futures.ThreadPoolExecutor(max_workers=6) as ex:
        for sid, fired, err in ex.map(one, dirs):
            mp = os.path.join(VERIF, "seeded", sid, "meta.json")
            meta = json.load(open(mp))
            if err:
                meta["detected_by"] = []
                meta["detection_note"] = err
            else:
                meta["detected_by"] = [f for f in fired if not f.endswith("ANALYSIS-ERROR")]
                errs = [f for f in fired if f.endswith("ANALYSIS-ERROR")]
                meta.pop("detection_note", None)
                if errs:
                    meta["detection_note"] = "checks that stop with ANALYSIS-ERROR on this change: " + ", ".join(errs)
            json.dump(meta, open(mp, "w"), indent=1)
            print(sid, meta["detected_by"], meta.get("detection_note", ""))


if __name__ == "__main__":
    main()
