#!/venv/bin/python
"""Regenerate /verif/MANIFEST.json from the per-property tables in flexlint/manifest_data.py and validate it."""
import importlib
import json
import os
import sys

ROOT = os.path.dirname(os.path.dirname(os.path.abspath(__file__)))
sys.path.insert(0, ROOT)
from flexlint import manifest_data as M  # noqa: E402

PY = "/venv/bin/python"


def main():
    checks = []
    import ast as _ast
    import re as _re
    ledger = open(os.path.join(ROOT, "KNOWN_FINDINGS.txt")).read().splitlines()
    for pid in sorted(M.CHECKS):
        c = dict(M.CHECKS[pid])
        # the claim text is the rule module's own docstring (what is decided / what is not), so the two cannot drift apart
        doc = _ast.get_docstring(_ast.parse(open(os.path.join(ROOT, "flexlint", "rules", pid.lower() + ".py")).read())) or ""
        doc = _re.sub(r"\s+", " ", doc.split("\n", 1)[1] if "\n" in doc else doc).strip()
        from flexlint.rules import lintutil as _lint
        if pid in _lint.ZERO_TRUTHINESS:
            doc = doc + " " + _lint.CLAIM
        n_open = sum(1 for l in ledger if l.startswith("open:") and f"property={pid} " in l)
        c["text"] = ("Structural necessary conditions of the property, decided from source for every input / schedule / history at once. "
                     + doc + (f" {n_open} known finding(s) of this property are listed in KNOWN_FINDINGS.txt (genuine defects pinned by the "
                              "suite or too large to repair) and reported as KNOWN-FINDING." if n_open else ""))
        checks.append({
            "property_id": pid,
            "quick_cmd": f"{PY} -m flexlint check {pid} --tier quick",
            "thorough_cmd": f"{PY} -m flexlint check {pid} --tier thorough",
            "evidence_file": f"/verif/evidence/{pid}.json",
            "replay_cmd_template": f"{PY} -m flexlint explain {{path}}",
            "engine": "flexlint",
            "level_claimed": {"category": "other", "text": c["text"], "design_ref": c.get("design_ref", f"DESIGN.md section 4, {pid}")},
            "level_note": c["note"],
            "technique": c["technique"],
        })
    props = [json.loads(l)["id"] for l in open(os.path.join(ROOT, "properties.jsonl"))]
    na = []
    for pid in props:
        if pid not in M.CHECKS:
            na.append({"property_id": pid, "reason": M.NOT_APPLICABLE.get(pid, "check not built yet (see DESIGN.md section 4 for the planned rules)")})
    man = {
        "version": 1,
        "setup_cmd": f"{PY} -m flexlint setup",
        "hooks": {
            "guard": "FLEXSTACK_VERIF",
            "enable": "no hooks: the checks read /repo's source text only; the guard variable is unused",
            "baseline_off_cmd": "cd /repo && /venv/bin/python -m pytest -ra -q -p no:cacheprovider --timeout=900 --continue-on-collection-errors",
            "source_commits": [],
            "add_only": True,
        },
        "engines": [{
            "name": "flexlint",
            "path": "/verif/flexlint",
            "serves_properties": sorted(M.CHECKS),
            "kind_free_text": "repository-specific static analyser on CPython ast: resolved program model (classes, callees, types), "
                              "syntax-directed must-facts (guards, must-call, locks, reaching definitions), codec layout "
                              "abstract interpretation, exception-escape / lockset / effect summaries, ASN.1 schema conformance",
        }],
        "checks": checks,
        "not_applicable": na,
        "notes": M.NOTES,
    }
    out = os.path.join(ROOT, "MANIFEST.json")
    json.dump(man, open(out, "w"), indent=1)
    import subprocess
    code = ("import json, jsonschema; jsonschema.validate(json.load(open('%s')), json.load(open('/root/.vp/MANIFEST.schema.json'))); print('schema ok')" % out)
    r = subprocess.run(["python3-vt", "-c", code], capture_output=True, text=True)
    print("MANIFEST.json:", len(checks), "checks,", len(na), "not applicable;", (r.stdout.strip() or r.stderr.strip()[-300:]))


if __name__ == "__main__":
    main()
