#!/venv/bin/python
"""Development aid: whole-tree behaviour-preserving rewrites ("global twins").

Applies ONE semantics-preserving transformation to every module of a scratch copy of /repo/src (and examples), then runs
all 20 quick checks on the copy.  Every check must still exit 0 (same KNOWN-FINDING set): a check that alarms or stops on
such a tree depends on the spelling of the source somewhere.

usage: metamorph.py <transform> [Cxx ...]
transforms:
  reformat   ast.unparse of every module (drops comments, normalises layout, parenthesisation, string quotes)
  rename     every pure local variable x of every function is renamed to x_mm (not parameters, not names shared with
             nested scopes, not globals/nonlocals)
  flipcmp    `a == b` -> `b == a`, `a != b` -> `b != a`, `a < b` -> `b > a`, `a <= b` -> `b >= a` (and vice versa) where
             both operands are side-effect free (names, attributes, constants, subscripts of those)
  ifswap     `if c: A else: B` (both branches non-empty, no elif) -> `if not c: B else: A`
  nestand    `if a and b: BODY` (no else) -> nested ifs
  retlocal   `return EXPR` -> `_mm_ret = EXPR; return _mm_ret`
  augassign  `x op= e` -> `x = x op e`
  isnot      `a is not b` -> `not a is b` (likewise not in, !=)
  kwargs     positional arguments of self.<method>(...) calls become keyword arguments
  earlyreturn  trailing `if c: BODY` of a function -> `if not c: return` + BODY
  condlocal  `if TEST:` -> `c = TEST; if c:`
  hoist      final attributes (assigned only in __init__) read twice or more in a method are read once into a local
"""
import ast
import os
import shutil
import subprocess
import symtable
import copy
import sys
import tempfile

PROPS = [f"C{i:02d}" for i in range(1, 21)]


def pure(e) -> bool:
    if isinstance(e, (ast.Name, ast.Constant)):
        return True
    if isinstance(e, ast.Attribute):
        return pure(e.value)
    if isinstance(e, ast.Subscript):
        return pure(e.value) and pure(e.slice)
    return False


class FlipCmp(ast.NodeTransformer):
    MAP = {ast.Eq: ast.Eq, ast.NotEq: ast.NotEq, ast.Lt: ast.Gt, ast.Gt: ast.Lt, ast.LtE: ast.GtE, ast.GtE: ast.LtE}

    def visit_Compare(self, n):
        self.generic_visit(n)
        if len(n.ops) == 1 and type(n.ops[0]) in self.MAP and pure(n.left) and pure(n.comparators[0]):
            return ast.copy_location(ast.Compare(left=n.comparators[0], ops=[self.MAP[type(n.ops[0])]()], comparators=[n.left]), n)
        return n


class IfSwap(ast.NodeTransformer):
    def visit_If(self, n):
        self.generic_visit(n)
        if n.orelse and not (len(n.orelse) == 1 and isinstance(n.orelse[0], ast.If)):
            test = n.test.operand if isinstance(n.test, ast.UnaryOp) and isinstance(n.test.op, ast.Not) else ast.UnaryOp(op=ast.Not(), operand=n.test)
            return ast.copy_location(ast.If(test=test, body=n.orelse, orelse=n.body), n)
        return n


class NestAnd(ast.NodeTransformer):
    """`if a and b: BODY` (no else) -> `if a:` nested over `if b: BODY`"""
    def visit_If(self, n):
        self.generic_visit(n)
        if not n.orelse and isinstance(n.test, ast.BoolOp) and isinstance(n.test.op, ast.And) and len(n.test.values) >= 2:
            inner = n.body
            for v in reversed(n.test.values):
                inner = [ast.copy_location(ast.If(test=v, body=inner, orelse=[]), n)]
            return inner[0]
        return n


class RetLocal(ast.NodeTransformer):
    """`return EXPR` -> `_mm_ret = EXPR; return _mm_ret` (not in generators / lambdas; EXPR not a bare name or constant)"""
    def _block(self, stmts):
        out = []
        for s in stmts:
            if isinstance(s, ast.Return) and s.value is not None and not isinstance(s.value, (ast.Name, ast.Constant)):
                a = ast.copy_location(ast.Assign(targets=[ast.Name(id="_mm_ret", ctx=ast.Store())], value=s.value), s)
                r = ast.copy_location(ast.Return(value=ast.Name(id="_mm_ret", ctx=ast.Load())), s)
                out += [a, r]
            else:
                out.append(s)
        return out

    def generic_visit(self, n):
        super().generic_visit(n)
        for fld in ("body", "orelse", "finalbody"):
            lst = getattr(n, fld, None)
            if isinstance(lst, list) and lst and isinstance(lst[0], ast.stmt):
                setattr(n, fld, self._block(lst))
        return n


class AugToAssign(ast.NodeTransformer):
    """`x op= e` -> `x = x op e` for side-effect free targets (names, attribute chains)"""
    def visit_AugAssign(self, n):
        self.generic_visit(n)
        if isinstance(n.target, ast.Name) or (isinstance(n.target, ast.Attribute) and pure(n.target)):
            import copy
            load = copy.deepcopy(n.target)
            for x in ast.walk(load):
                if hasattr(x, "ctx"):
                    x.ctx = ast.Load()
            return ast.copy_location(ast.Assign(targets=[n.target], value=ast.BinOp(left=load, op=n.op, right=n.value)), n)
        return n


class IsNot(ast.NodeTransformer):
    """`a is not b` -> `not a is b`, `a not in b` -> `not a in b`, `a != b` -> `not a == b`"""
    M = {ast.IsNot: ast.Is, ast.NotIn: ast.In, ast.NotEq: ast.Eq}

    def visit_Compare(self, n):
        self.generic_visit(n)
        if len(n.ops) == 1 and type(n.ops[0]) in self.M:
            return ast.copy_location(ast.UnaryOp(op=ast.Not(), operand=ast.Compare(left=n.left, ops=[self.M[type(n.ops[0])]()], comparators=n.comparators)), n)
        return n


class KwArgs(ast.NodeTransformer):
    """positional arguments of `self.m(...)` calls become keyword arguments when m is a method of the enclosing class
    (plain parameters only; no *args/**kwargs; decorated methods other than staticmethod/classmethod excluded)"""
    def __init__(self):
        self.cls = []

    def visit_ClassDef(self, n):
        meths = {}
        for b in n.body:
            if isinstance(b, ast.FunctionDef) and not b.args.vararg and not b.args.kwarg and not b.args.posonlyargs:
                decs = [ast.unparse(d) for d in b.decorator_list]
                if any(d not in ("staticmethod", "classmethod") for d in decs):
                    continue
                params = [a.arg for a in b.args.args]
                if "staticmethod" not in decs:
                    params = params[1:]
                meths[b.name] = params
        self.cls.append(meths)
        self.generic_visit(n)
        self.cls.pop()
        return n

    def visit_Call(self, n):
        self.generic_visit(n)
        if self.cls and isinstance(n.func, ast.Attribute) and isinstance(n.func.value, ast.Name) and n.func.value.id == "self" \
                and n.func.attr in self.cls[-1] and n.args and not any(isinstance(a, ast.Starred) for a in n.args) \
                and not any(k.arg is None for k in n.keywords):
            params = self.cls[-1][n.func.attr]
            if len(n.args) <= len(params):
                kws = [ast.keyword(arg=params[i], value=a) for i, a in enumerate(n.args)]
                return ast.copy_location(ast.Call(func=n.func, args=[], keywords=kws + n.keywords), n)
        return n


class CondLocal(ast.NodeTransformer):
    """`if TEST:` -> `_mm_c<k> = TEST` + `if _mm_c<k>:` (TEST not a bare name / constant; one fresh name per if)"""
    def __init__(self):
        self.k = 0

    def _block(self, stmts):
        out = []
        for s in stmts:
            if isinstance(s, ast.If) and not isinstance(s.test, (ast.Name, ast.Constant)) and not any(isinstance(x, ast.NamedExpr) for x in ast.walk(s.test)):
                self.k += 1
                nm = f"_mm_c{self.k}"
                out.append(ast.copy_location(ast.Assign(targets=[ast.Name(id=nm, ctx=ast.Store())], value=s.test), s))
                s.test = ast.copy_location(ast.Name(id=nm, ctx=ast.Load()), s)
            out.append(s)
        return out

    def generic_visit(self, n):
        super().generic_visit(n)
        if isinstance(n, (ast.FunctionDef, ast.AsyncFunctionDef, ast.If, ast.For, ast.While, ast.With, ast.Try, ast.ExceptHandler)):
            for fld in ("body", "orelse", "finalbody"):
                lst = getattr(n, fld, None)
                if isinstance(lst, list) and lst and isinstance(lst[0], ast.stmt):
                    setattr(n, fld, self._block(lst))
        return n


class EarlyReturn(ast.NodeTransformer):
    """a function whose LAST statement is `if c: BODY` (no else, function returns None there) -> `if not c: return` + BODY"""
    def _fn(self, n):
        self.generic_visit(n)
        if n.body and isinstance(n.body[-1], ast.If) and not n.body[-1].orelse and not any(isinstance(x, (ast.Yield, ast.YieldFrom)) for x in ast.walk(n)):
            last = n.body[-1]
            t = last.test
            neg = t.operand if isinstance(t, ast.UnaryOp) and isinstance(t.op, ast.Not) else ast.UnaryOp(op=ast.Not(), operand=t)
            guard = ast.copy_location(ast.If(test=neg, body=[ast.copy_location(ast.Return(value=None), last)], orelse=[]), last)
            n.body = n.body[:-1] + [guard] + last.body
        return n
    visit_FunctionDef = _fn
    visit_AsyncFunctionDef = _fn


class ChainCmp(ast.NodeTransformer):
    """`a <= x <= b` -> `a <= x and x <= b` when the middle operand is free of side effects"""

    def visit_Compare(self, n):
        self.generic_visit(n)
        if len(n.ops) > 1 and all(pure(c) for c in n.comparators[:-1]):
            parts, left = [], n.left
            for op, right in zip(n.ops, n.comparators):
                parts.append(ast.Compare(left=copy.deepcopy(left), ops=[op], comparators=[copy.deepcopy(right)]))
                left = right
            return ast.copy_location(ast.BoolOp(op=ast.And(), values=parts), n)
        return n


class DeMorgan(ast.NodeTransformer):
    """`not (a and b)` -> `not a or not b`, `not (a or b)` -> `not a and not b`; and for a plain `if a and b: X else: Y`
    nothing (covered by ifswap).  Conditions `a or b` used as an if-test become `not (not a and not b)`."""

    def visit_UnaryOp(self, n):
        self.generic_visit(n)
        if isinstance(n.op, ast.Not) and isinstance(n.operand, ast.BoolOp):
            op = ast.Or() if isinstance(n.operand.op, ast.And) else ast.And()
            return ast.copy_location(ast.BoolOp(op=op, values=[ast.UnaryOp(op=ast.Not(), operand=v) for v in n.operand.values]), n)
        return n

    def visit_If(self, n):
        self.generic_visit(n)
        if isinstance(n.test, ast.BoolOp) and isinstance(n.test.op, ast.Or):
            n.test = ast.UnaryOp(op=ast.Not(), operand=ast.BoolOp(op=ast.And(), values=[ast.UnaryOp(op=ast.Not(), operand=v) for v in n.test.values]))
        return n


class RetTernary(ast.NodeTransformer):
    """`if c: return A` directly followed by `return B` -> `return A if c else B` (A, B expressions; no else branch)"""

    def _blocks(self, node):
        for fld in ("body", "orelse", "finalbody"):
            lst = getattr(node, fld, None)
            if isinstance(lst, list) and lst and isinstance(lst[0], ast.stmt):
                i = 0
                while i + 1 < len(lst):
                    a, b = lst[i], lst[i + 1]
                    if isinstance(a, ast.If) and not a.orelse and len(a.body) == 1 and isinstance(a.body[0], ast.Return) and \
                            a.body[0].value is not None and isinstance(b, ast.Return) and b.value is not None:
                        new = ast.Return(value=ast.IfExp(test=a.test, body=a.body[0].value, orelse=b.value))
                        lst[i:i + 2] = [ast.copy_location(new, a)]
                        continue
                    i += 1

    def generic_visit(self, node):
        super().generic_visit(node)
        self._blocks(node)
        return node


def name_constants(src: str) -> str:
    """Every int literal >= 2 (and every float literal) used inside a function body gets a module-level name
    `_MM_K_<value>` defined right after the imports, and the function uses the name ("magic numbers -> named constants")."""
    tree = ast.parse(src)
    used = {}

    class T(ast.NodeTransformer):
        depth = 0

        def visit_FunctionDef(self, n):
            # defaults, decorators and annotations stay as they are
            self.depth += 1
            n.body = [self.visit(b) for b in n.body]
            self.depth -= 1
            return n
        visit_AsyncFunctionDef = visit_FunctionDef

        def visit_JoinedStr(self, n):
            return n

        def visit_Constant(self, n):
            v = n.value
            if self.depth and not isinstance(v, bool) and ((isinstance(v, int) and v >= 2) or (isinstance(v, float) and v == v and abs(v) != float("inf"))):
                nm = "_MM_K_" + repr(v).replace(".", "_").replace("-", "m").replace("+", "")
                used[nm] = v
                return ast.copy_location(ast.Name(id=nm, ctx=ast.Load()), n)
            return n
    tree = T().visit(tree)
    if not used:
        return src
    i = 0
    body = tree.body
    if body and isinstance(body[0], ast.Expr) and isinstance(body[0].value, ast.Constant) and isinstance(body[0].value.value, str):
        i = 1
    while i < len(body) and isinstance(body[i], (ast.Import, ast.ImportFrom)):
        i += 1
    defs = [ast.Assign(targets=[ast.Name(id=k, ctx=ast.Store())], value=ast.Constant(value=v)) for k, v in sorted(used.items())]
    tree.body = body[:i] + defs + body[i:]
    ast.fix_missing_locations(tree)
    return ast.unparse(tree)


class Delegate(ast.NodeTransformer):
    """every plain instance method `m(self, a, b=1)` of a class (no decorators, not a dunder, no generator, no nested
    `nonlocal`) keeps its signature and docstring but hands its work to a new private method:
    `def m(self, a, b=1): return self._mm_do_m(a, b)` + `def _mm_do_m(self, a, b=1): BODY`"""

    def visit_ClassDef(self, node):
        self.generic_visit(node)
        out = []
        for st in node.body:
            out.append(st)
            if not isinstance(st, ast.FunctionDef) or st.decorator_list or st.name.startswith("__"):
                continue
            a = st.args
            if a.vararg or a.kwarg or a.kwonlyargs or a.posonlyargs or not a.args or a.args[0].arg != "self":
                continue
            if any(isinstance(x, (ast.Yield, ast.YieldFrom, ast.Nonlocal, ast.Global)) for x in ast.walk(st)):
                continue
            if any(isinstance(x, ast.Name) and x.id in ("super", "__class__") for x in ast.walk(st)):
                continue
            body = list(st.body)
            doc = []
            if body and isinstance(body[0], ast.Expr) and isinstance(body[0].value, ast.Constant) and isinstance(body[0].value.value, str):
                doc, body = body[:1], body[1:]
            if not body or (len(body) == 1 and isinstance(body[0], (ast.Pass, ast.Raise))):
                continue
            impl = ast.FunctionDef(name=f"_mm_do_{st.name}", args=st.args, body=body, decorator_list=[], returns=st.returns,
                                   type_comment=None, type_params=[])
            call = ast.Call(func=ast.Attribute(value=ast.Name(id="self", ctx=ast.Load()), attr=impl.name, ctx=ast.Load()),
                            args=[ast.Name(id=x.arg, ctx=ast.Load()) for x in a.args[1:]], keywords=[])
            st.body = doc + [ast.Return(value=call)]
            out.append(impl)
        node.body = out
        return node


def hoist_final_attrs(src: str) -> str:
    """In every method, `self.A` for an attribute A that is assigned only in __init__ of its class (a final reference) and is
    read at least twice in the method is read once into a local `A_mm` at the top of the method."""
    tree = ast.parse(src)
    for cls in [n for n in ast.walk(tree) if isinstance(n, ast.ClassDef)]:
        assigned = {}
        for m in [b for b in cls.body if isinstance(b, ast.FunctionDef)]:
            for n in ast.walk(m):
                if isinstance(n, ast.Attribute) and isinstance(n.value, ast.Name) and n.value.id == "self" and isinstance(n.ctx, (ast.Store, ast.Del)):
                    assigned.setdefault(n.attr, set()).add(m.name)
        final = {a for a, ms in assigned.items() if ms == {"__init__"}}
        for m in [b for b in cls.body if isinstance(b, ast.FunctionDef) and b.name != "__init__"]:
            if any(isinstance(x, (ast.Lambda, ast.FunctionDef, ast.GeneratorExp, ast.ListComp, ast.SetComp, ast.DictComp)) for x in ast.walk(m) if x is not m):
                continue
            if not m.args.args or m.args.args[0].arg != "self" or any(ast.unparse(d) in ("staticmethod", "classmethod", "property") for d in m.decorator_list):
                continue
            uses = {}
            for n in ast.walk(m):
                if isinstance(n, ast.Attribute) and isinstance(n.value, ast.Name) and n.value.id == "self" and isinstance(n.ctx, ast.Load) and n.attr in final:
                    uses[n.attr] = uses.get(n.attr, 0) + 1
            todo = sorted(a for a, k in uses.items() if k >= 2)
            if not todo:
                continue

            class R(ast.NodeTransformer):
                def visit_Attribute(self, n):
                    self.generic_visit(n)
                    if isinstance(n.value, ast.Name) and n.value.id == "self" and isinstance(n.ctx, ast.Load) and n.attr in todo:
                        return ast.copy_location(ast.Name(id=n.attr.lstrip("_") + "_mm", ctx=ast.Load()), n)
                    return n
            body = [R().visit(st) for st in m.body]
            k = 1 if body and isinstance(body[0], ast.Expr) and isinstance(body[0].value, ast.Constant) and isinstance(body[0].value.value, str) else 0
            pre = [ast.Assign(targets=[ast.Name(id=a.lstrip("_") + "_mm", ctx=ast.Store())],
                              value=ast.Attribute(value=ast.Name(id="self", ctx=ast.Load()), attr=a, ctx=ast.Load())) for a in todo]
            m.body = body[:k] + pre + body[k:]
    ast.fix_missing_locations(tree)
    return ast.unparse(tree)


def rename_locals(src: str, filename: str) -> str:
    tree = ast.parse(src)
    try:
        top = symtable.symtable(src, filename, "exec")
    except SyntaxError:
        return src
    # map (function lineno, name) -> symbol table
    tables = {}

    def walk(t):
        if t.get_type() == "function":
            tables.setdefault((t.get_lineno(), t.get_name()), t)
        for c in t.get_children():
            walk(c)
    walk(top)

    class R(ast.NodeTransformer):
        def __init__(self):
            self.stack = []

        def _func(self, n):
            t = tables.get((n.lineno, n.name))
            names = set()
            if t is not None and not t.has_children() and not any(isinstance(x, (ast.Lambda, ast.GeneratorExp, ast.ListComp, ast.SetComp, ast.DictComp, ast.ClassDef))
                                                                  for x in ast.walk(n) if x is not n):
                for s in t.get_symbols():
                    if s.is_local() and s.is_assigned() and not s.is_parameter() and not s.is_global() and not s.is_nonlocal() \
                            and not s.is_free() and not s.is_imported() and not s.get_name().startswith("__"):
                        names.add(s.get_name())
                # names used in `del`, `global`, exception handler names etc. are fine; names that are also attribute names are fine
            self.stack.append(names)
            self.generic_visit(n)
            self.stack.pop()
            return n

        visit_FunctionDef = _func
        visit_AsyncFunctionDef = _func

        def visit_Name(self, n):
            if self.stack and n.id in self.stack[-1]:
                return ast.copy_location(ast.Name(id=n.id + "_mm", ctx=n.ctx), n)
            return n

        def visit_ExceptHandler(self, n):
            if self.stack and n.name and n.name in self.stack[-1]:
                n.name = n.name + "_mm"
            self.generic_visit(n)
            return n
    tree = R().visit(tree)
    ast.fix_missing_locations(tree)
    return ast.unparse(tree)


def transform(kind: str, src: str, filename: str) -> str:
    if kind == "reformat":
        return ast.unparse(ast.parse(src))
    if kind == "rename":
        return rename_locals(src, filename)
    if kind == "hoist":
        return hoist_final_attrs(src)
    if kind == "constname":
        return name_constants(src)
    tree = ast.parse(src)
    tree = {"flipcmp": FlipCmp, "ifswap": IfSwap, "nestand": NestAnd, "retlocal": RetLocal, "augassign": AugToAssign, "isnot": IsNot, "kwargs": KwArgs, "earlyreturn": EarlyReturn, "condlocal": CondLocal, "delegate": Delegate, "chaincmp": ChainCmp, "demorgan": DeMorgan, "retternary": RetTernary}[kind]().visit(tree)
    ast.fix_missing_locations(tree)
    return ast.unparse(tree)


def main():
    kind = sys.argv[1]
    props = sys.argv[2:] or PROPS
    td = tempfile.mkdtemp(prefix=f"metamorph_{kind}_")
    try:
        n = 0
        for sub in ("src", "examples"):
            shutil.copytree(os.path.join("/repo", sub), os.path.join(td, sub))
            for dp, dn, fn in os.walk(os.path.join(td, sub)):
                for f in fn:
                    if not f.endswith(".py"):
                        continue
                    p = os.path.join(dp, f)
                    src = open(p).read()
                    if len(src) > 400_000:           # the ASN.1 text modules: only constants
                        continue
                    try:
                        new = transform(kind, src, p)
                        compile(new, p, "exec")
                    except Exception as e:  # noqa
                        print("  skip", p, type(e).__name__)
                        continue
                    if new != src:
                        open(p, "w").write(new)
                        n += 1
        print(f"{kind}: {n} modules rewritten under {td}")
        env = dict(os.environ, FLEXLINT_REPO=td, FLEXLINT_EVIDENCE_DIR=os.path.join(td, "ev"))

        def run(p):
            r = subprocess.run(["/venv/bin/python", "-m", "flexlint", "check", p], cwd="/verif", env=env, capture_output=True, text=True)
            known = sum(1 for l in r.stdout.splitlines() if l.startswith("KNOWN-FINDING"))
            bad = [l for l in r.stdout.splitlines() if "violation:" in l or "ANALYSIS-ERROR" in l]
            return p, r.returncode, known, bad
        import concurrent.futures
        worst = 0
        with concurrent.futures.ThreadPoolExecutor(max_workers=6) as ex:
            for p, rc, known, bad in ex.map(run, props):
                print(f"{p}: exit {rc}, {known} known findings")
                for l in bad[:6]:
                    print("     ", l[:330])
                worst = max(worst, rc)
        return worst
    finally:
        if not os.environ.get("METAMORPH_KEEP"):
            shutil.rmtree(td, ignore_errors=True)


if __name__ == "__main__":
    sys.exit(main())
