#!/venv/bin/python
"""Development aid: confirm a sub-agent's seeded change in a scratch worktree of /repo at HEAD and file it.

usage: confirm_seed.py <prop> <k> <src_dir>      src_dir holds patch.diff, demo.py, notes.md
 1. fresh worktree of /repo HEAD under /tmp/confirm/<prop>-<k>
 2. demo on the clean tree must exit 0
 3. patch must apply; demo must exit 1
 4. pinned suite (BASELINE.stable_pass) must still pass with the patch
 5. on success copy to /verif/seeded/<prop>-<k>/ with meta.json; always remove the worktree
"""
import json
import os
import re
import shutil
import subprocess
import sys

prop, k, src = sys.argv[1], sys.argv[2], os.path.abspath(sys.argv[3])
sid = f"{prop}-{k}"
wt = f"/tmp/confirm/{sid}"
os.makedirs("/tmp/confirm", exist_ok=True)
subprocess.run(["git", "-C", "/repo", "worktree", "remove", "--force", wt], capture_output=True)
subprocess.run(["git", "-C", "/repo", "worktree", "add", "--detach", wt, "HEAD"], check=True, capture_output=True)
head = subprocess.run(["git", "-C", "/repo", "rev-parse", "--short", "HEAD"], capture_output=True, text=True).stdout.strip()
res = {"id": sid, "property": prop, "repo_head": head}
try:
    demo_src = open(os.path.join(src, "demo.py")).read()
    # demos were written against the agent's own worktree path; retarget to this worktree
    demo_src = re.sub(r"/tmp/wt2?/C\d+", wt, demo_src)
    sd = os.path.join(wt, "_out", str(k))
    os.makedirs(sd, exist_ok=True)
    for fn in os.listdir(src):          # helper modules the demo imports (harness.py ...)
        if fn.endswith(".py") and fn != "demo.py":
            open(os.path.join(sd, fn), "w").write(re.sub(r"/tmp/wt2?/C\d+", wt, open(os.path.join(src, fn)).read()))
    # helpers kept one level up by the author (harness.py, base.py ...)
    par = os.path.dirname(src.rstrip("/"))
    for fn in os.listdir(par):
        if fn.endswith(".py") and os.path.isfile(os.path.join(par, fn)):
            open(os.path.join(wt, "_out", fn), "w").write(re.sub(r"/tmp/wt2?/C\d+", wt, open(os.path.join(par, fn)).read()))
    demo = os.path.join(sd, "demo.py")
    open(demo, "w").write(demo_src)
    env = dict(os.environ, PYTHONPATH=os.path.join(wt, "src"))

    def run_demo():
        try:
            r = subprocess.run(["/venv/bin/python", demo], cwd=wt, env=env, capture_output=True, text=True, timeout=300)
            return r.returncode, (r.stdout + r.stderr)[-600:]
        except subprocess.TimeoutExpired:
            return -9, "timeout"
    rc0, out0 = run_demo()
    res["demo_clean"] = rc0
    if rc0 != 0:
        res["verdict"] = "REJECT: demo fails on the clean tree at HEAD"
        res["demo_clean_out"] = out0
        raise SystemExit
    patch = os.path.join(src, "patch.diff")
    r = subprocess.run(["git", "-C", wt, "apply", patch], capture_output=True, text=True)
    if r.returncode:
        r = subprocess.run(["git", "-C", wt, "apply", "--3way", patch], capture_output=True, text=True)
        res["applied_3way"] = True
    if r.returncode:
        subprocess.run(["git", "-C", wt, "checkout", "--", "."], capture_output=True)
        r = subprocess.run(["patch", "-p1", "-s", "-f", "--no-backup-if-mismatch", "-d", wt, "-i", patch], capture_output=True, text=True)
        res["applied_with_fuzz"] = True
    if r.returncode:
        res["verdict"] = "REJECT: patch does not apply at HEAD: " + (r.stderr + r.stdout)[:300]
        raise SystemExit
    newpatch = subprocess.run(["git", "-C", wt, "diff", "HEAD", "--", "src"], capture_output=True, text=True).stdout
    rc1, out1 = run_demo()
    res["demo_patched"] = rc1
    res["demo_patched_out"] = out1[-300:]
    if rc1 != 1:
        res["verdict"] = f"REJECT: demo exits {rc1} with the patch (expected 1)"
        raise SystemExit
    b = subprocess.run(["/venv/bin/python", "/verif/tools/baseline.py", wt, "-n", "6"], capture_output=True, text=True)
    res["suite"] = b.stdout.strip().splitlines()[0] if b.stdout.strip() else "?"
    if b.returncode != 0:
        res["verdict"] = "REJECT: pinned suite no longer passes: " + b.stdout[-400:]
        raise SystemExit
    dst = f"/verif/seeded/{sid}"
    os.makedirs(dst, exist_ok=True)
    open(os.path.join(dst, "patch.diff"), "w").write(newpatch)
    for fn in os.listdir(src):
        if fn.endswith(".py"):
            open(os.path.join(dst, fn), "w").write(open(os.path.join(src, fn)).read())
    for fn in os.listdir(par):
        if fn.endswith(".py") and os.path.isfile(os.path.join(par, fn)):
            os.makedirs(os.path.join(dst, "parent_helpers"), exist_ok=True)
            open(os.path.join(dst, "parent_helpers", fn), "w").write(open(os.path.join(par, fn)).read())
    notes = open(os.path.join(src, "notes.md")).read() if os.path.exists(os.path.join(src, "notes.md")) else ""
    open(os.path.join(dst, "notes.md"), "w").write(notes)
    meta = {"id": sid, "breaks_property": prop, "confirmed_at_repo_head": head,
            "needs_to_manifest": notes[:1500],
            "what_i_ran": [f"git worktree add --detach {wt} HEAD", "demo.py on clean tree -> exit 0",
                           "git apply patch.diff; demo.py -> exit 1",
                           "tools/baseline.py <worktree> -> " + res["suite"]],
            "detected_by": None}
    json.dump(meta, open(os.path.join(dst, "meta.json"), "w"), indent=1)
    res["verdict"] = "KEEP"
except SystemExit:
    pass
finally:
    subprocess.run(["git", "-C", "/repo", "worktree", "remove", "--force", wt], capture_output=True)
    shutil.rmtree(wt, ignore_errors=True)
print(json.dumps(res))
