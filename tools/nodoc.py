"""print python source without docstrings/comments-only/blank lines, with line numbers (reading aid)"""
import ast,sys
for path in sys.argv[1:]:
    src=open(path).read(); lines=src.splitlines()
    tree=ast.parse(src); skip=set()
    for n in ast.walk(tree):
        if isinstance(n,(ast.FunctionDef,ast.ClassDef,ast.AsyncFunctionDef,ast.Module)):
            b=n.body
            if b and isinstance(b[0],ast.Expr) and isinstance(b[0].value,ast.Constant) and isinstance(b[0].value.value,str):
                for i in range(b[0].lineno,b[0].end_lineno+1): skip.add(i)
    print('#### ',path)
    for i,l in enumerate(lines,1):
        if i in skip or not l.strip() or l.strip().startswith('#'): continue
        print(f'{i}\t{l}')
