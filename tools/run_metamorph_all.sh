#!/bin/bash
# Development aid: every whole-tree behaviour-preserving transform, all 20 quick checks on each; prints only what is not exit 0.
cd /verif
for t in reformat rename flipcmp ifswap nestand retlocal augassign isnot kwargs earlyreturn hoist condlocal delegate chaincmp demorgan retternary constname; do
  echo "##### $t"; timeout 5400 /venv/bin/python tools/metamorph.py $t 2>&1 | grep -v "exit 0" | cut -c1-300
done
