#!/venv/bin/python
"""Development aid: apply a seeded patch to /repo, run checks, undo.  usage: seedcheck.py <patch.diff> <Cxx> [Cyy ...]"""
import os, subprocess, sys, tempfile
patch = os.path.abspath(sys.argv[1]); props = sys.argv[2:]
assert subprocess.run(["git", "-C", "/repo", "status", "--porcelain"], capture_output=True, text=True).stdout.strip() == "", "repo dirty"
r = subprocess.run(["git", "-C", "/repo", "apply", patch], capture_output=True, text=True)
if r.returncode:
    r = subprocess.run(["git", "-C", "/repo", "apply", "--3way", patch], capture_output=True, text=True)
if r.returncode:
    print("PATCH DOES NOT APPLY:", r.stderr[:400]); sys.exit(3)
try:
    with tempfile.TemporaryDirectory() as td:
        env = dict(os.environ, FLEXLINT_EVIDENCE_DIR=td)
        for p in props:
            r = subprocess.run(["/venv/bin/python", "-m", "flexlint", "check", p], cwd="/verif", env=env, capture_output=True, text=True)
            lines = [l for l in r.stdout.splitlines() if "violation:" in l or l.startswith("VIOLATION") or "ANALYSIS-ERROR" in l]
            print(f"== {p}: exit {r.returncode}")
            for l in lines[:8]:
                print("   ", l[:400])
            if r.returncode == 2:
                print(r.stdout[-800:], r.stderr[-800:])
finally:
    subprocess.run(["git", "-C", "/repo", "reset", "-q", "HEAD", "--", "."])
    subprocess.run(["git", "-C", "/repo", "checkout", "--", "."])
    assert subprocess.run(["git", "-C", "/repo", "status", "--porcelain"], capture_output=True, text=True).stdout.strip() == ""
