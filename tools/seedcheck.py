#!/venv/bin/python
"""Development aid: run checks against a scratch copy of /repo's working tree with a seeded patch applied.
usage: seedcheck.py <patch.diff> <Cxx> [Cyy ...]     (never touches /repo; copy removed afterwards)"""
import os, shutil, subprocess, sys, tempfile
patch = os.path.abspath(sys.argv[1]); props = sys.argv[2:]
td = tempfile.mkdtemp(prefix="seedchk_")
try:
    shutil.copytree("/repo/src", os.path.join(td, "src"))
    shutil.copytree("/repo/examples", os.path.join(td, "examples"))
    r = subprocess.run(["patch", "-p1", "-s", "-f", "-d", td, "-i", patch], capture_output=True, text=True)
    if r.returncode:
        print("PATCH DOES NOT APPLY:", (r.stdout + r.stderr)[:400]); sys.exit(3)
    env = dict(os.environ, FLEXLINT_EVIDENCE_DIR=os.path.join(td, "ev"), FLEXLINT_REPO=td)
    for p in props:
        r = subprocess.run(["/venv/bin/python", "-m", "flexlint", "check", p], cwd="/verif", env=env, capture_output=True, text=True)
        lines = [l for l in r.stdout.splitlines() if "violation:" in l or l.startswith("VIOLATION") or "ANALYSIS-ERROR" in l]
        print(f"== {p}: exit {r.returncode}")
        for l in lines[:8]:
            print("   ", l[:420])
        if r.returncode == 2:
            print(r.stdout[-800:], r.stderr[-800:])
finally:
    shutil.rmtree(td, ignore_errors=True)
