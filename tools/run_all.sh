#!/bin/bash
# Development aid: run every check (default tier thorough, strict self-test) and print one line per property.
cd /verif
TIER=${1:-thorough}
mkdir -p /tmp/flexlint_all
run() { p=$1; FLEXLINT_SELFTEST_STRICT=1 timeout 5400 /venv/bin/python -m flexlint check $p --tier $TIER > /tmp/flexlint_all/$p.out 2>&1; echo "$p exit=$? $(grep -h 'selftest:' /tmp/flexlint_all/$p.out | cut -c1-120) $(grep -c '^KNOWN-FINDING' /tmp/flexlint_all/$p.out) known"; }
export -f run; export TIER
printf "%s\n" C01 C02 C03 C04 C05 C06 C07 C08 C09 C10 C11 C12 C13 C14 C15 C16 C17 C18 C19 C20 | xargs -P 3 -I{} bash -c 'run {}'
