#!/venv/bin/python
"""Development aid: run ALL 20 quick checks on a scratch copy of /repo's tree with one patch applied; print which rules fire.
usage: seedscan.py <patch.diff> [Cxx ...]"""
import concurrent.futures, os, shutil, subprocess, sys, tempfile
patch = os.path.abspath(sys.argv[1]); props = sys.argv[2:] or [f"C{i:02d}" for i in range(1, 21)]
td = tempfile.mkdtemp(prefix="seedscan_")
try:
    shutil.copytree("/repo/src", os.path.join(td, "src")); shutil.copytree("/repo/examples", os.path.join(td, "examples"))
    r = subprocess.run(["patch", "-p1", "-s", "-f", "--no-backup-if-mismatch", "-d", td, "-i", patch], capture_output=True, text=True)
    if r.returncode:
        print("PATCH DOES NOT APPLY:", (r.stdout + r.stderr)[:300]); sys.exit(3)
    env = dict(os.environ, FLEXLINT_REPO=td, FLEXLINT_EVIDENCE_DIR=os.path.join(td, "ev"))
    def run(p):
        r = subprocess.run(["/venv/bin/python", "-m", "flexlint", "check", p], cwd="/verif", env=env, capture_output=True, text=True)
        v = [l.strip() for l in r.stdout.splitlines() if "violation:" in l or "ANALYSIS-ERROR" in l]
        return p, r.returncode, v
    with concurrent.futures.ThreadPoolExecutor(max_workers=5) as ex:
        hits = [(p, rc, v) for p, rc, v in ex.map(run, props) if rc != 0]
    if not hits:
        print("NOT DETECTED by any check")
    for p, rc, v in hits:
        print(f"{p}: exit {rc}")
        for l in v[:3]:
            print("    ", l[:300])
finally:
    shutil.rmtree(td, ignore_errors=True)
