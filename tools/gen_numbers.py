#!/venv/bin/python
"""Development aid: rewrite section 9.6 of DESIGN.md (numbers of the last complete run) from /tmp/flexlint_all/*.out (written by
tools/run_all.sh), the evidence files and the seeded-change records."""
import glob, json, os, re, sys

ROOT = os.path.dirname(os.path.dirname(os.path.abspath(__file__)))
rows, tot = [], [0, 0, 0, 0]
for i in range(1, 21):
    p = f"C{i:02d}"
    out = open(f"/tmp/flexlint_all/{p}.out").read() if os.path.exists(f"/tmp/flexlint_all/{p}.out") else ""
    m = re.search(r"selftest: (\d+) mutants detected, (\d+) missed, (\d+) twins silent, (\d+) twins alarmed, (\d+) stale", out)
    ev = json.load(open(os.path.join(ROOT, "evidence", f"{p}.json")))
    cov = ev.get("coverage", {})
    nob = sum(v.get("instances", 0) for v in (cov.get("rules") or cov.get("obligations_by_rule") or {}).values()) if isinstance(cov, dict) else 0
    if not nob:
        txt = json.dumps(ev)
        nob = sum(int(x) for x in re.findall(r'"instances": (\d+)', txt))
    known = len(re.findall(r"^KNOWN-FINDING", out, re.M))
    if m:
        a, b, c, d, e = map(int, m.groups())
        tot = [tot[0] + a, tot[1] + b, tot[2] + c, tot[3] + d]
        rows.append(f"| {p} | {nob} | {a} / {b} | {c} / {d} | {known} |")
    else:
        rows.append(f"| {p} | {nob} | (no self-test record) | | {known} |")
seeds = []
for mf in sorted(glob.glob(os.path.join(ROOT, "seeded", "*", "meta.json"))):
    m = json.load(open(mf))
    sid = os.path.basename(os.path.dirname(mf))
    det = m.get("detected_by")
    seeds.append((sid, det))
undet = [s for s, d in seeds if not d]
lines = []
lines.append("### 9.6 Numbers of the last complete run (current /repo HEAD, `tools/run_all.sh thorough`, strict self-test)\n")
lines.append(f"{tot[0]} mutant cases (one-construct edits from `mutants_data/` plus the confirmed seeded changes) are detected by the rule they "
             f"were written against, {tot[1]} missed; {tot[2]} twins stay silent, {tot[3]} alarm.\n")
lines.append("| property | obligations (quick) | mutants detected / missed | twins silent / alarmed | known findings |\n|---|---|---|---|---|")
lines += rows
lines.append("")
lines.append(f"Seeded changes and the rules that report them (`tools/fill_detected.py` runs all 20 checks on each patched tree; {len(seeds)} seeds, "
             f"{len(undet)} reported by no check" + (": " + ", ".join(undet) if undet else "") + "):\n")
lines.append("| seed | reported by |\n|---|---|")
for s, d in seeds:
    lines.append(f"| {s} | {', '.join(d) if d else ('-' if d is not None else 'patch superseded')} |")
lines.append("")
new = "\n".join(lines) + "\n"
p = os.path.join(ROOT, "DESIGN.md")
s = open(p).read()
a = s.index("### 9.6 Numbers of the last complete run")
b = s.index("### 9.7 Whole-tree behaviour-preserving rewrites")
tail_note = ""
mk = "<!-- 9.6-notes -->"
if mk in s[a:b]:
    tail_note = s[a:b][s[a:b].index(mk):]
s = s[:a] + new + (tail_note if tail_note else mk + "\n\n") + s[b:]
open(p, "w").write(s)
print("9.6 rewritten:", tot, len(seeds), "seeds,", len(undet), "undetected")
