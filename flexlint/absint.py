"""Small abstract interpreters (K10).

regions: exact evaluation of a comparison method over the cells of the threshold arrangement of d = a - b.
piecewise: extraction of an if/elif chain on one integer variable into (interval, result form) pieces.
intervals: interval arithmetic over straight-line builder code.
"""
from __future__ import annotations

import ast
import math
from typing import Optional

from .prog import AnalysisError, ClassInfo, FuncInfo, Program, dotted, unparse


# --------------------------------------------------------------------------------------------
# tiny concrete evaluator over expression ASTs (used on region representatives / extracted constants only;
# it interprets the *syntax tree*, the repository code is never executed)
# --------------------------------------------------------------------------------------------
class MiniEval:
    def __init__(self, prog: Program, fi: FuncInfo, env: dict, method_hook=None):
        self.prog, self.fi, self.env, self.hook = prog, fi, env, method_hook

    def ev(self, e):
        if isinstance(e, ast.Constant):
            return e.value
        d = dotted(e)
        if d is not None and d in self.env:
            return self.env[d]
        if isinstance(e, ast.Name):
            c = self.prog.try_fold(self.fi.module, e, default="<nc>")
            if c != "<nc>":
                return c
            raise AnalysisError(f"MiniEval: unknown name {e.id} in {self.fi.qual}")
        if isinstance(e, ast.Attribute):
            c = self.prog.try_fold(self.fi.module, e, default="<nc>")
            if c != "<nc>":
                return c
            raise AnalysisError(f"MiniEval: unknown attribute {unparse(e)} in {self.fi.qual}")
        if isinstance(e, ast.UnaryOp):
            v = self.ev(e.operand)
            if isinstance(e.op, ast.Not):
                return not v
            if isinstance(e.op, ast.USub):
                return -v
            if isinstance(e.op, ast.UAdd):
                return +v
        if isinstance(e, ast.BoolOp):
            if isinstance(e.op, ast.And):
                r = True
                for v in e.values:
                    r = self.ev(v)
                    if not r:
                        return r
                return r
            r = False
            for v in e.values:
                r = self.ev(v)
                if r:
                    return r
            return r
        if isinstance(e, ast.Compare):
            left = self.ev(e.left)
            for op, c in zip(e.ops, e.comparators):
                right = self.ev(c)
                ok = {ast.Gt: left > right if not isinstance(op, (ast.In, ast.NotIn, ast.Is, ast.IsNot)) else None}.get(type(op))
                if isinstance(op, ast.Gt):
                    ok = left > right
                elif isinstance(op, ast.GtE):
                    ok = left >= right
                elif isinstance(op, ast.Lt):
                    ok = left < right
                elif isinstance(op, ast.LtE):
                    ok = left <= right
                elif isinstance(op, ast.Eq):
                    ok = left == right
                elif isinstance(op, ast.NotEq):
                    ok = left != right
                else:
                    raise AnalysisError(f"MiniEval: comparison {type(op).__name__}")
                if not ok:
                    return False
                left = right
            return True
        if isinstance(e, ast.BinOp):
            a, b = self.ev(e.left), self.ev(e.right)
            op = e.op
            if isinstance(op, ast.Add):
                return a + b
            if isinstance(op, ast.Sub):
                return a - b
            if isinstance(op, ast.Mult):
                return a * b
            if isinstance(op, ast.Div):
                return a / b
            if isinstance(op, ast.FloorDiv):
                return a // b
            if isinstance(op, ast.Mod):
                return a % b
            if isinstance(op, ast.Pow):
                return a ** b
            if isinstance(op, ast.LShift):
                return a << b
            if isinstance(op, ast.RShift):
                return a >> b
            if isinstance(op, ast.BitAnd):
                return a & b
            if isinstance(op, ast.BitOr):
                return a | b
        if isinstance(e, ast.IfExp):
            return self.ev(e.body) if self.ev(e.test) else self.ev(e.orelse)
        if isinstance(e, ast.Call):
            fd = dotted(e.func) or ""
            if fd == "isinstance":
                return True
            if fd in ("int", "float", "abs", "min", "max", "round", "bool"):
                args = [self.ev(a) for a in e.args]
                return {"int": int, "float": float, "abs": abs, "min": min, "max": max, "round": round, "bool": bool}[fd](*args)
            if self.hook is not None:
                r = self.hook(self, e)
                if r is not NotImplemented:
                    return r
        raise AnalysisError(f"MiniEval: unsupported expression {unparse(e)[:60]} in {self.fi.qual}")


def method_result_expr(fi: FuncInfo) -> ast.AST:
    """The expression a comparison dunder returns for same-class operands:
    `if isinstance(o, Cls): return <expr>` / plain `return <expr>`."""
    for st in fi.node.body:
        if isinstance(st, ast.If) and "isinstance" in unparse(st.test):
            for b in st.body:
                if isinstance(b, ast.Return):
                    return b.value
        if isinstance(st, ast.Return) and st.value is not None and not isinstance(st.value, ast.Constant):
            return st.value
    raise AnalysisError(f"{fi.qual}: no result expression found")


def region_table(prog: Program, cls: ClassInfo, field: str, ops: list, modulus_bits: int = 32) -> dict:
    """Evaluate comparison dunders of `cls` over representatives of every cell of d = a - b.

    Returns {op: {region name: bool}}.  Cells are delimited by 0 and +-2^(bits-1); representatives are chosen inside
    the value range [0, 2^bits).
    """
    H = 1 << (modulus_bits - 1)
    M = 1 << modulus_bits
    reps = {
        "d<-H": (0, H + 5),               # a - b = -(H+5)
        "d=-H": (0, H),
        "-H<d<0": (100, 1000),
        "-H<d<0 (near -H)": (1, H),       # d = -(H-1)
        "d=0": (12345, 12345),
        "0<d<H": (1000, 100),
        "0<d<H (near H)": (H, 1),         # d = H-1
        "d=H": (H, 0),
        "d>H": (H + 5, 0),
        "d=M-1": (M - 1, 0),
        "d=-(M-1)": (0, M - 1),
    }
    out = {}
    for op in ops:
        fi = cls.methods.get(op)
        if fi is None:
            raise AnalysisError(f"{cls.qual}.{op} vanished")
        other = fi.params[1]

        row = {}
        for name, (a, b) in reps.items():
            row[name] = bool(_run_dunder(prog, cls, fi, field, a, b))
        out[op] = row
    return out


def _run_dunder(prog, cls, fi, field, a, b, depth=0):
    """Interpret a comparison dunder body for same-class operands with msec values a (self) and b (other)."""
    if depth > 6:
        raise AnalysisError(f"{fi.qual}: comparison methods recurse")
    other = fi.params[1]

    class X(MiniExec):
        def ev(self2, e):
            d = dotted(e)
            if d == f"self.{field}":
                return a
            if d == f"{other}.{field}":
                return b
            return super().ev(e)

        def _call(self2, me, call):
            f = call.func
            if isinstance(f, ast.Attribute) and isinstance(f.value, ast.Name) and f.value.id == "self" and f.attr in cls.methods:
                return _run_dunder(prog, cls, cls.methods[f.attr], field, a, b, depth + 1)
            if isinstance(f, ast.Attribute) and isinstance(f.value, ast.Name) and f.value.id == other and f.attr in cls.methods:
                return _run_dunder(prog, cls, cls.methods[f.attr], field, b, a, depth + 1)
            return super()._call(me, call)
    return X(prog, fi, {"self": ("obj", "self"), other: ("obj", other)}).run()


# --------------------------------------------------------------------------------------------
# piecewise extraction: if/elif chain on one integer variable
# --------------------------------------------------------------------------------------------
def piecewise_chain(prog: Program, fi: FuncInfo, var: str) -> list:
    """[(lo, hi, {assigned name: expr})] for a top-level `if var < c1: ... elif var < c2: ... else: ...` chain.
    Intervals are half-open [lo, hi) over the integers; lo=None / hi=None mean unbounded."""
    chain = None
    for st in fi.node.body:
        if isinstance(st, ast.If):
            chain = st
            break
    if chain is None:
        raise AnalysisError(f"{fi.qual}: no if-chain found")
    pieces = []
    lo = None
    cur = chain
    while True:
        t = cur.test
        if not (isinstance(t, ast.Compare) and len(t.ops) == 1 and isinstance(t.left, ast.Name) and t.left.id == var):
            raise AnalysisError(f"{fi.qual}: unsupported guard `{unparse(t)}` (expected `{var} < const`)")
        c = prog.try_fold(fi.module, t.comparators[0])
        if not isinstance(c, (int, float)):
            raise AnalysisError(f"{fi.qual}: non-constant bound in `{unparse(t)}`")
        if isinstance(t.ops[0], ast.Lt):
            hi = c
        elif isinstance(t.ops[0], ast.LtE):
            hi = c + 1
        else:
            raise AnalysisError(f"{fi.qual}: unsupported comparison in `{unparse(t)}`")
        pieces.append((lo, hi, _assigns(cur.body), cur.lineno))
        lo = hi
        if len(cur.orelse) == 1 and isinstance(cur.orelse[0], ast.If):
            cur = cur.orelse[0]
            continue
        if cur.orelse:
            pieces.append((lo, None, _assigns(cur.orelse), cur.orelse[0].lineno))
        break
    return pieces


def _assigns(stmts) -> dict:
    out = {}
    for s in stmts:
        if isinstance(s, ast.Assign) and len(s.targets) == 1 and isinstance(s.targets[0], ast.Name):
            out[s.targets[0].id] = s.value
        elif isinstance(s, ast.Return) and s.value is not None:
            out["<return>"] = s.value
    return out


# --------------------------------------------------------------------------------------------
# polynomial normal form (exact rational coefficients) for formula identity checks
# --------------------------------------------------------------------------------------------
from fractions import Fraction


class Poly:
    """Sum of monomials: {tuple(sorted atom names with multiplicity): Fraction}.  Opaque sub-expressions
    (calls, subscripts, min/max) become atoms named by their canonical text."""

    def __init__(self, terms=None):
        self.t = {k: v for k, v in (terms or {}).items() if v != 0}

    @staticmethod
    def const(c):
        return Poly({(): Fraction(c).limit_denominator(10 ** 12) if isinstance(c, float) else Fraction(c)})

    @staticmethod
    def atom(name):
        return Poly({(name,): Fraction(1)})

    def __add__(self, o):
        r = dict(self.t)
        for k, v in o.t.items():
            r[k] = r.get(k, 0) + v
        return Poly(r)

    def __neg__(self):
        return Poly({k: -v for k, v in self.t.items()})

    def __sub__(self, o):
        return self + (-o)

    def __mul__(self, o):
        r = {}
        for k1, v1 in self.t.items():
            for k2, v2 in o.t.items():
                items = list(k1 + k2)
                # cancel a * (1/a)
                for a_ in [x for x in items if not x.startswith("1/(")]:
                    inv = f"1/({a_})"
                    if inv in items and a_ in items:
                        items.remove(inv)
                        items.remove(a_)
                k = tuple(sorted(items))
                r[k] = r.get(k, 0) + v1 * v2
        return Poly(r)

    def is_const(self):
        return all(k == () for k in self.t)

    def cval(self):
        return self.t.get((), Fraction(0))

    def __eq__(self, o):
        return isinstance(o, Poly) and self.t == o.t

    def __repr__(self):
        if not self.t:
            return "0"
        return " + ".join(f"{v}*{'*'.join(k) if k else '1'}" for k, v in sorted(self.t.items()))


def to_poly(prog: Program, mod, e: ast.AST, rename=None) -> Poly:
    """Normalise an arithmetic expression; names/attribute chains are atoms (after `rename`), min/max/calls opaque
    atoms whose arguments are themselves normalised (so min(a*b, c) == min(b*a, c))."""
    rename = rename or (lambda s: s)
    c = prog.try_fold(mod, e, default="<nc>")
    if c != "<nc>" and isinstance(c, (int, float)) and not isinstance(c, bool):
        return Poly.const(c)
    if isinstance(e, ast.BinOp):
        if isinstance(e.op, ast.Add):
            return to_poly(prog, mod, e.left, rename) + to_poly(prog, mod, e.right, rename)
        if isinstance(e.op, ast.Sub):
            return to_poly(prog, mod, e.left, rename) - to_poly(prog, mod, e.right, rename)
        if isinstance(e.op, ast.Mult):
            return to_poly(prog, mod, e.left, rename) * to_poly(prog, mod, e.right, rename)
        if isinstance(e.op, ast.Div):
            d = to_poly(prog, mod, e.right, rename)
            if d.is_const() and d.cval() != 0:
                return to_poly(prog, mod, e.left, rename) * Poly({(): 1 / d.cval()})
            if len(d.t) == 1:
                # a single monomial c*a1*...*an: divide factor by factor, so x / a**2 == (x / a)**2 == x * (1/a) * (1/a)
                (atoms_, coef), = d.t.items()
                r = to_poly(prog, mod, e.left, rename) * Poly({(): 1 / coef})
                for a_ in atoms_:
                    r = r * Poly.atom(a_[3:-1] if a_.startswith("1/(") and a_.endswith(")") else f"1/({a_})")
                return r
            return to_poly(prog, mod, e.left, rename) * Poly.atom(f"1/({d!r})")
    if isinstance(e, ast.BinOp) and isinstance(e.op, ast.Pow):
        k = prog.try_fold(mod, e.right)
        if isinstance(k, int) and 0 <= k <= 6:
            r = Poly.const(1)
            b = to_poly(prog, mod, e.left, rename)
            for _ in range(k):
                r = r * b
            return r
    if isinstance(e, ast.UnaryOp) and isinstance(e.op, ast.USub):
        return -to_poly(prog, mod, e.operand, rename)
    if isinstance(e, ast.UnaryOp) and isinstance(e.op, ast.UAdd):
        return to_poly(prog, mod, e.operand, rename)
    if isinstance(e, ast.Call) and dotted(e.func) in ("min", "max", "float", "int", "abs"):
        fn = dotted(e.func)
        args = sorted(repr(to_poly(prog, mod, a, rename)) for a in e.args)
        if fn == "float" and len(e.args) == 1:
            return to_poly(prog, mod, e.args[0], rename)
        return Poly.atom(f"{fn}({', '.join(args)})")
    d = dotted(e)
    if d is not None:
        return Poly.atom(rename(d))
    return Poly.atom(rename(unparse(e)))


def clamp_bounds(prog: Program, mod, e: ast.AST, rename=None):
    """e == min(max(X, L), H) or max(min(X, H), L)  ->  (X, L, H) as ASTs, else None."""
    if isinstance(e, ast.Call) and dotted(e.func) in ("min", "max") and len(e.args) == 2:
        outer = dotted(e.func)
        for inner, bound in ((e.args[0], e.args[1]), (e.args[1], e.args[0])):
            if isinstance(inner, ast.Call) and dotted(inner.func) in ("min", "max") and dotted(inner.func) != outer \
                    and len(inner.args) == 2:
                for x, b2 in ((inner.args[0], inner.args[1]), (inner.args[1], inner.args[0])):
                    if not (isinstance(x, ast.Call) and dotted(x.func) in ("min", "max")) or True:
                        if outer == "min":
                            return x, b2, bound       # min(max(x, L), H)
                        return x, bound, b2           # max(min(x, H), L)
    return None


# --------------------------------------------------------------------------------------------
# MiniExec: interpretation of a small, pure, integer-valued function body on representatives of a finite
# partition (the caller proves the partition exact from the constants the function uses)
# --------------------------------------------------------------------------------------------
class _Continue(Exception):
    pass


class _Return(Exception):
    def __init__(self, value):
        self.value = value


class MiniExec(MiniEval):
    MAX_STEPS = 20000

    def __init__(self, prog: Program, fi: FuncInfo, env: dict):
        super().__init__(prog, fi, env, self._call)
        self.steps = 0

    def run(self):
        try:
            self.block(self.fi.node.body)
        except _Return as r:
            return r.value
        return None

    def block(self, stmts):
        for s in stmts:
            self.steps += 1
            if self.steps > self.MAX_STEPS:
                raise AnalysisError(f"MiniExec: step budget exceeded in {self.fi.qual}")
            self.stmt(s)

    def assign(self, tgt, val):
        if isinstance(tgt, ast.Name):
            self.env[tgt.id] = val
        elif isinstance(tgt, (ast.Tuple, ast.List)):
            vals = list(val)
            if len(vals) != len(tgt.elts):
                raise AnalysisError("MiniExec: unpack length mismatch")
            for t, v in zip(tgt.elts, vals):
                self.assign(t, v)
        else:
            raise AnalysisError(f"MiniExec: unsupported assignment target {unparse(tgt)}")

    def stmt(self, s):
        if isinstance(s, ast.Expr):
            return
        if isinstance(s, ast.Assign):
            v = self.ev(s.value)
            for t in s.targets:
                self.assign(t, v)
            return
        if isinstance(s, ast.AnnAssign):
            if s.value is not None:
                self.assign(s.target, self.ev(s.value))
            return
        if isinstance(s, ast.AugAssign):
            cur = ast.Name(id=s.target.id, ctx=ast.Load()) if isinstance(s.target, ast.Name) else None
            if cur is None:
                raise AnalysisError("MiniExec: augmented assignment to non-name")
            self.env[s.target.id] = self.ev(ast.BinOp(left=cur, op=s.op, right=s.value))
            return
        if isinstance(s, ast.If):
            self.block(s.body if self.ev(s.test) else s.orelse)
            return
        if isinstance(s, ast.For):
            it = self.ev(s.iter)
            for x in it:
                self.assign(s.target, x)
                try:
                    self.block(s.body)
                except StopIteration:
                    break
                except _Continue:
                    continue
            return
        if isinstance(s, ast.While):
            guard = 0
            while self.ev(s.test):
                guard += 1
                if guard > 100000:
                    raise AnalysisError(f"MiniExec: loop bound exceeded in {self.fi.qual}:{s.lineno}")
                try:
                    self.block(s.body)
                except StopIteration:
                    break
                except _Continue:
                    continue
            return
        if isinstance(s, ast.Continue):
            raise _Continue()
        if isinstance(s, ast.Return):
            raise _Return(self.ev(s.value) if s.value is not None else None)
        if isinstance(s, ast.Pass):
            return
        if isinstance(s, ast.Break):
            raise StopIteration
        raise AnalysisError(f"MiniExec: unsupported statement {type(s).__name__} in {self.fi.qual}:{s.lineno}")

    def ev(self, e):
        if isinstance(e, ast.Name) and e.id in self.env:
            return self.env[e.id]
        if isinstance(e, (ast.Tuple, ast.List)):
            return tuple(self.ev(x) for x in e.elts)
        if isinstance(e, ast.Subscript):
            v = self.ev(e.value)
            i = self.ev(e.slice)
            return v[i]
        if isinstance(e, ast.Attribute) and e.attr == "value":
            v = self.ev(e.value)
            if isinstance(v, tuple) and len(v) == 3 and v[0] == "enum":
                return self.prog.classes[v[1]].enum_members[v[2]]
        return super().ev(e)

    def _call(self, me, call):
        f = call.func
        ent = self.prog.resolve_expr_entity(self.fi.module, f)
        if isinstance(f, ast.Name) and f.id == "cls" and self.fi.cls is not None:
            ent = self.fi.cls
        if isinstance(ent, ClassInfo) and not ent.is_enum:
            rec = {"<class>": ent.qual}
            names = [n for n, (ann, _) in ent.fields.items() if ann is not None]
            for i, a in enumerate(call.args):
                rec[names[i]] = self.ev(a)
            for kw in call.keywords:
                rec[kw.arg] = self.ev(kw.value)
            return rec
        if isinstance(ent, ClassInfo) and ent.is_enum and len(call.args) == 1:
            v = self.ev(call.args[0])
            for k, mv in ent.enum_members.items():
                if mv == v:
                    return ("enum", ent.qual, k)
            raise AnalysisError(f"MiniExec: {v!r} is not a member value of {ent.name}")
        return NotImplemented


def value_constants(prog: Program, fi: FuncInfo, var: str):
    """(thresholds compared with `var`, divisors applied to `var`) as sets of ints - the breakpoints of a pure
    integer function of `var` built from comparisons and floor divisions."""
    thr, div = set(), set()
    for n in ast.walk(fi.node):
        if isinstance(n, ast.Compare):
            parts = [n.left] + n.comparators
            if any(isinstance(p, ast.Name) and p.id == var for p in parts):
                for p in parts:
                    c = prog.try_fold(fi.module, p)
                    if isinstance(c, (int, float)) and not isinstance(c, bool):
                        thr.add(int(c))
        if isinstance(n, ast.BinOp) and isinstance(n.op, (ast.Div, ast.FloorDiv, ast.Mod)):
            if any(isinstance(x, ast.Name) and x.id == var for x in ast.walk(n.left)):
                c = prog.try_fold(fi.module, n.right)
                if isinstance(c, (int, float)) and not isinstance(c, bool) and c > 0:
                    div.add(int(c))
                elif c is None:
                    div.add(-1)     # non-constant divisor: caller must supply the candidate set
    return thr, div
