"""K6: lockset, atomic sections, lock order - derived from `with <lock>:` regions (also through a local alias of the
lock) and from bare `<lock>.acquire()` ... `<lock>.release()` statement brackets (try/finally included); conditional or
timed acquisition is refused (ANALYSIS-ERROR)."""
from __future__ import annotations

import ast
from dataclasses import dataclass
from typing import Optional

from .prog import AnalysisError, ClassInfo, FuncInfo, Program, dotted, unparse
from .flow import FunctionFlow

MUTATORS = {"append", "add", "discard", "pop", "remove", "update", "clear", "setdefault", "insert", "popleft",
            "appendleft", "extend", "sort", "reverse", "popitem"}


@dataclass
class Access:
    fi: FuncInfo
    node: ast.AST
    kind: str            # read | write | rmw
    locks: tuple
    with_node: Optional[ast.AST]   # innermost enclosing With that takes the guarding lock (None if via entry lockset)
    how: str
    line: int
    stmt: ast.AST = None


class LockAnalysis:
    def __init__(self, ctx):
        self.ctx = ctx
        self.prog: Program = ctx.prog
        self.flows = ctx.flows
        self.lock_kinds = self._lock_kinds()
        self._acq: dict = {}
        self._check_no_acquire_calls()

    # ------------------------------------------------------------------ basics
    def _check_no_acquire_calls(self):
        for fi in self.prog.iter_funcs():
            for c in self.prog.calls_in(fi):
                if isinstance(c.func, ast.Attribute) and c.func.attr in ("acquire", "release"):
                    d = dotted(c.func.value) or ""
                    if "lock" in d.lower():
                        # bare statements `lock.acquire()` / `lock.release()` are understood as region brackets (flow.py);
                        # conditional / timed acquisition is not
                        fl = self.flows.get(fi)
                        st = fl.stmt_of.get(id(c))
                        bare = isinstance(st, ast.Expr) and st.value is c and not c.args and not c.keywords
                        if not bare:
                            raise AnalysisError(f"{fi.module.rel}:{c.lineno}: {c.func.attr}() on {d} with arguments or inside an "
                                                f"expression: conditional / timed lock acquisition is not modelled")

    def _lock_kinds(self) -> dict:
        out = {}
        for ci in self.prog.classes.values():
            for m in ci.methods.values():
                for n in ast.walk(m.node):
                    if isinstance(n, (ast.Assign, ast.AnnAssign)):
                        tg = n.targets[0] if isinstance(n, ast.Assign) else n.target
                        if isinstance(tg, ast.Attribute) and isinstance(tg.value, ast.Name) and tg.value.id == "self" \
                                and isinstance(n.value, ast.Call):
                            d = dotted(n.value.func) or ""
                            if d.split(".")[-1] in ("Lock", "RLock"):
                                out[f"{ci.name}.{tg.attr}"] = d.split(".")[-1]
        return out

    def flow(self, fi: FuncInfo) -> FunctionFlow:
        return self.flows.get(fi, lifted=fi.name.startswith("_") and not fi.name.startswith("__"))

    def held(self, fi: FuncInfo, node: ast.AST) -> tuple:
        try:
            return self.flow(fi).state_at(node).locks
        except AnalysisError:
            return ()

    def entry_locks(self, wiring=None) -> dict:
        """fi.qual -> {lock: witness} : locks that MAY be held when the function is entered, over every in-src call path
        (union over call sites of: locks held at the site + locks that may be held on entry of the caller)."""
        if getattr(self, "_entry", None) is not None:
            return self._entry
        sites: dict = {}
        for g in self.prog.iter_funcs():
            for c in self.prog.calls_in(g):
                tg = self._callees(g, c, wiring)
                if not tg:
                    continue
                held = self.held(g, c)
                for t in tg:
                    sites.setdefault(t.qual, []).append((g, c, held))
        entry: dict = {}
        changed = True
        rounds = 0
        while changed and rounds < 50:
            changed = False
            rounds += 1
            for q, lst in sites.items():
                cur = entry.setdefault(q, {})
                for g, c, held in lst:
                    for lk in held:
                        if lk not in cur:
                            cur[lk] = f"{g.short()} (line {c.lineno}) calls it while holding {lk}"
                            changed = True
                    for lk, w in entry.get(g.qual, {}).items():
                        if lk not in cur:
                            cur[lk] = f"via {g.short()} <- {w}"
                            changed = True
        self._entry = entry
        return entry

    def enclosing_with(self, fi: FuncInfo, node: ast.AST, lock: str) -> Optional[ast.AST]:
        fl = self.flow(fi)
        cur = node
        while id(cur) in fl.parent:
            cur = fl.parent[id(cur)]
            if isinstance(cur, (ast.With, ast.AsyncWith)):
                for it in cur.items:
                    if fl._lock_key_through_locals(it.context_expr, fl.before[id(cur)]) == lock:
                        return cur
        return None

    # ------------------------------------------------------------------ field accesses
    def accesses(self, cls_name: str, field: str, lock: str = None) -> list:
        """Every access to <obj of class cls_name>.<field> in src (self.<field> inside the class hierarchy,
        <typed expr>.<field> elsewhere)."""
        P = self.prog
        ci = P.cls(cls_name)
        family = {ci.qual} | {c.qual for c in ci.all_subclasses()}
        out = []
        for fi in P.iter_funcs():
            if fi.name == "__init__" and fi.cls is not None and fi.cls.qual in family:
                continue
            fl = None
            for n in ast.walk(fi.node):
                if not (isinstance(n, ast.Attribute) and n.attr == field):
                    continue
                base = n.value
                ok = False
                if isinstance(base, ast.Name) and base.id == "self" and fi.cls is not None and fi.cls.qual in family:
                    ok = True
                else:
                    ts = P.expr_types(fi, base)
                    ok = any(isinstance(t, str) and t in family for t in ts)
                if not ok:
                    continue
                if fl is None:
                    fl = self.flow(fi)
                if id(n) not in fl.stmt_of:
                    continue
                par = fl.parent.get(id(n))
                kind, how = "read", "load"
                if isinstance(n.ctx, (ast.Store, ast.Del)):
                    kind, how = "write", "rebind"
                elif isinstance(par, ast.Subscript) and par.value is n and isinstance(par.ctx, (ast.Store, ast.Del)):
                    kind, how = "write", "item store/del"
                elif isinstance(par, ast.Subscript) and par.value is n:
                    # nested element store  X[a][b] = v  mutates X as well
                    top = par
                    while isinstance(fl.parent.get(id(top)), ast.Subscript) and fl.parent[id(top)].value is top:
                        top = fl.parent[id(top)]
                    if isinstance(top.ctx, (ast.Store, ast.Del)):
                        kind, how = "write", "nested item store/del"
                elif isinstance(par, ast.Attribute) and par.value is n and par.attr in MUTATORS:
                    gp = fl.parent.get(id(par))
                    if isinstance(gp, ast.Call) and gp.func is par:
                        kind, how = "write", f".{par.attr}()"
                stmt = fl.stmt_of.get(id(n))
                if isinstance(stmt, ast.AugAssign) and kind == "write":
                    kind, how = "rmw", "augmented assignment"
                elif isinstance(stmt, ast.Assign) and kind == "write" and how == "rebind":
                    # self.f = g(self.f)  => read-modify-write
                    if any(isinstance(x, ast.Attribute) and x.attr == field and isinstance(x.ctx, ast.Load)
                           for x in ast.walk(stmt.value)):
                        kind, how = "rmw", "rebind from own value"
                locks = self.held(fi, n)
                wn = self.enclosing_with(fi, n, lock) if lock else None
                out.append(Access(fi, n, kind, locks, wn, how, n.lineno, stmt))
            # element stores / mutator calls through a local bound to an element of the field:
            #   rec = self.f[k]; rec["x"] = v   |   rec = self.f[k]; rec.update(...)
            if fl is None:
                continue
            for n in ast.walk(fi.node):
                root, how = None, None
                if isinstance(n, ast.Subscript) and isinstance(n.ctx, (ast.Store, ast.Del)):
                    root, how = n.value, "item store/del through a local alias of an element"
                elif isinstance(n, ast.Call) and isinstance(n.func, ast.Attribute) and n.func.attr in MUTATORS:
                    root, how = n.func.value, f".{n.func.attr}() through a local alias of an element"
                while isinstance(root, ast.Subscript):
                    root = root.value
                if not isinstance(root, ast.Name) or id(n) not in fl.stmt_of:
                    continue
                try:
                    st = fl.state_at(n)
                except AnalysisError:
                    continue
                if root.id not in st.defs:
                    continue
                x = fl.expand(root, st)
                depth = 0
                while isinstance(x, ast.Subscript) or (isinstance(x, ast.Call) and isinstance(x.func, ast.Attribute) and x.func.attr == "get"):
                    x = x.value if isinstance(x, ast.Subscript) else x.func.value
                    depth += 1
                if not (isinstance(x, ast.Attribute) and x.attr == field):
                    continue
                if depth == 0:
                    how = how.replace("of an element", "of the field")
                base = x.value
                ok = (isinstance(base, ast.Name) and base.id == "self" and fi.cls is not None and fi.cls.qual in family) or \
                    any(isinstance(t, str) and t in family for t in P.expr_types(fi, base))
                if not ok:
                    continue
                locks = self.held(fi, n)
                wn = self.enclosing_with(fi, n, lock) if lock else None
                out.append(Access(fi, n, "write", locks, wn, how, n.lineno, fl.stmt_of.get(id(n))))
        return out

    # ------------------------------------------------------------------ acquires summary and order graph
    def direct_acquires(self, fi: FuncInfo) -> list:
        fl = self.flow(fi)
        out = []
        for n in ast.walk(fi.node):
            if isinstance(n, (ast.With, ast.AsyncWith)) and id(n) in fl.before:
                for it in n.items:
                    k = fl._lock_key_through_locals(it.context_expr, fl.before[id(n)])
                    if k is not None:
                        out.append((k, n))
        return out

    def acquires(self, fi: FuncInfo, wiring=None, _stack=None) -> set:
        if fi.qual in self._acq:
            return self._acq[fi.qual]
        _stack = _stack or set()
        if fi.qual in _stack:
            return set()
        _stack.add(fi.qual)
        res = {k for k, _ in self.direct_acquires(fi)}
        for c in self.prog.calls_in(fi):
            for t in self._callees(fi, c, wiring):
                res |= self.acquires(t, wiring, _stack)
        _stack.discard(fi.qual)
        self._acq[fi.qual] = res
        return res

    def _callees(self, fi, call, wiring):
        out = []
        dyn = wiring.targets(fi, call) if wiring is not None else None
        if dyn:
            return list(dyn)
        for t in self.prog.call_targets(fi, call, count=False):
            if isinstance(t, FuncInfo):
                out.append(t)
            elif isinstance(t, ClassInfo):
                m = t.find_method("__init__")
                if m is not None:
                    out.append(m)
        return out

    def order_edges(self, classes: set, wiring=None) -> list:
        """[(held lock, acquired lock, site)] for functions of the given classes (by class name)."""
        edges = []
        for fi in self.prog.iter_funcs():
            if fi.cls is None or fi.cls.name not in classes:
                continue
            fl = self.flow(fi)
            # lexical nesting
            for k, w in self.direct_acquires(fi):
                held = fl.before[id(w)].locks
                for h in held:
                    edges.append((h, k, f"{fi.module.rel}:{w.lineno} {fi.short()} takes {k} while holding {h}"))
            # calls made while holding a lock
            for c in self.prog.calls_in(fi):
                held = self.held(fi, c)
                if not held:
                    continue
                for t in self._callees(fi, c, wiring):
                    for k in self.acquires(t, wiring):
                        for h in held:
                            edges.append((h, k, f"{fi.module.rel}:{c.lineno} {fi.short()} calls {t.short()} (acquires {k}) "
                                                f"while holding {h}"))
        return edges

    @staticmethod
    def find_cycle(edges: list) -> Optional[list]:
        g = {}
        for a, b, _ in edges:
            if a != b:
                g.setdefault(a, set()).add(b)
        color = {}

        def dfs(u, path):
            color[u] = 1
            for v in g.get(u, ()):
                if color.get(v) == 1:
                    return path + [u, v]
                if color.get(v) is None:
                    r = dfs(v, path + [u])
                    if r:
                        return r
            color[u] = 2
            return None
        for u in list(g):
            if color.get(u) is None:
                r = dfs(u, [])
                if r:
                    return r
        return None
