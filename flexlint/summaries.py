"""Whole-program summaries: wiring of dynamic call slots, may-raise (K5), lock acquisition (K6), writes (K7)."""
from __future__ import annotations

import ast
from typing import Optional

from .prog import AnalysisError, BUILTIN_EXC, ClassInfo, FuncInfo, Program, dotted, unparse

TOP = "Exception"       # unknown exception from code we do not analyse


# --------------------------------------------------------------------------------------------
# wiring table (DESIGN 2.2) - dynamic slots resolved to the methods the stack is wired with
# --------------------------------------------------------------------------------------------
class Wiring:
    """Resolves callback slots.  Frozen table, cross-checked against examples/ and registration sites."""

    FROZEN = {
        "LinkLayer.receive_callback": "geonet.router.Router.gn_data_indicate",
        "geonet.Router.indication_callback": "btp.router.Router.btp_data_indication",
    }

    def __init__(self, prog: Program):
        self.prog = prog
        self.gn_indicate = prog.func("geonet.router.Router.gn_data_indicate")
        self.btp_indicate = prog.func("btp.router.Router.btp_data_indication")
        self.port_callbacks = self._port_callbacks()
        self.notes = []
        self._cross_check_examples()

    def _port_callbacks(self) -> list:
        """Every `X.register_indication_callback_btp(port=P, callback=self.<m>)` registration in src."""
        out = []
        P = self.prog
        for fi in P.iter_funcs():
            for c in P.calls_in(fi):
                if isinstance(c.func, ast.Attribute) and c.func.attr == "register_indication_callback_btp":
                    kws = {kw.arg: kw.value for kw in c.keywords if kw.arg}
                    cb = kws.get("callback") or (c.args[1] if len(c.args) > 1 else None)
                    port = kws.get("port") or (c.args[0] if c.args else None)
                    if isinstance(cb, ast.Attribute) and isinstance(cb.value, ast.Name) and cb.value.id == "self" and fi.cls:
                        m = fi.cls.find_method(cb.attr)
                        if m is not None:
                            out.append((P.try_fold(fi.module, port), m))
        if len(out) < 3:
            raise AnalysisError(f"wiring: only {len(out)} BTP port registrations found in src (confirmed: 3)")
        return out

    def _cross_check_examples(self) -> None:
        P = self.prog
        if not P.examples:
            self.notes.append("examples/ not present: wiring table taken as frozen")
            return
        rc = ic = 0
        for m in P.examples.values():
            for n in ast.walk(m.tree):
                if isinstance(n, ast.Call):
                    for kw in n.keywords:
                        if kw.arg == "receive_callback" and isinstance(kw.value, ast.Attribute):
                            if kw.value.attr == "gn_data_indicate":
                                rc += 1
                            else:
                                raise AnalysisError(f"wiring: example {m.rel} wires receive_callback to {unparse(kw.value)}")
                    if isinstance(n.func, ast.Attribute) and n.func.attr == "register_indication_callback" and n.args:
                        a = n.args[0]
                        if isinstance(a, ast.Attribute) and a.attr == "btp_data_indication":
                            ic += 1
                        else:
                            raise AnalysisError(f"wiring: example {m.rel} registers {unparse(a)} as GN indication callback")
        if rc == 0 or ic == 0:
            raise AnalysisError("wiring: examples no longer show the link-layer / BTP wiring the table assumes")
        self.notes.append(f"wiring confirmed in examples: {rc} receive_callback=...gn_data_indicate, {ic} register_indication_callback(...btp_data_indication)")

    def targets(self, fi: FuncInfo, call: ast.Call, flow=None):
        """-> list[FuncInfo] for a wired dynamic call, 'TOP' for an application callback, None if not dynamic."""
        f = call.func
        d = dotted(f)
        if d == "self.receive_callback" and fi.cls is not None and any(c.name == "LinkLayer" for c in fi.cls.mro()):
            return [self.gn_indicate]
        if d == "self.indication_callback" and fi.cls is not None and fi.cls.qual.endswith("geonet.router.Router"):
            return [self.btp_indicate]
        if isinstance(f, ast.Name) and fi.cls is not None and fi.cls.qual.endswith("btp.router.Router"):
            # local bound from self.indication_callbacks.get(...)
            for n in ast.walk(fi.node):
                if isinstance(n, ast.Assign) and len(n.targets) == 1 and isinstance(n.targets[0], ast.Name) \
                        and n.targets[0].id == f.id and "indication_callbacks" in unparse(n.value):
                    return [m for _, m in self.port_callbacks]
        return None


# --------------------------------------------------------------------------------------------
# exception class algebra
# --------------------------------------------------------------------------------------------
class ExcAlgebra:
    def __init__(self, prog: Program):
        self.prog = prog

    def ident(self, fi: FuncInfo, node: ast.AST) -> Optional[str]:
        """Exception class id for an expression naming a class (repo qual or builtin name)."""
        r = self.prog.resolve_expr_entity(fi.module, node)
        if isinstance(r, ClassInfo):
            return r.qual
        d = dotted(node)
        if d in BUILTIN_EXC:
            return d
        if d and d.split(".")[-1] in BUILTIN_EXC:
            return d.split(".")[-1]
        if d:
            return "ext:" + self.prog._external_name(fi.module, node)
        return None

    def builtin_base(self, e: str) -> Optional[type]:
        if e in BUILTIN_EXC:
            return BUILTIN_EXC[e]
        if e in self.prog.classes:
            for b in self.prog.classes[e].external_bases():
                n = b.split(".")[-1]
                if n in BUILTIN_EXC:
                    return BUILTIN_EXC[n]
            return Exception
        if e.startswith("ext:"):
            # known externals
            if e.endswith("BadSignatureError") or e.endswith("MalformedPointError"):
                return Exception
            return Exception
        return Exception

    def is_sub(self, e: str, h: str) -> bool:
        """May an exception of class e be caught by `except h`?"""
        if e == h:
            return True
        if h in ("BaseException",):
            return True
        if e in self.prog.classes:
            if h in self.prog.classes:
                return any(c.qual == h for c in self.prog.classes[e].mro())
        if h in self.prog.classes:
            return False
        if h.startswith("ext:") or e.startswith("ext:"):
            if e.startswith("ext:") and not h.startswith("ext:"):
                hb = BUILTIN_EXC.get(h)
                return hb is not None and issubclass(Exception, hb)
            return False
        eb, hb = self.builtin_base(e), BUILTIN_EXC.get(h)
        if eb is None or hb is None:
            return False
        if e == TOP:
            return issubclass(Exception, hb)
        return issubclass(eb, hb)

    def caught_by(self, e: str, handler_types: list) -> bool:
        """handler_types: list of ids; [] (bare except) catches everything."""
        if handler_types == []:
            return True
        return any(self.is_sub(e, h) for h in handler_types)


# --------------------------------------------------------------------------------------------
# may-raise
# --------------------------------------------------------------------------------------------
SAFE_EXT_PREFIX = ("logging.", "time.", "math.", "random.", "threading.", "typing.", "copy.", "dataclasses.",
                   "collections.", "enum.", "types.", "datetime.", "platform.", "hashlib.", "os.urandom", "base64.",
                   "multiprocessing.")
SAFE_BUILTINS = {"len", "print", "str", "int", "float", "bool", "bytes", "isinstance", "min", "max", "abs", "round",
                 "list", "dict", "set", "tuple", "sorted", "range", "enumerate", "zip", "any", "all", "sum", "repr",
                 "hasattr", "getattr", "setattr", "id", "type", "super", "cast", "iter", "next", "callable", "format",
                 "frozenset", "bytearray", "reversed", "map", "filter", "divmod", "pow", "hex", "ord", "chr", "object",
                 "memoryview", "vars", "hash", "issubclass", "staticmethod", "classmethod", "property", "open"}
THROWING_EXT = ("asn1tools", "ecdsa", "tinydb", "dateutil", "socket", "json", "gps", "struct")


class MayRaise:
    def __init__(self, prog: Program, wiring: Wiring = None, model_implicit: bool = True):
        self.prog = prog
        self.alg = ExcAlgebra(prog)
        self.wiring = wiring or Wiring(prog)
        self.model_implicit = model_implicit
        self.summary: dict[str, dict] = {}     # qual -> {exc id: witness}
        self._targets_cache: dict = {}
        self._solve()

    # ------------------------------------------------------------------ call classification
    def call_effect(self, fi: FuncInfo, call: ast.Call):
        """-> (list of callee FuncInfo, dict of directly raised {exc: witness})"""
        key = id(call)
        if key in self._targets_cache:
            return self._targets_cache[key]
        P = self.prog
        where = f"{fi.module.rel}:{call.lineno}"
        callees, direct = [], {}
        dyn = self.wiring.targets(fi, call)
        if dyn is not None:
            callees = list(dyn)
            self._targets_cache[key] = (callees, direct)
            return callees, direct
        tg = P.call_targets(fi, call, count=False)
        for t in tg:
            if isinstance(t, FuncInfo):
                callees.append(t)
            elif isinstance(t, ClassInfo):
                if t.is_enum:
                    if call.args:
                        direct["ValueError"] = f"{where} {t.name}(<value>) - enum conversion of an arbitrary value"
                    continue
                for mname in ("__init__", "__post_init__"):
                    m = t.find_method(mname)
                    if m is not None:
                        callees.append(m)
            elif isinstance(t, str):
                name = t[4:] if t.startswith("ext:") else t
                base = name.split(".")[0]
                if base in SAFE_BUILTINS and "." not in name:
                    continue
                if any(name.startswith(p) for p in SAFE_EXT_PREFIX):
                    continue
                if any(x in name for x in THROWING_EXT):
                    if "socket" in name:
                        direct["OSError"] = f"{where} socket operation {name}"
                    else:
                        direct[TOP] = f"{where} external call {name}"
                    continue
                # method on a value of external/builtin type: classify through the receiver's type
                if isinstance(call.func, ast.Attribute):
                    rts = P.expr_types(fi, call.func.value)
                    txt = " ".join(str(x) for x in rts)
                    if any(x in txt for x in THROWING_EXT):
                        if "socket" in txt:
                            direct["OSError"] = f"{where} socket operation {unparse(call.func)[:50]}"
                        else:
                            direct[TOP] = f"{where} call on external object {unparse(call.func)[:50]}"
                        continue
                # other externals / builtin container methods: no exception modelled
        if not tg:
            # unresolved: a callable value (application callback, stored function) => TOP
            f = call.func
            d = dotted(f) or unparse(f)
            if isinstance(f, ast.Name) or "callback" in d or "cb" == d:
                direct[TOP] = f"{where} call of callable value `{d[:40]}` (application callback)"
            elif isinstance(f, ast.Subscript):
                direct[TOP] = f"{where} call through table `{unparse(f)[:40]}`"
        self._targets_cache[key] = (callees, direct)
        return callees, direct

    # ------------------------------------------------------------------ intra-procedural walk
    def _raised_in(self, fi: FuncInfo) -> dict:
        """{exc: witness} propagating out of fi given current callee summaries."""
        out: dict = {}
        alg = self.alg

        def add(dst, exc, wit):
            if exc not in dst:
                dst[exc] = wit

        def expr_sources(e, acc):
            if e is None:
                return
            for n in ast.walk(e):
                if isinstance(n, (ast.Lambda,)):
                    continue
                if isinstance(n, ast.Call):
                    callees, direct = self.call_effect(fi, n)
                    for k, w in direct.items():
                        add(acc, k, w)
                    for c in callees:
                        for k, w in self.summary.get(c.qual, {}).items():
                            add(acc, k, f"{fi.module.rel}:{n.lineno} -> {c.short()}: {w}" if len(w) < 400 else w)
                elif self.model_implicit and isinstance(n, ast.Subscript) and isinstance(n.ctx, ast.Load) \
                        and isinstance(n.slice, ast.Constant) and isinstance(n.slice.value, str):
                    add(acc, "KeyError", f"{fi.module.rel}:{n.lineno} subscript [{n.slice.value!r}] on a decoded/received mapping")
                elif self.model_implicit and isinstance(n, ast.BinOp) and isinstance(n.op, (ast.Div, ast.FloorDiv, ast.Mod)):
                    if self.prog.try_fold(fi.module, n.right) is None and not isinstance(n.left, ast.Constant):
                        if not self._divisor_guarded(fi, n):
                            add(acc, "ZeroDivisionError", f"{fi.module.rel}:{n.lineno} division by `{unparse(n.right)[:40]}` with no non-zero guard")

        def block(stmts, handled_stack, acc):
            for st in stmts:
                stmt(st, handled_stack, acc)

        def stmt(st, acc_ctx, acc):
            # acc collects exceptions escaping the *current* try level; filtering happens at Try
            if isinstance(st, (ast.FunctionDef, ast.AsyncFunctionDef, ast.ClassDef)):
                return
            if isinstance(st, ast.Raise):
                if st.exc is None:
                    for k, w in acc_ctx.get("reraise", {}).items():
                        add(acc, k, w)
                    return
                target = st.exc.func if isinstance(st.exc, ast.Call) else st.exc
                if isinstance(st.exc, ast.Call):
                    expr_sources(ast.Tuple(elts=list(st.exc.args) + [k.value for k in st.exc.keywords], ctx=ast.Load()), acc)
                if isinstance(target, ast.Name) and target.id == acc_ctx.get("handler_var"):
                    for k, w in acc_ctx.get("reraise", {}).items():
                        add(acc, k, w)
                    return
                ident = alg.ident(fi, target)
                r = self.prog.resolve_expr_entity(fi.module, target)
                is_exc = False
                if isinstance(r, ClassInfo):
                    is_exc = any(b.split(".")[-1] in BUILTIN_EXC for b in r.external_bases())
                elif ident in BUILTIN_EXC:
                    is_exc = True
                if ident and is_exc:
                    add(acc, ident, f"{fi.module.rel}:{st.lineno} raise {unparse(target)}")
                elif isinstance(target, ast.Attribute) and not isinstance(st.exc, ast.Call):
                    add(acc, "TypeError", f"{fi.module.rel}:{st.lineno} `raise {unparse(st.exc)[:40]}` raises a non-exception value")
                else:
                    add(acc, TOP, f"{fi.module.rel}:{st.lineno} raise {unparse(st.exc)[:40]}")
                return
            if isinstance(st, ast.Assert):
                expr_sources(st.test, acc)
                add(acc, "AssertionError", f"{fi.module.rel}:{st.lineno} assert {unparse(st.test)[:40]}")
                return
            if isinstance(st, ast.Try):
                inner: dict = {}
                block(st.body, acc_ctx, inner)
                # else-clause exceptions are not covered by the handlers
                els: dict = {}
                block(st.orelse, acc_ctx, els)
                remaining = dict(inner)
                for h in st.handlers:
                    if h.type is None:
                        types = []
                    elif isinstance(h.type, ast.Tuple):
                        types = [alg.ident(fi, e) or TOP for e in h.type.elts]
                    else:
                        types = [alg.ident(fi, h.type) or TOP]
                    caught = {k: w for k, w in remaining.items() if alg.caught_by(k, types)}
                    for k in caught:
                        remaining.pop(k, None)
                    hctx = dict(acc_ctx)
                    hctx["reraise"] = caught
                    hctx["handler_var"] = h.name
                    block(h.body, hctx, acc)
                for k, w in remaining.items():
                    add(acc, k, w)
                for k, w in els.items():
                    add(acc, k, w)
                block(st.finalbody, acc_ctx, acc)
                return
            # generic statements: expressions then nested blocks
            for fld in ("value", "test", "iter", "exc", "msg"):
                v = getattr(st, fld, None)
                if isinstance(v, ast.AST):
                    expr_sources(v, acc)
            if isinstance(st, (ast.Assign, ast.AugAssign, ast.AnnAssign, ast.Delete)):
                tg = st.targets if hasattr(st, "targets") else [st.target]
                for t in tg:
                    if isinstance(t, ast.Subscript):
                        expr_sources(t.value, acc)
                        expr_sources(t.slice, acc)
                        if isinstance(st, ast.Delete) and self.model_implicit and not isinstance(t.slice, ast.Slice):
                            pass
            if isinstance(st, (ast.With, ast.AsyncWith)):
                for it in st.items:
                    expr_sources(it.context_expr, acc)
            for fld in ("body", "orelse", "finalbody"):
                v = getattr(st, fld, None)
                if isinstance(v, list) and v and isinstance(v[0], ast.stmt):
                    block(v, acc_ctx, acc)

        block(fi.node.body, {}, out)
        return out

    def _divisor_guarded(self, fi: FuncInfo, n: ast.BinOp) -> bool:
        """True when a dominating guard makes the divisor non-zero (x > 0, x != 0, x truthy) - looked up syntactically."""
        div = unparse(n.right)
        for a in ast.walk(fi.node):
            if isinstance(a, (ast.If, ast.While, ast.IfExp, ast.Assert)):
                t = unparse(a.test)
                if div in t and any(op in t for op in (">", "!=", "==", "<")) or t == div or t == f"not {div}":
                    return True
        # divisor is a sum/abs/constant-offset expression that cannot be zero is not modelled
        return False

    # ------------------------------------------------------------------ fixpoint
    def _solve(self) -> None:
        funcs = list(self.prog.iter_funcs())
        for f in funcs:
            self.summary[f.qual] = {}
        for it in range(40):
            changed = False
            for f in funcs:
                new = self._raised_in(f)
                old = self.summary[f.qual]
                if set(new) != set(old):
                    # keep earliest (shortest) witnesses
                    merged = dict(old)
                    for k, w in new.items():
                        merged.setdefault(k, w)
                    for k in list(merged):
                        if k not in new:
                            del merged[k]
                    self.summary[f.qual] = merged
                    changed = True
            if not changed:
                self.iterations = it + 1
                return
        raise AnalysisError("may-raise fixpoint did not converge in 40 rounds")

    def of(self, fi: FuncInfo) -> dict:
        return self.summary.get(fi.qual, {})


# --------------------------------------------------------------------------------------------
# K7: transitive write effects on a tracked set of (class, field) locations
# --------------------------------------------------------------------------------------------
class Writes:
    def __init__(self, ctx, tracked: list):
        """tracked: [(class qual suffix, field)]"""
        from .locks import LockAnalysis
        self.ctx = ctx
        self.prog = ctx.prog
        self.la = LockAnalysis(ctx)
        self.direct: dict = {}
        for cls, fld in tracked:
            for a in self.la.accesses(cls, fld):
                if a.kind != "read":
                    self.direct.setdefault(a.fi.qual, set()).add(f"{cls.split('.')[-1]}.{fld}")
        self._memo: dict = {}

    def of(self, fi: FuncInfo, _stack=None) -> set:
        if fi.qual in self._memo:
            return self._memo[fi.qual]
        _stack = _stack or set()
        if fi.qual in _stack:
            return set()
        _stack.add(fi.qual)
        out = set(self.direct.get(fi.qual, ()))
        for c in self.prog.calls_in(fi):
            for t in self.prog.call_targets(fi, c, count=False):
                if isinstance(t, FuncInfo):
                    out |= self.of(t, _stack)
                elif isinstance(t, ClassInfo):
                    m = t.find_method("__init__")
                    if m is not None:
                        out |= self.of(m, _stack)
        _stack.discard(fi.qual)
        self._memo[fi.qual] = out
        return out


def returns_only_none(prog: Program, fi: FuncInfo, flows=None, _stack=None) -> bool:
    """Every value fi can return is None (and the function is not a generator).

    Syntactic without `flows`; with `flows` a returned local is followed through all its reaching definitions and a
    returned call through all its in-src targets (transitively), so `x = super().f(); return x` is None-valued when the
    base method is."""
    _stack = _stack or set()
    if fi.qual in _stack:
        return True          # a cycle adds no value of its own
    _stack = _stack | {fi.qual}
    for n in ast.walk(fi.node):
        if isinstance(n, (ast.Yield, ast.YieldFrom)):
            return False
    fl = flows.get(fi) if flows is not None else None

    def none_valued(e, st) -> bool:
        if isinstance(e, ast.Constant):
            return e.value is None
        if flows is None:
            return False
        if isinstance(e, ast.Call):
            tg = [t for t in prog.call_targets(fi, e, count=False) if isinstance(t, FuncInfo)]
            if not tg:
                return False
            return all(returns_only_none(prog, t, flows, _stack) for t in tg)
        if isinstance(e, ast.IfExp):
            return none_valued(e.body, st) and none_valued(e.orelse, st)
        return False

    for n in ast.walk(fi.node):
        if isinstance(n, ast.Return) and n.value is not None:
            if isinstance(n.value, ast.Constant) and n.value.value is None:
                continue
            if fl is None:
                return False
            try:
                st = fl.state_at(n)
                alts = fl.alternatives(n.value, st)
            except Exception:
                return False
            for a in alts:
                if isinstance(a, ast.Name):
                    return False                     # parameter / opaque definition
                if not none_valued(a, st):
                    return False
    return True
