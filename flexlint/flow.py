"""Syntax-directed forward must-analysis over the structured statements of one function.

Computed per function (FunctionFlow):
  * before[stmt]   : State holding just before the statement executes
        - facts  : conditions that hold on EVERY path reaching the statement (guards) and calls
                   that have certainly been made (must-call), killed when something they mention
                   is re-assigned
        - locks  : locks certainly held (``with <lock>:`` regions)
        - defs   : reaching definitions of locals / stored attribute chains (may, union at joins)
  * exits          : (kind, stmt, State) for every return / raise / fall-off-the-end
  * expansion      : a local used in a condition is replaced by its unique reaching definition
                     (valid only while nothing it mentions has been re-assigned), so
                     ``n = h.rhl - 1; if n > 0`` yields the fact ``h.rhl - 1 > 0``.

The statement kinds understood are exactly those present in the repository (DESIGN 2.1); anything
else inside an analysed function raises AnalysisError.
"""
from __future__ import annotations

import ast
import copy
from dataclasses import dataclass, field
from typing import Optional

from .prog import AnalysisError, ClassInfo, FuncInfo, Program, dotted, unparse


# --------------------------------------------------------------------------------------------
# facts
# --------------------------------------------------------------------------------------------
class Fact:
    __slots__ = ("kind", "key", "pol", "node", "roots", "xnode", "xkey", "targets", "line")

    def __init__(self, kind, node, pol=True, xnode=None, targets=(), line=0):
        self.kind = kind            # 'cond' | 'call'
        self.node = node
        self.pol = pol
        self.key = unparse(node)
        self.xnode = xnode if xnode is not None else node
        self.xkey = unparse(self.xnode)
        self.roots = roots_of(self.xnode)
        self.targets = tuple(targets)   # resolved callee quals for call facts
        self.line = line

    def ident(self):
        return (self.kind, self.xkey, self.pol)

    def __hash__(self):
        return hash(self.ident())

    def __eq__(self, o):
        return isinstance(o, Fact) and self.ident() == o.ident()

    def __repr__(self):
        return f"{'' if self.pol else 'not '}{self.xkey}" if self.kind == "cond" else f"called {self.xkey}"


def roots_of(node: ast.AST) -> frozenset:
    """All names and dotted attribute chains (every prefix) mentioned in an expression."""
    out = set()
    for n in ast.walk(node):
        if isinstance(n, ast.Name):
            out.add(n.id)
        elif isinstance(n, ast.Attribute):
            d = dotted(n)
            if d:
                out.add(d)
    return frozenset(out)


def _swap(op):
    return {ast.Lt: ast.Gt, ast.LtE: ast.GtE, ast.Gt: ast.Lt, ast.GtE: ast.LtE}[type(op)]()


def cond_atoms(test: ast.AST, pol: bool) -> list:
    """Normalised (node, polarity) atoms that certainly hold when `test` evaluates to `pol`.

    Order comparisons are canonicalised to `X > Y` / `X >= Y` with positive polarity; `!=`, `is not`,
    `not in` become negative `==`, `is`, `in`.
    """
    if isinstance(test, ast.UnaryOp) and isinstance(test.op, ast.Not):
        return cond_atoms(test.operand, not pol)
    if isinstance(test, ast.BoolOp):
        if isinstance(test.op, ast.And) and pol:
            out = []
            for v in test.values:
                out += cond_atoms(v, True)
            return out
        if isinstance(test.op, ast.Or) and not pol:
            out = []
            for v in test.values:
                out += cond_atoms(v, False)
            return out
        return [(test, pol)]
    if isinstance(test, ast.Compare):
        if len(test.ops) > 1:
            if pol:
                out = []
                left = test.left
                for op, right in zip(test.ops, test.comparators):
                    out += cond_atoms(ast.Compare(left=left, ops=[op], comparators=[right]), True)
                    left = right
                return out
            return [(test, pol)]
        op, a, b = test.ops[0], test.left, test.comparators[0]
        mk = lambda o, x, y: ast.Compare(left=x, ops=[o], comparators=[y])
        if isinstance(op, ast.NotEq):
            return [(mk(ast.Eq(), a, b), not pol)]
        if isinstance(op, ast.IsNot):
            return [(mk(ast.Is(), a, b), not pol)]
        if isinstance(op, ast.NotIn):
            return [(mk(ast.In(), a, b), not pol)]
        if isinstance(op, ast.Gt):
            return [(mk(ast.Gt(), a, b), True)] if pol else [(mk(ast.GtE(), b, a), True)]
        if isinstance(op, ast.GtE):
            return [(mk(ast.GtE(), a, b), True)] if pol else [(mk(ast.Gt(), b, a), True)]
        if isinstance(op, ast.Lt):
            return [(mk(ast.Gt(), b, a), True)] if pol else [(mk(ast.GtE(), a, b), True)]
        if isinstance(op, ast.LtE):
            return [(mk(ast.GtE(), b, a), True)] if pol else [(mk(ast.Gt(), a, b), True)]
        return [(test, pol)]
    return [(test, pol)]


# --------------------------------------------------------------------------------------------
# state
# --------------------------------------------------------------------------------------------
@dataclass
class DefInfo:
    did: int
    name: str
    stmt: ast.AST
    value: Optional[ast.AST]       # the assigned expression (None = opaque)
    kind: str                      # assign | param | for | with | except | aug | unpack | import | opaque
    xvalue: Optional[ast.AST] = None   # value with locals expanded at definition time
    xdeps: dict = field(default_factory=dict)   # root -> frozenset(defids) at definition time
    extra: object = None           # for: iter expr; unpack: (value, index)


class State:
    __slots__ = ("facts", "locks", "defs")

    def __init__(self, facts=frozenset(), locks=(), defs=None):
        self.facts = facts
        self.locks = locks
        self.defs = defs or {}

    def copy(self):
        return State(self.facts, self.locks, dict(self.defs))

    def with_fact(self, *fs):
        s = self.copy()
        s.facts = self.facts | frozenset(fs)
        return s


def join(states: list) -> Optional[State]:
    states = [s for s in states if s is not None]
    if not states:
        return None
    facts = states[0].facts
    for s in states[1:]:
        facts = facts & s.facts
    locks = tuple(l for l in states[0].locks if all(l in s.locks for s in states[1:]))
    defs: dict = {}
    for s in states:
        for k, v in s.defs.items():
            defs[k] = defs.get(k, frozenset()) | v
    # a LOCAL defined on only some paths keeps its partial def set (reading it on the other path is a NameError);
    # an attribute chain stored on only some paths still has its entry value on the others: not a known definition
    for k in [k for k in defs if "." in k]:
        if any(k not in s.defs for s in states):
            del defs[k]
    return State(facts, locks, defs)


# --------------------------------------------------------------------------------------------
# function flow
# --------------------------------------------------------------------------------------------
class FunctionFlow:
    def __init__(self, prog: Program, fi: FuncInfo, entry_facts=frozenset(), entry_locks=()):
        self.prog = prog
        self.fi = fi
        self.before: dict[int, State] = {}
        self.after: dict[int, State] = {}
        self.exits: list = []
        self.defs: dict[int, DefInfo] = {}
        self.stmt_of: dict[int, ast.stmt] = {}
        self.parent: dict[int, ast.AST] = {}
        self.handler_of: dict[int, list] = {}   # stmt id -> enclosing (Try, in_body) chain
        self._did = 0
        self._loops: list = []
        self._try_stack: list = []
        st = State(frozenset(entry_facts), tuple(entry_locks), {})
        a = fi.node.args
        for arg in a.posonlyargs + a.args + a.kwonlyargs + ([a.vararg] if a.vararg else []) + ([a.kwarg] if a.kwarg else []):
            d = self._newdef(arg.arg, fi.node, None, "param")
            st.defs[arg.arg] = frozenset([d.did])
        self._index(fi.node)
        end = self._block(fi.node.body, st)
        if end is not None:
            self.exits.append(("fall", None, end))

    # ------------------------------------------------------------ indexing
    def _index(self, root):
        def rec(node, stmt):
            for c in ast.iter_child_nodes(node):
                self.parent[id(c)] = node
                s = c if isinstance(c, ast.stmt) else stmt
                if isinstance(c, (ast.FunctionDef, ast.AsyncFunctionDef, ast.ClassDef)) and c is not root:
                    self.stmt_of[id(c)] = s
                    continue
                self.stmt_of[id(c)] = s
                rec(c, s)
        rec(root, None)

    def _newdef(self, name, stmt, value, kind, extra=None) -> DefInfo:
        self._did += 1
        d = DefInfo(self._did, name, stmt, value, kind, extra=extra)
        self.defs[d.did] = d
        return d

    # ------------------------------------------------------------ expansion (SSA-style versions)
    def token(self, name: str, st: State) -> str:
        """Version token of a local in a state: the bare name for parameters, `x@<def>` for a unique
        definition, `x@p<d1>_<d2>` for a merge of several definitions."""
        ds = st.defs.get(name)
        if not ds:
            return name
        if len(ds) == 1:
            d = self.defs[next(iter(ds))]
            return name if d.kind == "param" else f"{name}@{d.did}"
        return f"{name}@p" + "_".join(str(x) for x in sorted(ds))

    def expand(self, expr: ast.AST, st: State, depth: int = 8) -> ast.AST:
        """Replace every local by its unique, still-valid definition, else by its version token.

        The result only mentions immutable versions of locals, so a later re-binding of a name never
        invalidates it; attribute chains stay as written (killed on stores)."""
        flow = self

        class T(ast.NodeTransformer):
            def visit_Name(self, n):
                if isinstance(n.ctx, ast.Load) and n.id in st.defs:
                    r = flow._unique_value(n.id, st)
                    if r is not None:
                        return copy.deepcopy(r)
                    return ast.Name(id=flow.token(n.id, st), ctx=ast.Load())
                return n

            def visit_Attribute(self, n):
                d = dotted(n)
                if d and isinstance(n.ctx, ast.Load) and d in st.defs:
                    r = flow._unique_value(d, st)
                    if r is not None:
                        return copy.deepcopy(r)
                return self.generic_visit(n)

            def visit_Lambda(self, n):
                return n

        return T().visit(copy.deepcopy(expr))

    def _unique_value(self, name: str, st: State) -> Optional[ast.AST]:
        ds = st.defs.get(name)
        if not ds or len(ds) != 1:
            return None
        d = self.defs[next(iter(ds))]
        if d.xvalue is None:
            return None
        for root, dids in d.xdeps.items():
            if st.defs.get(root, frozenset()) != dids:
                return None
        return d.xvalue

    _PHI = __import__("re").compile(r"^(.+)@p([0-9_]+)$")

    def alternatives(self, expr: ast.AST, st: State, limit: int = 48, depth: int = 6) -> list:
        """All expansions of `expr` through every reaching definition of branch-merged locals."""
        outs = [self.expand(expr, st)]
        for _ in range(depth):
            new, changed = [], False
            for o in outs:
                phi = None
                for n in ast.walk(o):
                    if isinstance(n, ast.Name):
                        m = self._PHI.match(n.id)
                        if m:
                            phi = (n.id, m.group(1), [int(x) for x in m.group(2).split("_")])
                            break
                if phi is None:
                    new.append(o)
                    continue
                changed = True
                tok, nm, dids = phi
                for did in dids:
                    d = self.defs[did]
                    v = d.xvalue if d.xvalue is not None else ast.Name(
                        id=(nm if d.kind == "param" else f"{nm}@{did}"), ctx=ast.Load())

                    class S(ast.NodeTransformer):
                        def visit_Name(self, n):
                            return copy.deepcopy(v) if n.id == tok else n
                    new.append(S().visit(copy.deepcopy(o)))
                    if len(new) >= limit:
                        break
                if len(new) >= limit:
                    break
            outs = new
            if not changed:
                break
        seen, res = set(), []
        for o in outs:
            u = unparse(o)
            if u not in seen:
                seen.add(u)
                res.append(o)
        return res

    def reaching(self, name: str, st: State) -> list:
        return [self.defs[i] for i in sorted(st.defs.get(name, ()))]

    # ------------------------------------------------------------ state transformers
    def _kill(self, st: State, name: str, texts: tuple = ()) -> State:
        """Kill facts about a stored attribute chain / mutated container.  Plain locals are versioned and need
        no kill.  `texts`: additional renderings (expanded / versioned) of the stored expression."""
        if "." not in name and not texts:
            return st
        keys = {name} | set(texts)
        keep, changed = [], False
        for f in st.facts:
            hit = any(k in f.xkey or k in f.key for k in keys)
            if hit:
                changed = True
                if f.kind == "call" and isinstance(f.node, ast.Call):
                    g = Fact("call", ast.Call(func=f.node.func, args=[], keywords=[]), True,
                             ast.Call(func=f.xnode.func, args=[], keywords=[]) if isinstance(f.xnode, ast.Call) else None,
                             f.targets, f.line)
                    if not any(k in g.xkey for k in keys):
                        keep.append(g)
            else:
                keep.append(f)
        if changed:
            st = State(frozenset(keep), st.locks, st.defs)
        return st

    def _texts(self, expr: ast.AST, st: State) -> tuple:
        e = copy.deepcopy(expr)
        for n in ast.walk(e):
            if hasattr(n, "ctx"):
                n.ctx = ast.Load()
        out = {unparse(e), unparse(self.expand(e, st))}
        # head-versioned rendering (entry@5.ls_pending)
        class H(ast.NodeTransformer):
            def __init__(s2, flow):
                s2.flow = flow
            def visit_Name(s2, n):
                return ast.Name(id=s2.flow.token(n.id, st), ctx=ast.Load()) if n.id in st.defs else n
        out.add(unparse(H(self).visit(copy.deepcopy(e))))
        return tuple(out)

    def _assign_target(self, st: State, tgt: ast.AST, value: Optional[ast.AST], stmt, kind="assign", extra=None) -> State:
        if isinstance(tgt, ast.Name):
            name = tgt.id
        elif isinstance(tgt, ast.Attribute) and dotted(tgt):
            name = dotted(tgt)
        elif isinstance(tgt, (ast.Tuple, ast.List)):
            for i, e in enumerate(tgt.elts):
                v = None
                if isinstance(value, (ast.Tuple, ast.List)) and len(value.elts) == len(tgt.elts):
                    v = value.elts[i]
                    st = self._assign_target(st, e, v, stmt, kind)
                else:
                    st = self._assign_target(st, e, None, stmt, "unpack", extra=(value, i))
            return st
        elif isinstance(tgt, ast.Subscript):
            # container element store: kills facts about the container expression
            d = dotted(tgt.value)
            if d:
                st = self._kill(st, d, self._texts(tgt.value, st))
                # must-fact: the item was stored (synthetic call `__setitem__(container, key)`)
                syn = ast.Call(func=ast.Name(id="__setitem__", ctx=ast.Load()),
                               args=[copy.deepcopy(tgt.value), copy.deepcopy(tgt.slice)], keywords=[])
                for n_ in ast.walk(syn):
                    if hasattr(n_, "ctx"):
                        n_.ctx = ast.Load()
                st = st.with_fact(Fact("call", syn, True, self.expand(syn, st), ("__setitem__",), getattr(stmt, "lineno", 0)))
                dd = self._newdef(d + "[]", stmt, value, "substore", extra=tgt)
                st = st.copy()
                st.defs[d + "[]"] = st.defs.get(d + "[]", frozenset()) | frozenset([dd.did])
            return st
        elif isinstance(tgt, ast.Starred):
            return self._assign_target(st, tgt.value, None, stmt, "opaque")
        else:
            return st
        d = self._newdef(name, stmt, value, kind, extra)
        if kind == "unpack" and isinstance(extra, tuple) and extra[0] is not None:
            value = ast.Subscript(value=extra[0], slice=ast.Constant(extra[1]), ctx=ast.Load())
            ast.copy_location(value, extra[0])
            ast.fix_missing_locations(value)
            d.value = value
            kind = d.kind = "assign"
        if value is not None and kind in ("assign", "aug"):
            xv = self.expand(value, st)
            d.xvalue = xv
            d.xdeps = {r: st.defs.get(r, frozenset()) for r in roots_of(xv) if "." in r}
        if "." in name:
            st = self._kill(st, name, self._texts(tgt, st))
        st = st.copy()
        st.defs[name] = frozenset([d.did])
        # storing to a.b invalidates recorded defs of deeper chains a.b.c
        pref = name + "."
        for k in [k for k in st.defs if k.startswith(pref)]:
            del st.defs[k]
        return st

    def _inline_predicate(self, call: ast.Call, depth: int = 2):
        """Body of a repository predicate `def f(...): return <expr>` with parameters replaced by the (expanded)
        arguments; None when the callee is not of that shape."""
        if depth <= 0 or not isinstance(call, ast.Call):
            return None
        tg = [t for t in self.prog.call_targets(self.fi, call, count=False, cha=False) if isinstance(t, FuncInfo)]
        if len(tg) != 1:
            return None
        callee = tg[0]
        body = [b for b in callee.node.body if not (isinstance(b, ast.Expr) and isinstance(b.value, ast.Constant))]
        locs = {}
        for b in body[:-1]:
            if isinstance(b, ast.Assign) and len(b.targets) == 1 and isinstance(b.targets[0], ast.Name):
                locs[b.targets[0].id] = b.value
            else:
                return None
        if not body or not isinstance(body[-1], ast.Return) or body[-1].value is None:
            return None
        params = callee.params
        off = 1 if callee.kind in ("method", "classmethod") and params else 0
        amap = {}
        for i, a in enumerate(call.args):
            if i + off < len(params):
                amap[params[i + off]] = a
        for kw in call.keywords:
            if kw.arg:
                amap[kw.arg] = kw.value
        if off and callee.kind == "method" and isinstance(call.func, ast.Attribute):
            amap[params[0]] = call.func.value
        if callee.kind == "classmethod":
            amap.pop(params[0], None)

        class S(ast.NodeTransformer):
            def visit_Name(s2, n):
                if n.id in locs:
                    return s2.visit(copy.deepcopy(locs[n.id]))
                if n.id in amap:
                    return copy.deepcopy(amap[n.id])
                return n
        unbound = [p_ for p_ in params[off:] if p_ not in amap]
        if unbound:
            return None
        return S().visit(copy.deepcopy(body[-1].value))

    def _mkfacts(self, test: ast.AST, pol: bool, st: State, line: int, _depth: int = 2) -> list:
        out = []
        for node, p in cond_atoms(test, pol):
            xn = self.expand(node, st)
            out.append(Fact("cond", node, p, xn, (), line))
            if isinstance(xn, ast.Call) and _depth > 0:
                inl = self._inline_predicate(xn, _depth)
                if inl is not None:
                    for n2, p2 in cond_atoms(inl, p):
                        out.append(Fact("cond", n2, p2, n2, (), line))
                        if isinstance(n2, ast.Call) and _depth > 1:
                            inl2 = self._inline_predicate(n2, _depth - 1)
                            if inl2 is not None:
                                for n3, p3 in cond_atoms(inl2, p2):
                                    out.append(Fact("cond", n3, p3, n3, (), line))
            # expanded atoms may normalise further (e.g. x = a is None; if x)
            if unparse(xn) != unparse(node):
                for n2, p2 in cond_atoms(xn, p):
                    if unparse(n2) != unparse(xn) or p2 != p:
                        out.append(Fact("cond", n2, p2, n2, (), line))
        return out

    def certain_calls(self, expr: ast.AST) -> list:
        """Calls certainly evaluated when `expr` is evaluated (skips short-circuit right operands etc.)."""
        out = []

        def rec(n):
            if isinstance(n, (ast.Lambda, ast.GeneratorExp, ast.ListComp, ast.SetComp, ast.DictComp)):
                if not isinstance(n, ast.Lambda):
                    rec(n.generators[0].iter)
                return
            if isinstance(n, ast.BoolOp):
                rec(n.values[0])
                return
            if isinstance(n, ast.IfExp):
                rec(n.test)
                return
            for c in ast.iter_child_nodes(n):
                rec(c)
            if isinstance(n, ast.Call):
                out.append(n)
        if expr is not None:
            rec(expr)
        return out

    def _add_calls(self, st: State, exprs: list, line: int) -> State:
        new = []
        for e in exprs:
            for c in self.certain_calls(e):
                tg = []
                for t in self.prog.call_targets(self.fi, c, count=False):
                    tg.append(t.qual if not isinstance(t, str) else t)
                new.append(Fact("call", c, True, self.expand(c, st), tg, line))
        if new:
            st = st.with_fact(*new)
        return st

    # ------------------------------------------------------------ structural helpers
    @staticmethod
    def assigned_names(stmts: list) -> set:
        out = set()
        for s in stmts:
            for n in ast.walk(s):
                tgts = []
                if isinstance(n, ast.Assign):
                    tgts = n.targets
                elif isinstance(n, (ast.AnnAssign, ast.AugAssign)):
                    tgts = [n.target]
                elif isinstance(n, (ast.For, ast.comprehension)):
                    tgts = [n.target]
                elif isinstance(n, ast.With):
                    tgts = [i.optional_vars for i in n.items if i.optional_vars is not None]
                elif isinstance(n, ast.ExceptHandler) and n.name:
                    out.add(n.name)
                elif isinstance(n, ast.NamedExpr):
                    tgts = [n.target]
                elif isinstance(n, ast.Delete):
                    tgts = n.targets
                for t in tgts:
                    for e in ast.walk(t):
                        if isinstance(e, ast.Name) and isinstance(e.ctx, (ast.Store, ast.Del)):
                            out.add(e.id)
                        elif isinstance(e, ast.Attribute) and isinstance(e.ctx, (ast.Store, ast.Del)) and dotted(e):
                            out.add(dotted(e))
                        elif isinstance(e, ast.Subscript) and isinstance(e.ctx, (ast.Store, ast.Del)) and dotted(e.value):
                            out.add(dotted(e.value))
        return out

    def _havoc(self, st: State, stmts: list, stmt) -> State:
        names = self.assigned_names(stmts)
        st = st.copy()
        for n in names:
            if "." in n:
                st = self._kill(st, n)
            d = self._newdef(n, stmt, None, "opaque")
            st.defs[n] = st.defs.get(n, frozenset()) | frozenset([d.did])
        return st

    # ------------------------------------------------------------ the walk
    def _block(self, stmts: list, st: Optional[State]) -> Optional[State]:
        for s in stmts:
            if st is None:
                # unreachable code: still record an (empty) state so lookups do not fail
                self.before[id(s)] = State()
                self._stmt(s, State())
                continue
            st = self._stmt(s, st)
        return st

    def _stmt(self, s: ast.stmt, st: State) -> Optional[State]:
        self.before[id(s)] = st
        self.handler_of[id(s)] = list(self._try_stack)
        line = getattr(s, "lineno", 0)
        if isinstance(s, (ast.Expr,)):
            st = self._add_calls(st, [s.value], line)
            st = self._call_effects(st, s.value)
            # explicit <lock>.acquire() / <lock>.release() statements open / close a held-lock region
            v = s.value
            if isinstance(v, ast.Call) and isinstance(v.func, ast.Attribute) and v.func.attr in ("acquire", "release") and not v.args and not v.keywords:
                lk = self._lock_key_through_locals(v.func.value, st)
                if lk is not None:
                    if v.func.attr == "acquire":
                        st = State(st.facts, st.locks + (lk,), st.defs)
                    elif lk in st.locks:
                        locks = list(st.locks)
                        locks.reverse(); locks.remove(lk); locks.reverse()
                        st = State(st.facts, tuple(locks), st.defs)
            self.after[id(s)] = st
            return st
        if isinstance(s, ast.Assign):
            st = self._add_calls(st, [s.value], line)
            for t in s.targets:
                st = self._assign_target(st, t, s.value, s)
            self.after[id(s)] = st
            return st
        if isinstance(s, ast.AnnAssign):
            if s.value is not None:
                st = self._add_calls(st, [s.value], line)
                st = self._assign_target(st, s.target, s.value, s)
            return st
        if isinstance(s, ast.AugAssign):
            st = self._add_calls(st, [s.value], line)
            tgt_load = copy.deepcopy(s.target)
            for n in ast.walk(tgt_load):
                if hasattr(n, "ctx"):
                    n.ctx = ast.Load()
            val = ast.BinOp(left=tgt_load, op=s.op, right=s.value)
            ast.copy_location(val, s)
            st = self._assign_target(st, s.target, val, s, kind="aug")
            return st
        if isinstance(s, ast.Return):
            st = self._add_calls(st, [s.value], line)
            self.exits.append(("return", s, st))
            return None
        if isinstance(s, ast.Raise):
            st = self._add_calls(st, [s.exc], line)
            self.exits.append(("raise", s, st))
            return None
        if isinstance(s, ast.Assert):
            st = self._add_calls(st, [s.test], line)
            return st.with_fact(*self._mkfacts(s.test, True, st, line))
        if isinstance(s, ast.If):
            st0 = self._add_calls(st, [s.test], line)
            st_t = st0.with_fact(*self._mkfacts(s.test, True, st0, line))
            st_f = st0.with_fact(*self._mkfacts(s.test, False, st0, line))
            e1 = self._block(s.body, st_t)
            e2 = self._block(s.orelse, st_f) if s.orelse else st_f
            return join([e1, e2])
        if isinstance(s, (ast.For, ast.AsyncFor)):
            st0 = self._add_calls(st, [s.iter], line)
            body_in = self._havoc(st0, s.body, s)
            body_in = self._assign_target(body_in, s.target, None, s, "for", extra=s.iter)
            self._loops.append([])
            body_out = self._block(s.body, body_in)
            breaks = self._loops.pop()
            after = self._havoc(st0, s.body, s)       # 0..n iterations
            if s.orelse:
                after = self._block(s.orelse, after)
            return join([after] + breaks)
        if isinstance(s, ast.While):
            st0 = self._havoc(st, s.body, s)
            is_true = isinstance(s.test, ast.Constant) and bool(s.test.value) is True
            body_in = st0.with_fact(*self._mkfacts(s.test, True, st0, line)) if not is_true else st0
            self._loops.append([])
            self._block(s.body, body_in)
            breaks = self._loops.pop()
            if is_true:
                return join(breaks)
            after = st0.with_fact(*self._mkfacts(s.test, False, st0, line))
            if s.orelse:
                after = self._block(s.orelse, after)
            return join([after] + breaks)
        if isinstance(s, ast.Break):
            if self._loops:
                self._loops[-1].append(st)
            return None
        if isinstance(s, ast.Continue):
            return None
        if isinstance(s, (ast.With, ast.AsyncWith)):
            st1 = st
            pushed = []
            for it in s.items:
                st1 = self._add_calls(st1, [it.context_expr], line)
                lk = self._lock_key_through_locals(it.context_expr, st1)
                if lk is not None:
                    pushed.append(lk)
                if it.optional_vars is not None:
                    st1 = self._assign_target(st1, it.optional_vars, None, s, "with", extra=it.context_expr)
            st1 = State(st1.facts, st1.locks + tuple(pushed), st1.defs)
            end = self._block(s.body, st1)
            if end is None:
                return None
            locks = list(end.locks)
            for lk in pushed:
                if lk in locks:
                    locks.reverse()
                    locks.remove(lk)
                    locks.reverse()
            return State(end.facts, tuple(locks), end.defs)
        if isinstance(s, ast.Try) or type(s).__name__ == "TryStar":
            self._try_stack.append((s, "body"))
            body_end = self._block(s.body, st)
            self._try_stack.pop()
            h_in = self._havoc(st, s.body, s)
            ends = []
            if s.orelse:
                self._try_stack.append((s, "else"))
                body_end = self._block(s.orelse, body_end) if body_end is not None else None
                self._try_stack.pop()
            ends.append(body_end)
            for h in s.handlers:
                hst = h_in
                if h.name:
                    hst = self._assign_target(hst, ast.Name(id=h.name, ctx=ast.Store()), None, h, "except", extra=h.type)
                self.before[id(h)] = hst
                self._try_stack.append((s, "handler"))
                ends.append(self._block(h.body, hst))
                self._try_stack.pop()
            out = join(ends)
            if s.finalbody:
                fin_in = self._havoc(st, s.body + s.orelse + [x for h in s.handlers for x in h.body], s)
                # the finally block runs on every path; analyse it once with the weakest state
                self._try_stack.append((s, "finally"))
                fin_end = self._block(s.finalbody, fin_in)
                self._try_stack.pop()
                if fin_end is None:
                    return None
                if out is not None:
                    # facts established by the finally block also hold afterwards
                    out = State(out.facts | (fin_end.facts - fin_in.facts), out.locks, join([out, fin_end]).defs)
                    for n in self.assigned_names(s.finalbody):
                        if "." in n:
                            out = self._kill(out, n)
            return out
        if isinstance(s, ast.Delete):
            for t in s.targets:
                if isinstance(t, ast.Subscript) and dotted(t.value):
                    st = self._kill(st, dotted(t.value), self._texts(t.value, st))
                    # must-fact: the item was removed (synthetic call `__delitem__(container, key)`)
                    key = t.slice
                    syn = ast.Call(func=ast.Name(id="__delitem__", ctx=ast.Load()),
                                   args=[copy.deepcopy(t.value), copy.deepcopy(key)], keywords=[])
                    for n in ast.walk(syn):
                        if hasattr(n, "ctx"):
                            n.ctx = ast.Load()
                    st = st.with_fact(Fact("call", syn, True, self.expand(syn, st), ("__delitem__",), line))
                    d = self._newdef(dotted(t.value) + "[]", s, None, "delete", extra=t)
                    st = st.copy()
                    st.defs[dotted(t.value) + "[]"] = st.defs.get(dotted(t.value) + "[]", frozenset()) | frozenset([d.did])
                elif dotted(t):
                    st = self._kill(st, dotted(t))
            return st
        if isinstance(s, (ast.Pass, ast.Import, ast.ImportFrom, ast.Global, ast.Nonlocal)):
            return st
        if isinstance(s, (ast.FunctionDef, ast.AsyncFunctionDef, ast.ClassDef)):
            return self._assign_target(st, ast.Name(id=s.name, ctx=ast.Store()), None, s, "opaque")
        raise AnalysisError(f"unsupported statement {type(s).__name__} at {self.fi.module.rel}:{getattr(s, 'lineno', 0)}")

    MUTATORS = {"append", "add", "discard", "pop", "remove", "update", "clear", "setdefault", "insert",
                "popleft", "appendleft", "extend", "sort", "reverse"}

    def _call_effects(self, st: State, expr: ast.AST) -> State:
        """A mutator call on a container expression kills facts mentioning that container."""
        if isinstance(expr, ast.Call) and isinstance(expr.func, ast.Attribute) and expr.func.attr in self.MUTATORS:
            d = dotted(expr.func.value)
            if d:
                keys = set(self._texts(expr.func.value, st)) | {d}
                keep = frozenset(f for f in st.facts if not (f.kind == "cond" and any(k in f.xkey for k in keys)))
                st = State(keep, st.locks, st.defs)
        return st

    # ------------------------------------------------------------ locks
    def lock_key(self, expr: ast.AST) -> Optional[str]:
        d = dotted(expr)
        if d is None:
            return None
        last = d.split(".")[-1]
        ts = self.prog.expr_types(self.fi, expr)
        is_lock = any(isinstance(t, str) and ("threading.Lock" in t or "threading.RLock" in t or t.endswith(":Lock")
                                              or t.endswith(":RLock") or t.endswith(".Lock") or t.endswith(".RLock"))
                      for t in ts)
        if not is_lock and "lock" not in last.lower():
            return None
        if isinstance(expr, ast.Attribute):
            bt = [t for t in self.prog.expr_types(self.fi, expr.value) if isinstance(t, str) and t in self.prog.classes]
            if bt:
                # owner = class in the MRO that creates the lock attribute
                for t in sorted(bt):
                    for c in self.prog.classes[t].mro():
                        if last in c.attr_types:
                            return f"{c.name}.{last}"
                return f"{self.prog.classes[sorted(bt)[0]].name}.{last}"
        return d

    def _lock_key_through_locals(self, expr: ast.AST, st: State) -> Optional[str]:
        """lock_key, with a local alias (`lk = self._lock; with lk:`) resolved to the attribute it was bound from."""
        if isinstance(expr, ast.Name) and expr.id in st.defs:
            x = self.expand(expr, st)
            if not isinstance(x, ast.Name):
                k = self.lock_key(x)
                if k is not None:
                    return k
        return self.lock_key(expr)

    # ------------------------------------------------------------ queries
    def state_at(self, node: ast.AST) -> State:
        """State holding when `node` (a statement or any expression inside one) is evaluated."""
        s = node if isinstance(node, ast.stmt) else self.stmt_of.get(id(node))
        if s is None or id(s) not in self.before:
            if isinstance(node, ast.ExceptHandler) and id(node) in self.before:
                return self.before[id(node)]
            raise AnalysisError(f"no state for node at line {getattr(node, 'lineno', '?')} in {self.fi.qual}")
        st = self.before[id(s)]
        if node is s:
            return st
        # guards inside the expression: BoolOp short-circuit, IfExp, comprehension filters
        extra = []
        cur = node
        while cur is not s:
            par = self.parent.get(id(cur))
            if par is None:
                break
            if isinstance(par, ast.BoolOp):
                idx = [i for i, v in enumerate(par.values) if v is cur]
                if idx:
                    for v in par.values[: idx[0]]:
                        extra += self._mkfacts(v, isinstance(par.op, ast.And), st, getattr(par, "lineno", 0))
            elif isinstance(par, ast.IfExp):
                if cur is par.body:
                    extra += self._mkfacts(par.test, True, st, par.lineno)
                elif cur is par.orelse:
                    extra += self._mkfacts(par.test, False, st, par.lineno)
            elif isinstance(par, (ast.ListComp, ast.SetComp, ast.GeneratorExp, ast.DictComp)):
                if cur is not par.generators[0]:
                    for g in par.generators:
                        for c in g.ifs:
                            extra += self._mkfacts(c, True, st, par.lineno)
            cur = par
        # with-statement bodies and if tests are handled by the statement walk itself
        if extra:
            st = st.with_fact(*extra)
        return st

    def enclosing_handlers(self, node: ast.AST) -> list:
        s = node if isinstance(node, ast.stmt) else self.stmt_of.get(id(node))
        return self.handler_of.get(id(s), [])

    def xexpr(self, node: ast.AST) -> ast.AST:
        """`node` with locals expanded in the state where it is evaluated."""
        return self.expand(node, self.state_at(node))


# --------------------------------------------------------------------------------------------
# cache with interprocedural entry facts
# --------------------------------------------------------------------------------------------
class Flows:
    def __init__(self, prog: Program):
        self.prog = prog
        self._cache: dict = {}
        self._busy: set = set()

    def get(self, fi: FuncInfo, lifted: bool = False) -> FunctionFlow:
        key = (fi.qual, lifted)
        if key in self._cache:
            return self._cache[key]
        if not lifted or key in self._busy:
            fl = FunctionFlow(self.prog, fi)
            if not lifted:
                self._cache[key] = fl
            return fl
        self._busy.add(key)
        try:
            facts, locks = self.entry_from_callers(fi)
            fl = FunctionFlow(self.prog, fi, facts, locks)
            self._cache[key] = fl
            return fl
        finally:
            self._busy.discard(key)

    def entry_from_callers(self, fi: FuncInfo):
        """Facts / locks holding at EVERY in-source call site of fi, renamed to fi's parameters."""
        sites = self.prog.callers_of(fi)
        if not sites:
            return frozenset(), ()
        all_facts = None
        all_locks = None
        for caller, call in sites:
            if caller.qual == fi.qual:
                continue
            cf = self.get(caller, lifted=True)
            try:
                st = cf.state_at(call)
            except AnalysisError:
                return frozenset(), ()
            mapped = self._translate(cf, st, call, caller, fi)
            all_facts = mapped if all_facts is None else (all_facts & mapped)
            lk = tuple(st.locks)
            all_locks = lk if all_locks is None else tuple(l for l in all_locks if l in lk)
        return (all_facts or frozenset()), (all_locks or ())

    def _translate(self, cf: FunctionFlow, st: State, call: ast.Call, caller: FuncInfo, callee: FuncInfo) -> frozenset:
        params = callee.params
        offset = 0
        same_self = False
        if callee.kind in ("method", "property") and params:
            offset = 1
            f = call.func
            if isinstance(f, ast.Attribute) and isinstance(f.value, ast.Name) and f.value.id == "self" \
                    and caller.cls is not None and callee.cls is not None:
                same_self = True
        elif callee.kind == "classmethod" and params:
            offset = 1
        amap = {}   # unparse(arg expanded) -> param name
        for i, a in enumerate(call.args):
            if i + offset < len(params):
                amap[unparse(cf.expand(a, st))] = params[i + offset]
        for kw in call.keywords:
            if kw.arg:
                amap[unparse(cf.expand(kw.value, st))] = kw.arg
        out = set()
        PH = "__p_"

        class R(ast.NodeTransformer):
            root = None

            def generic_visit(self, n):
                if isinstance(n, ast.expr) and n is not self.root:
                    u = unparse(n)
                    if u in amap:
                        return ast.Name(id=PH + amap[u], ctx=ast.Load())
                return super().generic_visit(n)

        class U(ast.NodeTransformer):
            def visit_Name(self, n):
                if n.id.startswith(PH):
                    return ast.Name(id=n.id[len(PH):], ctx=n.ctx)
                return n

        caller_locals = set(k.split(".")[0] for k in st.defs)
        for f in st.facts:
            rr = R()
            rr.root = copy.deepcopy(f.xnode)
            xn = rr.visit(rr.root)
            ok = True
            for r in roots_of(xn):
                head = r.split(".")[0]
                if head.startswith(PH):
                    continue
                if head == "self" and same_self:
                    continue
                if "@" not in head and head not in caller_locals and (
                        self.prog.resolve_name(caller.module, head) is not None or head in caller.module.imports
                        or hasattr(__import__("builtins"), head)):
                    continue   # module-level constant / class / enum / imported name / builtin
                ok = False
                break
            if ok:
                xn = U().visit(xn)
                out.add(Fact(f.kind, xn, f.pol, xn, f.targets, f.line))
        return frozenset(out)
