"""Shared security rules (C03, C09): what Certificate.verify must have established, signature primitive discipline."""
from __future__ import annotations

import ast
import re

from ..prog import AnalysisError, FuncInfo, dotted, unparse
from ..truth import Truth
from ..match import pretty

CERT = "security.certificate.Certificate"


def norm(s: str) -> str:
    return re.sub(r"\s+", "", s.replace('"', "'"))


def has(alt: dict, needle: str, pol: bool = True) -> bool:
    n = norm(needle)
    return any(norm(k) == n and v is pol for k, v in alt.items() if isinstance(v, bool))


def has_re(alt: dict, pattern: str, pol: bool = True) -> bool:
    return any(re.fullmatch(pattern, norm(k)) and v is pol for k, v in alt.items() if isinstance(v, bool))


def cert_verify_conjuncts(ctx, rule: str):
    """Every way Certificate.verify can return True carries the full set of conjuncts."""
    P = ctx.prog
    t = Truth(P, ctx.flows)
    fi = P.func(f"{CERT}.verify")
    alts = t.true_alternatives(fi, depth=4)
    if not alts:
        raise AnalysisError("Certificate.verify has no truthy exit")
    con = fi.short()
    n_issued = n_self = 0
    for i, a in enumerate(alts):
        issued = has(a, "self.certificate_is_issued()") or has(a, "self.certificate['issuer'][0]=='sha256AndDigest'")
        selfs = has(a, "self.certificate_is_self_signed()") or has(a, "self.certificate['issuer'][0]=='self'")
        sig_issuer = "backend.verify_with_pk(SECURITY_CODER.encode_ToBeSignedCertificate(self.certificate['toBeSigned']),self.certificate['signature'],self.issuer.certificate['toBeSigned']['verifyKeyIndicator'][1])"
        sig_self = "backend.verify_with_pk(SECURITY_CODER.encode_ToBeSignedCertificate(self.certificate['toBeSigned']),self.certificate['signature'],self.certificate['toBeSigned']['verifyKeyIndicator'][1])"
        kind = "issued" if has(a, sig_issuer) or (issued and not selfs) else ("self-signed" if selfs else "other")
        disc = f"true-exit#{i}:{kind}"
        if kind == "issued":
            n_issued += 1
            ctx.ob(rule, con, f"{disc}:signature-under-issuer-key", has(a, sig_issuer),
                   "returns True only after the signature over the encoded ToBeSignedCertificate verified under the ISSUER's key",
                   fi.loc)
            ctx.ob(rule, con, f"{disc}:issuer-correspondence",
                   has(a, "self.certificate['issuer'][1]==self.issuer.as_hashedid8()"),
                   "returns True only when the certificate's issuer digest equals the issuer object's HashedId8", fi.loc)
            perm = has(a, "self.issuer.certificate_has_all_permissions()") or \
                has(a, "all((iteminself.issuer.get_list_of_allowed_persmissions()foriteminself.get_list_of_needed_permissions()))")
            ctx.ob(rule, con, f"{disc}:permission-containment", perm,
                   "returns True only when the subject's permissions are contained in the issuer's issuing permissions "
                   "(or the issuer may issue all)", fi.loc)
            ctx.ob(rule, con, f"{disc}:issuer-present", has(a, "self.issuer is None", False) or has(a, "self.issuer is not None"),
                   "issuer object present", fi.loc)
        elif kind == "self-signed":
            n_self += 1
            ctx.ob(rule, con, f"{disc}:signature-under-own-key", has(a, sig_self),
                   "self-signed: signature verified under the certificate's own verification key", fi.loc)
            ctx.ob(rule, con, f"{disc}:marked-self", has(a, "self.certificate['issuer'][0]=='self'"),
                   "self-signed branch requires issuer == ('self', ...)", fi.loc)
        else:
            ctx.ob(rule, con, disc, False,
                   "Certificate.verify can return a truthy value on a path that establishes neither an issuer-key nor an "
                   f"own-key signature check: returns `{a.get('<return>', '?')[:80]}`", fi.loc)
        if kind in ("issued", "self-signed"):
            ctx.ob(rule, con, f"{disc}:key-type-consistent",
                   has(a, "self.certificate['toBeSigned']['verifyKeyIndicator'][0]=='verificationKey'"),
                   "explicit verification key indicator required", fi.loc)
    if n_issued == 0 or n_self == 0:
        raise AnalysisError(f"Certificate.verify: true exits issued={n_issued} self-signed={n_self}; both kinds expected")
    # verify_signature: False on exceptions, result of the backend primitive otherwise
    vs = P.func(f"{CERT}.verify_signature")
    fl = ctx.flows.get(vs)
    rets = [(s, st) for k, s, st in fl.exits if k == "return"]
    for j, (s, st) in enumerate(rets):
        in_handler = any(k == "handler" for _, k in fl.enclosing_handlers(s))
        u = norm(pretty(unparse(fl.expand(s.value, st))))
        if in_handler:
            ctx.ob(rule, vs.short(), f"return#{j}:on-exception", u == "False",
                   f"verify_signature returns `{u}` from an exception handler (must be False)", f"{vs.module.rel}:{s.lineno}")
        else:
            ok = u == "backend.verify_with_pk(SECURITY_CODER.encode_ToBeSignedCertificate(to_be_signed_certificate),signature,verification_key)"
            ctx.ob(rule, vs.short(), f"return#{j}:primitive", ok or u == "False",
                   f"verify_signature returns `{u[:120]}`; must be the backend check over the encoded ToBeSignedCertificate",
                   f"{vs.module.rel}:{s.lineno}")
    return alts


def backend_primitive(ctx, rule: str):
    """PythonECDSABackend.verify_with_pk: truthy only as the result of vk.verify over the caller's data/signature/key."""
    P = ctx.prog
    fi = P.func("security.ecdsa_backend.PythonECDSABackend.verify_with_pk")
    fl = ctx.flows.get(fi)
    rets = [(s, st) for k, s, st in fl.exits if k == "return"]
    if not rets:
        raise AnalysisError("verify_with_pk has no return")
    for j, (s, st) in enumerate(rets):
        x = fl.expand(s.value, st)
        u = norm(pretty(unparse(x)))
        in_handler = any(k == "handler" for _, k in fl.enclosing_handlers(s))
        if in_handler:
            ctx.ob(rule, fi.short(), f"return#{j}:bad-signature", u == "False",
                   f"BadSignatureError handler returns `{u}` (must be False)", f"{fi.module.rel}:{s.lineno}")
            continue
        if u == "False":
            ctx.ob(rule, fi.short(), f"return#{j}", True, "returns False", f"{fi.module.rel}:{s.lineno}")
            continue
        ok = ".verify(" in u and "data=data" in u and "from_public_point(" in u and "pk[1][1]['x']" in u and "pk[1][1]['y']" in u \
            and "signature[1]['rSig'][1]" in u and "signature[1]['sSig']" in u and "hashfunc=hashlib.sha256" in u
        ctx.ob(rule, fi.short(), f"return#{j}:verify", ok,
               "truthy result must be ecdsa VerifyingKey.verify(data=<data>, signature built from the message's r/s, key built "
               f"from <pk> x/y, SHA-256); found `{u[:160]}`", f"{fi.module.rel}:{s.lineno}")
