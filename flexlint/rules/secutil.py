"""Shared security rules (C03, C09): what Certificate.verify must have established, signature primitive discipline.

Also the semantic helpers the security rule modules share: canonical atoms of truth alternatives, quantifier
recognition (`all(...)`, `not any(...)`, early-return loops), argument binding, guard/dominance of a call relative to
an exit, and the body rules of the permission helpers Certificate.verify relies on.
"""
from __future__ import annotations

import ast
import copy
import re

from ..prog import AnalysisError, ClassInfo, FuncInfo, dotted, unparse
from ..flow import cond_atoms
from ..truth import Truth
from ..match import pretty
from .. import sem

CERT = "security.certificate.Certificate"


def norm(s: str) -> str:
    return re.sub(r"\s+", "", s.replace('"', "'"))


def has(alt: dict, needle: str, pol: bool = True) -> bool:
    n = norm(needle)
    return any(norm(k) == n and v is pol for k, v in alt.items() if isinstance(v, bool))


def has_re(alt: dict, pattern: str, pol: bool = True) -> bool:
    return any(re.fullmatch(pattern, norm(k)) and v is pol for k, v in alt.items() if isinstance(v, bool))


# --------------------------------------------------------------------------------------------
# small semantic helpers
# --------------------------------------------------------------------------------------------
def parse(src: str) -> ast.AST:
    return ast.parse(src, mode="eval").body


def alt_nodes(alt: dict) -> list:
    """(node, polarity) of every fact of a truth alternative (keys are expression texts)."""
    out = []
    for k, v in alt.items():
        if not isinstance(v, bool) or k.startswith("<"):
            continue
        try:
            out.append((parse(k), v))
        except SyntaxError:
            continue
    return out


def alt_atoms(alt: dict) -> set:
    """Canonical atoms (sem) of a truth alternative."""
    out = set()
    for n, v in alt_nodes(alt):
        out.update(sem.atoms(n, v))
    return out


def holds(atoms: set, src: str, pol: bool = True) -> bool:
    return sem.holds(atoms, src, pol)


def peel(e: ast.AST) -> ast.AST:
    """Strip wrappers that keep the truth value: bool(x), `True if x else False`, `not not x`."""
    while True:
        if isinstance(e, ast.Call) and dotted(e.func) == "bool" and len(e.args) == 1 and not e.keywords:
            e = e.args[0]
            continue
        if isinstance(e, ast.IfExp) and isinstance(e.body, ast.Constant) and e.body.value is True and \
                isinstance(e.orelse, ast.Constant) and e.orelse.value is False:
            e = e.test
            continue
        if isinstance(e, ast.UnaryOp) and isinstance(e.op, ast.Not) and isinstance(e.operand, ast.UnaryOp) \
                and isinstance(e.operand.op, ast.Not):
            e = e.operand.operand
            continue
        return e


_TOK = re.compile(r"^(.+)@(\d+)$")


def keepv(node: ast.AST) -> ast.AST:
    """Copy of `node` whose version tokens (`x@7`) survive sem's version stripping (two loop variables of the same
    name stay distinct)."""
    n = copy.deepcopy(node)
    for x in ast.walk(n):
        if isinstance(x, ast.Name) and "@" in x.id:
            x.id = x.id.replace("@", "__v")
    return n


def vatoms(fl, node: ast.AST) -> set:
    """Canonical guard atoms in force at `node`, locals expanded, version tokens kept."""
    out = set()
    for f in fl.state_at(node).facts:
        if f.kind == "cond":
            out.update(sem.atoms(keepv(f.xnode), f.pol))
    return out


def for_def(fl, name: str):
    """DefInfo of a loop variable given its version token (`elem@12`), else None."""
    m = _TOK.match(name)
    if not m:
        return None
    d = fl.defs.get(int(m.group(2)))
    return d if d is not None and d.kind == "for" and d.extra is not None else None


def for_iter(fl, d) -> ast.AST:
    """The (expanded) expression a loop variable iterates over."""
    return fl.expand(d.extra, fl.state_at(d.stmt))


def expand_safe(fl, expr: ast.AST, st) -> ast.AST:
    """fl.expand, but names bound by a comprehension inside `expr` are not mistaken for locals of the function."""
    e = copy.deepcopy(expr)
    bound = set()
    for n in ast.walk(e):
        if isinstance(n, ast.comprehension):
            for t in ast.walk(n.target):
                if isinstance(t, ast.Name):
                    bound.add(t.id)
    if bound:
        for n in ast.walk(e):
            if isinstance(n, ast.Name) and n.id in bound:
                n.id = n.id + "__c"
    return fl.expand(e, st)


def unwrap_collection(e: ast.AST) -> ast.AST:
    """list(x) / tuple(x) / set(x) / frozenset(x) / sorted(x) -> x (same elements)."""
    while isinstance(e, ast.Call) and dotted(e.func) in ("list", "tuple", "set", "frozenset", "sorted") \
            and len(e.args) == 1 and not e.keywords:
        e = e.args[0]
    return e


def quantified(node: ast.AST, pol: bool = True):
    """`all(E for x in I)` / `not any(E for x in I)` and their duals.

    -> (kind, var, iter, elt, elt_pol, filters) with kind 'forall' | 'exists': the element condition is `elt` taken with
    polarity `elt_pol`; `filters` are the comprehension's `if` clauses (they weaken a forall, strengthen an exists)."""
    node = peel(node)
    while isinstance(node, ast.UnaryOp) and isinstance(node.op, ast.Not):
        node, pol = peel(node.operand), not pol
    if not (isinstance(node, ast.Call) and dotted(node.func) in ("all", "any") and len(node.args) == 1 and not node.keywords):
        return None
    g = node.args[0]
    if not isinstance(g, (ast.GeneratorExp, ast.ListComp, ast.SetComp)) or len(g.generators) != 1:
        return None
    gen = g.generators[0]
    if not isinstance(gen.target, ast.Name) or gen.is_async:
        return None
    fn = dotted(node.func)
    if fn == "all":
        kind, elt_pol = ("forall", True) if pol else ("exists", False)
    else:
        kind, elt_pol = ("exists", True) if pol else ("forall", False)
    return kind, gen.target.id, gen.iter, g.elt, elt_pol, list(gen.ifs)


def block_of(fl, stmt: ast.stmt):
    """(statement list holding `stmt`, index) or (None, -1)."""
    par = fl.parent.get(id(stmt))
    if par is None:
        par = fl.fi.node
    for fld in ("body", "orelse", "finalbody"):
        lst = getattr(par, fld, None)
        if isinstance(lst, list):
            for i, x in enumerate(lst):
                if x is stmt:
                    return lst, i
    return None, -1


def loop_forall(fl, fi, ret: ast.Return):
    """`for x in I: if T: return <falsy>` immediately followed by `return <truthy constant>` (the statement `ret`).

    -> (var token, expanded iter, T, False) meaning: forall x in I: not T; else None."""
    lst, i = block_of(fl, ret)
    if lst is None or i == 0:
        return None
    loop = lst[i - 1]
    if not isinstance(loop, ast.For) or loop.orelse or not isinstance(loop.target, ast.Name) or len(loop.body) != 1:
        return None
    br = loop.body[0]
    if not (isinstance(br, ast.If) and not br.orelse and len(br.body) == 1 and isinstance(br.body[0], ast.Return)):
        return None
    v = br.body[0].value
    c = fl.prog.try_fold(fi.module, v, default="<nc>") if v is not None else None
    if c == "<nc>" or c:
        return None
    st_body = fl.state_at(br)
    tok = fl.token(loop.target.id, st_body)
    return tok, fl.expand(loop.iter, fl.state_at(loop)), fl.expand(br.test, st_body), False


def bind_args(callee: FuncInfo, call: ast.Call) -> dict:
    """parameter name -> argument expression (receiver bound to the first parameter of a method)."""
    params = callee.params
    off = 0
    out = {}
    if callee.kind in ("method", "classmethod", "property") and params:
        off = 1
        if callee.kind == "method" and isinstance(call.func, ast.Attribute):
            out[params[0]] = call.func.value
    for i, a in enumerate(call.args):
        if isinstance(a, ast.Starred):
            break
        if i + off < len(params):
            out[params[i + off]] = a
    kwonly = [a.arg for a in callee.node.args.kwonlyargs]
    for kw in call.keywords:
        if kw.arg and (kw.arg in params or kw.arg in kwonly):
            out[kw.arg] = kw.value
    return out


def only_if_ancestors(fl, node: ast.AST, stop: ast.AST = None):
    """Statements enclosing `node` up to the function (or `stop`); None when one of them is a loop / try (the node may
    run zero or many times, or be skipped by an exception, independent of its guards)."""
    chain = []
    cur = node if isinstance(node, ast.stmt) else fl.stmt_of.get(id(node))
    while cur is not None and cur is not fl.fi.node and cur is not stop:
        chain.append(cur)
        cur = fl.parent.get(id(cur))
        while cur is not None and not isinstance(cur, (ast.stmt, ast.ExceptHandler)) and cur is not fl.fi.node:
            cur = fl.parent.get(id(cur))
    for c in chain[1:]:
        if not isinstance(c, (ast.If, ast.With)):
            return None
    return chain


def runs_before(fl, node: ast.AST, exit_stmt: ast.stmt) -> bool:
    """Every path reaching `exit_stmt` has passed the statement holding `node` whenever that statement's guards held:
    an enclosing statement of `node` (through `if`/`with` only) is an earlier sibling of `exit_stmt` or of one of its
    enclosing statements."""
    chain = only_if_ancestors(fl, node)
    if chain is None:
        return False
    anc = []
    cur = exit_stmt
    while cur is not None and cur is not fl.fi.node:
        if isinstance(cur, ast.stmt):
            anc.append(cur)
        cur = fl.parent.get(id(cur))
    for a in chain:
        la, ia = block_of(fl, a)
        if la is None:
            continue
        for e in anc:
            le, ie = block_of(fl, e)
            if le is la and ia < ie:
                return True
    return False


def signed_root(request_param: str) -> str:
    """The SignedData structure verify() decodes from the request (access path, locals expanded)."""
    return f"SECURITY_CODER.decode_etsi_ts_103097_data_signed({request_param}.message)['content'][1]"


def is_header_info(e: ast.AST, root: str) -> bool:
    """`e` is the headerInfo of the signed tbsData below `root`."""
    return any(sem.same(e, f) for f in (f"{root}['tbsData'].get('headerInfo', {{}})", f"{root}['tbsData']['headerInfo']"))


def header_field(e: ast.AST, root: str):
    """`e` reads headerInfo[<key>] / headerInfo.get(<key>, ...) of the signed message -> key else None."""
    if isinstance(e, ast.Subscript) and isinstance(e.slice, ast.Constant) and is_header_info(e.value, root):
        return e.slice.value
    if isinstance(e, ast.Call) and isinstance(e.func, ast.Attribute) and e.func.attr == "get" and e.args and \
            isinstance(e.args[0], ast.Constant) and is_header_info(e.func.value, root):
        return e.args[0].value
    return None


def branch_atoms(fl, node: ast.AST) -> set:
    """Atoms of the tests of all enclosing `if`s (each expanded where it is tested, so later stores / container
    mutations that make the flow forget a guard do not hide it)."""
    out = set()
    child = node if isinstance(node, ast.stmt) else fl.stmt_of.get(id(node))
    cur = fl.parent.get(id(child)) if child is not None else None
    while cur is not None and cur is not fl.fi.node:
        if isinstance(cur, ast.If) and (child in cur.body or child in cur.orelse):
            out.update(sem.atoms(fl.expand(cur.test, fl.state_at(cur)), child in cur.body))
        child, cur = cur, fl.parent.get(id(cur))
    return out


def guard_atoms(fl, node: ast.AST, expanded: bool = True) -> set:
    """sem atoms in force where `node` is evaluated (includes short-circuit / conditional-expression guards)."""
    return sem.facts(fl, node, expanded)


# --------------------------------------------------------------------------------------------
# permission helpers of Certificate: what their bodies must mean
# --------------------------------------------------------------------------------------------
def is_issue_permissions(e: ast.AST, owner: str) -> bool:
    """`e` is the certIssuePermissions sequence of `<owner>`'s ToBeSignedCertificate."""
    base = f"{owner}.certificate['toBeSigned']"
    return any(sem.same(e, f) for f in (f"{base}['certIssuePermissions']", f"{base}.get('certIssuePermissions', [])",
                                        f"{base}.get('certIssuePermissions', ())"))


def _choice_is(atoms: set, subject: ast.AST, value: str) -> bool:
    """`subject == value` is among the atoms (also as a one-element membership test)."""
    sx = unparse(subject)
    for src in (f"{sx} == {value!r}", f"{sx} in ({value!r},)", f"{sx} in [{value!r}]", f"{sx} in {{{value!r}}}"):
        if sem.holds(atoms, src):
            return True
    return False


def _name_iter(fl, name: str, comp_iters: dict):
    """Expanded iterable a loop / comprehension variable ranges over (None when `name` is not such a variable)."""
    if name in comp_iters:
        return comp_iters[name]
    d = for_def(fl, name)
    return for_iter(fl, d) if d is not None else None


def _sub(e: ast.AST, key):
    """e == X[key] with a constant key -> X else None."""
    if isinstance(e, ast.Subscript) and isinstance(e.slice, ast.Constant) and e.slice.value == key:
        return e.value
    return None


def _explicit_psid(fl, elt: ast.AST, atoms: set, comp_iters: dict, owner: str):
    """`elt` (expanded) is E['psid'] where E ranges over P['subjectPermissions'][1], P ranges over <owner>'s
    certIssuePermissions, under the guard P['subjectPermissions'][0] == 'explicit'.  -> (ok, why)"""
    e = _sub(elt, "psid")
    if not isinstance(e, ast.Name):
        return False, f"collects `{pretty(unparse(elt))}` (not the psid of a listed permission)"
    it_e = _name_iter(fl, e.id, comp_iters)
    if it_e is None:
        return False, f"`{pretty(e.id)}` is not an element of a permission list"
    sp = _sub(it_e, 1)
    p = _sub(sp, "subjectPermissions") if sp is not None else None
    if not isinstance(p, ast.Name):
        return False, f"psids are taken from `{pretty(unparse(it_e))}` (not the explicit list subjectPermissions[1] of an issuing permission)"
    it_p = _name_iter(fl, p.id, comp_iters)
    if it_p is None or not is_issue_permissions(it_p, owner):
        return False, (f"permission groups are taken from `{pretty(unparse(it_p)) if it_p is not None else p.id}` "
                       f"(must be {owner}'s certIssuePermissions)")
    subj = keepv(ast.Subscript(value=ast.Subscript(value=p, slice=ast.Constant("subjectPermissions"), ctx=ast.Load()),
                               slice=ast.Constant(0), ctx=ast.Load()))
    if not _choice_is(atoms, subj, "explicit"):
        return False, "psids are collected without the guard subjectPermissions[0] == 'explicit'"
    return True, "explicit psids of the certIssuePermissions"


def _comp_sources(fl, comp: ast.AST, outer_atoms: set, owner: str):
    """Check a comprehension producing psids: [(ok, why)]"""
    iters, atoms = {}, set(outer_atoms)
    for g in comp.generators:
        if not isinstance(g.target, ast.Name):
            return [(False, "comprehension with a non-name target")]
        iters[g.target.id] = g.iter
        for c in g.ifs:
            atoms.update(sem.atoms(keepv(c), True))
    return [_explicit_psid(fl, comp.elt, atoms, iters, owner)]


def issuable_psids_body(ctx, fi: FuncInfo, owner: str = "self"):
    """Every element of the list `fi` returns is an explicit certIssuePermissions PSID of `owner`.  -> (ok, detail)

    Decided by provenance: the returned list starts empty and only receives E['psid'] for E in
    P['subjectPermissions'][1], P in owner.certificate['toBeSigned']['certIssuePermissions'], guarded by
    P['subjectPermissions'][0] == 'explicit' (append in nested loops, extend / += / return of a comprehension)."""
    fl = ctx.flows.get(fi)
    rets = [(s, st) for k, s, st in fl.exits if k == "return"]
    if not rets or any(k == "fall" for k, s, st in fl.exits):
        return False, "no return / falls off the end"
    problems, n_src = [], 0
    for s, st in rets:
        v = s.value
        if isinstance(v, ast.Name):
            var = v.id
            for d in fl.reaching(var, st):
                val = d.value
                empty = isinstance(val, (ast.List, ast.Tuple)) and not val.elts or \
                    (isinstance(val, ast.Call) and dotted(val.func) == "list" and not val.args and not val.keywords)
                if d.kind != "assign" or not empty:
                    problems.append(f"the returned list starts from `{pretty(unparse(val)) if val is not None else d.kind}` "
                                    f"(line {getattr(d.stmt, 'lineno', '?')}), not from an empty list")
            for n in ast.walk(fi.node):
                if isinstance(n, ast.AugAssign) and isinstance(n.target, ast.Name) and n.target.id == var:
                    src = unwrap_collection(expand_safe(fl, n.value, fl.state_at(n)))
                    if isinstance(n.op, ast.Add) and isinstance(src, (ast.ListComp, ast.GeneratorExp)) and only_if_or_for(fl, n):
                        for ok, why in _comp_sources(fl, src, vatoms(fl, n), owner):
                            n_src += 1
                            if not ok:
                                problems.append(why)
                    else:
                        problems.append(f"`{unparse(n)[:60]}` adds elements of unknown origin")
                if not (isinstance(n, ast.Name) and n.id == var and isinstance(n.ctx, ast.Load)):
                    continue
                par = fl.parent.get(id(n))
                gp = fl.parent.get(id(par)) if par is not None else None
                if isinstance(par, ast.Return):
                    continue
                if isinstance(par, ast.Attribute) and isinstance(gp, ast.Call) and gp.func is par and len(gp.args) == 1 \
                        and not gp.keywords and par.attr in ("append", "extend"):
                    stc = fl.state_at(gp)
                    if par.attr == "append":
                        n_src += 1
                        ok, why = _explicit_psid(fl, fl.expand(gp.args[0], stc), vatoms(fl, gp), {}, owner)
                        if not ok:
                            problems.append(why)
                        continue
                    src = unwrap_collection(expand_safe(fl, gp.args[0], stc))
                    if isinstance(src, (ast.ListComp, ast.GeneratorExp)):
                        for ok, why in _comp_sources(fl, src, vatoms(fl, gp), owner):
                            n_src += 1
                            if not ok:
                                problems.append(why)
                        continue
                    problems.append(f"extends the list with `{pretty(unparse(src))[:80]}`")
                    continue
                problems.append(f"the returned list is used in `{unparse(gp if gp is not None else par)[:70]}` (may receive other elements)")
        else:
            src = unwrap_collection(expand_safe(fl, v, st)) if v is not None else None
            if isinstance(src, (ast.ListComp, ast.GeneratorExp)):
                for ok, why in _comp_sources(fl, src, vatoms(fl, s), owner):
                    n_src += 1
                    if not ok:
                        problems.append(why)
            elif isinstance(src, (ast.List, ast.Tuple)) and not src.elts:
                pass
            else:
                problems.append(f"returns `{pretty(unparse(src))[:80] if src is not None else None}` (origin of the elements not recognised)")
    if not problems and n_src == 0:
        problems.append("no element source found")
    problems = sorted(set(problems))
    return not problems, ("collects only explicit certIssuePermissions PSIDs" if not problems else "; ".join(problems)[:400])


def only_if_or_for(fl, node: ast.AST) -> bool:
    """enclosing statements are if / for / with only (no try: a swallowed exception could skip or repeat nothing relevant)."""
    cur = fl.parent.get(id(node if isinstance(node, ast.stmt) else fl.stmt_of.get(id(node))))
    while cur is not None and cur is not fl.fi.node:
        if isinstance(cur, (ast.stmt, ast.ExceptHandler)) and not isinstance(cur, (ast.If, ast.For, ast.With)):
            return False
        cur = fl.parent.get(id(cur))
    return True


def has_all_body(ctx, fi: FuncInfo = None, owner: str = "self"):
    """certificate_has_all_permissions answers truthy only when some certIssuePermissions entry of `owner` has
    subjectPermissions[0] == 'all'.  -> (ok, detail)"""
    P = ctx.prog
    fi = fi or P.func(f"{CERT}.certificate_has_all_permissions")
    fl = ctx.flows.get(fi)
    t = Truth(P, ctx.flows)
    exits = t.exits(fi, "truthy")
    if not exits:
        return False, "no truthy exit"
    problems = []
    for s, st, xv in exits:
        xv = peel(xv)
        c = P.try_fold(fi.module, xv, default="<nc>")
        found = False
        cands = []      # (atoms, comprehension iters) in which an `== 'all'` test on an issuing permission must be found
        if c != "<nc>":
            cands.append((vatoms(fl, s), {}))
            for f in st.facts:
                if f.kind == "cond":
                    q = quantified(f.xnode, f.pol)
                    if q and q[0] == "exists":
                        cands.append((_q_atoms(q), {q[1]: q[2]}))
        else:
            q = quantified(expand_safe(fl, s.value, st), True)
            if q and q[0] == "exists":
                cands.append((_q_atoms(q), {q[1]: q[2]}))
        for atoms, iters in cands:
            names = set(iters)
            for f in st.facts:
                for n in ast.walk(f.xnode):
                    if isinstance(n, ast.Name) and for_def(fl, n.id) is not None:
                        names.add(n.id)
            for nm in names:
                it = _name_iter(fl, nm, iters)
                if it is None or not is_issue_permissions(it, owner):
                    continue
                subj = keepv(parse(f"X['subjectPermissions'][0]"))
                for x in ast.walk(subj):
                    if isinstance(x, ast.Name) and x.id == "X":
                        x.id = nm.replace("@", "__v")
                if _choice_is(atoms, subj, "all"):
                    found = True
        if not found:
            problems.append(f"line {s.lineno}: returns `{pretty(unparse(xv))[:60]}` without an established "
                            f"subjectPermissions[0] == 'all' on an entry of {owner}'s certIssuePermissions")
    return not problems, ("truthy only for an issuing permission of choice 'all'" if not problems else "; ".join(problems)[:400])


def _q_atoms(q) -> set:
    kind, var, it, elt, elt_pol, filters = q
    out = set(sem.atoms(keepv(elt), elt_pol))
    if kind == "exists":
        for c in filters:
            out.update(sem.atoms(keepv(c), True))
    return out


def containment_of(node: ast.AST, pol: bool = True):
    """`node` (with polarity) states that every element of N is in S -> (N, S) (collection wrappers removed) else None.

    Forms: all(x in S for x in N), not any(x not in S for x in N), set(N) <= set(S), set(N).issubset(S),
    not (set(N) - set(S))."""
    q = quantified(node, pol)
    if q is not None:
        kind, var, it, elt, elt_pol, filters = q
        if kind != "forall" or filters:
            return None
        at = cond_atoms(elt, elt_pol)
        if len(at) != 1:
            return None
        c, p = at[0]
        if p and isinstance(c, ast.Compare) and len(c.ops) == 1 and isinstance(c.ops[0], ast.In) and \
                isinstance(c.left, ast.Name) and c.left.id == var:
            S = unwrap_collection(c.comparators[0])
            if not any(isinstance(n, ast.Name) and n.id == var for n in ast.walk(S)):
                return unwrap_collection(it), S
        return None
    node = peel(node)
    while isinstance(node, ast.UnaryOp) and isinstance(node.op, ast.Not):
        node, pol = peel(node.operand), not pol

    def is_set(e):
        return isinstance(e, ast.Call) and dotted(e.func) in ("set", "frozenset") and len(e.args) == 1 and not e.keywords
    if pol and isinstance(node, ast.Compare) and len(node.ops) == 1 and is_set(node.left) and is_set(node.comparators[0]):
        if isinstance(node.ops[0], ast.LtE):
            return unwrap_collection(node.left), unwrap_collection(node.comparators[0])
        if isinstance(node.ops[0], ast.GtE):
            return unwrap_collection(node.comparators[0]), unwrap_collection(node.left)
    if pol and isinstance(node, ast.Call) and isinstance(node.func, ast.Attribute) and node.func.attr == "issubset" \
            and is_set(node.func.value) and len(node.args) == 1 and not node.keywords:
        return unwrap_collection(node.func.value), unwrap_collection(node.args[0])
    if not pol and isinstance(node, ast.BinOp) and isinstance(node.op, ast.Sub) and is_set(node.left) and is_set(node.right):
        return unwrap_collection(node.left), unwrap_collection(node.right)
    return None


def containment_function(ctx, fi: FuncInfo):
    """`fi` returns truthy only when every element of one parameter is in another -> ((needed, allowed) | None, detail)."""
    P = ctx.prog
    fl = ctx.flows.get(fi)
    t = Truth(P, ctx.flows)
    exits = t.exits(fi, "truthy")
    if not exits or any(k == "fall" for k, s, st in fl.exits):
        return None, "no truthy exit"
    roles = set()
    for s, st, _ in exits:
        xv = peel(expand_safe(fl, s.value, st))
        c = P.try_fold(fi.module, xv, default="<nc>")
        got = None
        if c == "<nc>":
            got = containment_of(xv, True)
        else:
            lf = loop_forall(fl, fi, s)
            if lf is not None:
                tok, it, test, _ = lf
                at = cond_atoms(test, False)
                if len(at) == 1 and at[0][1] and isinstance(at[0][0], ast.Compare) and isinstance(at[0][0].ops[0], ast.In) \
                        and isinstance(at[0][0].left, ast.Name) and at[0][0].left.id == tok:
                    got = (unwrap_collection(it), unwrap_collection(at[0][0].comparators[0]))
            if got is None:
                for f in st.facts:
                    if f.kind == "cond":
                        got = got or containment_of(f.xnode, f.pol)
        if got is None:
            return None, f"line {s.lineno}: returns `{pretty(unparse(xv))[:80]}`: not 'every requested element is among the allowed ones'"
        N, S = got
        if not (isinstance(N, ast.Name) and isinstance(S, ast.Name) and N.id in fi.params and S.id in fi.params and N.id != S.id):
            return None, f"line {s.lineno}: containment of `{pretty(unparse(N))}` in `{pretty(unparse(S))}` is not between two parameters"
        roles.add((N.id, S.id))
    if len(roles) != 1:
        return None, f"exits disagree on the roles {sorted(roles)}"
    r = next(iter(roles))
    return r, f"truthy only when every element of `{r[0]}` is in `{r[1]}`"


def _helper(ctx, name: str):
    P = ctx.prog
    return P.func(f"{CERT}.{name}") if P.has_func(f"{CERT}.{name}") else None


def containment_established(ctx, nodes: list, needed_src: str, allowed_src: str):
    """Among (node, polarity) facts: the elements of `needed_src` are all in `allowed_src`, stated directly or through a
    call of the repository's containment helper (whose body is then checked).  -> (ok, why)"""
    why = "no containment fact"
    for n, pol in nodes:
        got = containment_of(n, pol)
        if got is None and pol and isinstance(peel(n), ast.Call):
            call = peel(n)
            fname = (dotted(call.func) or "").split(".")[-1]
            callee = _helper(ctx, fname) if fname == "check_all_requested_permissions_are_allowed" else None
            if callee is not None:
                roles, detail = containment_function(ctx, callee)
                if roles is None:
                    why = f"{fname}: {detail}"
                    continue
                b = bind_args(callee, call)
                if roles[0] in b and roles[1] in b:
                    got = (unwrap_collection(b[roles[0]]), unwrap_collection(b[roles[1]]))
        if got is None:
            continue
        N, S = got
        if sem.same(N, needed_src) and sem.same(S, allowed_src):
            return True, "every needed permission is among the issuer's allowed ones"
        why = f"containment of `{pretty(unparse(N))[:70]}` in `{pretty(unparse(S))[:70]}`"
    return False, why


def permission_containment(ctx, nodes: list, subject: str, issuer: str, _depth: int = 3):
    """The facts establish: issuer may issue all, or needed(subject) within allowed(issuer); the helper bodies this
    relies on are checked as part of the answer.  A disjunction among the facts counts when each member does.
    -> (ok, why)"""
    atoms = set()
    for n, pol in nodes:
        atoms.update(sem.atoms(n, pol))
    if sem.holds(atoms, f"{issuer}.certificate_has_all_permissions()"):
        ok, why = has_all_body(ctx)
        return ok, "issuer may issue all" + ("" if ok else f" - but certificate_has_all_permissions: {why}")
    ok, why = containment_established(ctx, nodes, f"{subject}.get_list_of_needed_permissions()",
                                      f"{issuer}.get_list_of_allowed_persmissions()")
    if ok:
        al = _helper(ctx, "get_list_of_allowed_persmissions")
        if al is None:
            return False, "get_list_of_allowed_persmissions vanished"
        ok2, why2 = issuable_psids_body(ctx, al)
        return ok2, why + ("" if ok2 else f" - but get_list_of_allowed_persmissions: {why2}")
    if _depth > 0:
        for i, (n, pol) in enumerate(nodes):
            n = peel(n)
            if isinstance(n, ast.BoolOp) and ((isinstance(n.op, ast.Or) and pol) or (isinstance(n.op, ast.And) and not pol)):
                rest = nodes[:i] + nodes[i + 1:]
                res = [permission_containment(ctx, rest + cond_atoms(v, pol), subject, issuer, _depth - 1) for v in n.values]
                if all(r[0] for r in res):
                    return True, " or ".join(sorted({r[1] for r in res}))
    return False, why


def primitive_call(nodes: list, data_src: str, sig_src: str, key_src: str, recv: str = "backend") -> bool:
    """A true fact `<recv>.verify_with_pk(data, signature, pk)` with the given arguments (positional or by keyword)."""
    for n, pol in nodes:
        n = peel(n)
        if not (pol and isinstance(n, ast.Call) and isinstance(n.func, ast.Attribute) and n.func.attr == "verify_with_pk"
                and sem.same(n.func.value, recv)):
            continue
        names = ["data", "signature", "pk"]
        got = {names[i]: a for i, a in enumerate(n.args[:3])}
        for kw in n.keywords:
            if kw.arg in names:
                got[kw.arg] = kw.value
        if len(got) == 3 and sem.same(got["data"], data_src) and sem.same(got["signature"], sig_src) and sem.same(got["pk"], key_src):
            return True
    return False


def cert_verify_conjuncts(ctx, rule: str):
    """Every way Certificate.verify can return True carries the full set of conjuncts."""
    P = ctx.prog
    t = Truth(P, ctx.flows)
    fi = P.func(f"{CERT}.verify")
    alts = t.true_alternatives(fi, depth=4)
    if not alts:
        raise AnalysisError("Certificate.verify has no truthy exit")
    con = fi.short()
    n_issued = n_self = 0
    tbs = "SECURITY_CODER.encode_ToBeSignedCertificate(self.certificate['toBeSigned'])"
    sig = "self.certificate['signature']"
    for i, a in enumerate(alts):
        nodes = alt_nodes(a)
        at = alt_atoms(a)
        issued = holds(at, "self.certificate_is_issued()") or holds(at, "self.certificate['issuer'][0]=='sha256AndDigest'")
        selfs = holds(at, "self.certificate_is_self_signed()") or holds(at, "self.certificate['issuer'][0]=='self'")
        sig_issuer = primitive_call(nodes, tbs, sig, "self.issuer.certificate['toBeSigned']['verifyKeyIndicator'][1]")
        sig_self = primitive_call(nodes, tbs, sig, "self.certificate['toBeSigned']['verifyKeyIndicator'][1]")
        kind = "issued" if sig_issuer or (issued and not selfs) else ("self-signed" if selfs else "other")
        disc = f"true-exit#{i}:{kind}"
        if kind == "issued":
            n_issued += 1
            ctx.ob(rule, con, f"{disc}:signature-under-issuer-key", sig_issuer,
                   "returns True only after the signature over the encoded ToBeSignedCertificate verified under the ISSUER's key",
                   fi.loc)
            ctx.ob(rule, con, f"{disc}:issuer-correspondence",
                   holds(at, "self.certificate['issuer'][1]==self.issuer.as_hashedid8()"),
                   "returns True only when the certificate's issuer digest equals the issuer object's HashedId8", fi.loc)
            perm, why = permission_containment(ctx, nodes, "self", "self.issuer")
            ctx.ob(rule, con, f"{disc}:permission-containment", perm,
                   "returns True only when the subject's permissions are contained in the issuer's issuing permissions "
                   f"(or the issuer may issue all): {why}", fi.loc)
            ctx.ob(rule, con, f"{disc}:issuer-present", holds(at, "self.issuer is not None"),
                   "issuer object present", fi.loc)
        elif kind == "self-signed":
            n_self += 1
            ctx.ob(rule, con, f"{disc}:signature-under-own-key", sig_self,
                   "self-signed: signature verified under the certificate's own verification key", fi.loc)
            ctx.ob(rule, con, f"{disc}:marked-self", holds(at, "self.certificate['issuer'][0]=='self'"),
                   "self-signed branch requires issuer == ('self', ...)", fi.loc)
        else:
            ctx.ob(rule, con, disc, False,
                   "Certificate.verify can return a truthy value on a path that establishes neither an issuer-key nor an "
                   f"own-key signature check: returns `{a.get('<return>', '?')[:80]}`", fi.loc)
        if kind in ("issued", "self-signed"):
            ctx.ob(rule, con, f"{disc}:key-type-consistent",
                   holds(at, "self.certificate['toBeSigned']['verifyKeyIndicator'][0]=='verificationKey'"),
                   "explicit verification key indicator required", fi.loc)
    if n_issued == 0 or n_self == 0:
        raise AnalysisError(f"Certificate.verify: true exits issued={n_issued} self-signed={n_self}; both kinds expected")
    # verify_signature: False on exceptions, result of the backend primitive otherwise
    vs = P.func(f"{CERT}.verify_signature")
    fl = ctx.flows.get(vs)
    rets = [(s, st) for k, s, st in fl.exits if k == "return"]
    prm = vs.params
    for j, (s, st) in enumerate(rets):
        in_handler = any(k == "handler" for _, k in fl.enclosing_handlers(s))
        x = peel(fl.expand(s.value, st)) if s.value is not None else ast.Constant(None)
        c = P.try_fold(vs.module, x, default="<nc>")
        u = pretty(unparse(x))
        if in_handler:
            ctx.ob(rule, vs.short(), f"return#{j}:on-exception", c != "<nc>" and not c,
                   f"verify_signature returns `{u}` from an exception handler (must be False)", f"{vs.module.rel}:{s.lineno}")
        else:
            ok = (c != "<nc>" and not c) or (len(prm) >= 4 and primitive_call(
                [(x, True)], f"SECURITY_CODER.encode_ToBeSignedCertificate({prm[-3]})", prm[-2], prm[-1], prm[-4]))
            ctx.ob(rule, vs.short(), f"return#{j}:primitive", ok,
                   f"verify_signature returns `{u[:120]}`; must be the backend check over the encoded ToBeSignedCertificate",
                   f"{vs.module.rel}:{s.lineno}")
    return alts


def backend_primitive(ctx, rule: str):
    """PythonECDSABackend.verify_with_pk: truthy only as the result of vk.verify over the caller's data/signature/key."""
    P = ctx.prog
    fi = P.func("security.ecdsa_backend.PythonECDSABackend.verify_with_pk")
    fl = ctx.flows.get(fi)
    rets = [(s, st) for k, s, st in fl.exits if k == "return"]
    if not rets:
        raise AnalysisError("verify_with_pk has no return")
    for j, (s, st) in enumerate(rets):
        x = fl.expand(s.value, st)
        u = norm(pretty(unparse(x)))
        in_handler = any(k == "handler" for _, k in fl.enclosing_handlers(s))
        if in_handler:
            ctx.ob(rule, fi.short(), f"return#{j}:bad-signature", u == "False",
                   f"BadSignatureError handler returns `{u}` (must be False)", f"{fi.module.rel}:{s.lineno}")
            continue
        if u == "False":
            ctx.ob(rule, fi.short(), f"return#{j}", True, "returns False", f"{fi.module.rel}:{s.lineno}")
            continue
        ok = ".verify(" in u and "data=data" in u and "from_public_point(" in u and "pk[1][1]['x']" in u and "pk[1][1]['y']" in u \
            and "signature[1]['rSig'][1]" in u and "signature[1]['sSig']" in u and "hashfunc=hashlib.sha256" in u
        ctx.ob(rule, fi.short(), f"return#{j}:verify", ok,
               "truthy result must be ecdsa VerifyingKey.verify(data=<data>, signature built from the message's r/s, key built "
               f"from <pk> x/y, SHA-256); found `{u[:160]}`", f"{fi.module.rel}:{s.lineno}")
