"""C06 - multi-hop packets: at-most-once delivery and forwarding, shrinking hop budget.

Decides, for every delivery / forward / table-update sink of the eight receive handlers: duplicate-address detection on
the decoded source address precedes it on every path, and DAD raises exactly for the own address (dad-first);
for multi-hop types the duplicate-packet check on the decoded sequence number precedes every delivery and forward, and
no sink sits in an except handler (dpd-first); hop-limit guard (received RHL >= 2) and a Basic Header equal to
set_rhl(received RHL - 1) on every forwarded copy, set_rhl storing its argument for all 256 values (rhl); what a
forwarded copy is made of (copy: received common header, decoded extended header - DE PV refreshed only under a strict
`newer` guard -, residual payload, in order; set_rhl keeps every other Basic Header field; after verification the
security dispatcher does not hand the forwarders only the plain message behind a Basic Header re-stamped
NH=COMMON_HEADER, i.e. a secured packet is not re-emitted unsecured); DPL ring bookkeeping (dpl-ring: raise exactly
when the SN is a member and before any insertion, every accepted SN recorded in ring and set, eviction only when full
and of the popped SN, no other mutation); CBF buffering discipline (cbf: a timer is armed only for a (source, SN) not
yet buffered, a second reception removes and cancels the buffered copy, the expiry callback sends only on paths that
found the copy still buffered; cbf-overhear: duplicates reach that cancel branch, looked up under the buffer's key, and no
except clause of a receive handler is shadowed by an earlier clause that catches a base class of it).
Does not decide: termination of floods over topologies, timer expiry points, SN wrap-around, the DPL window length
(value level).
"""
from __future__ import annotations

import ast

from ..prog import AnalysisError, ClassInfo, FuncInfo, dotted, unparse
from ..absint import MiniEval
from ..match import CallSummaries, int_lower_bound, pretty
from .. import sem
from . import gnutil as G

PROP = "C06"
BH = "geonet.basic_header.BasicHeader"


def run(ctx):
    P = ctx.prog
    ctx.explanation = (
        "Must-call / guard / provenance rules (K1-K3) over the 8 receive handlers of the GN router, enumerated from the "
        "dispatcher on every run. For every delivery sink (GNDataIndication construction), forward sink (LinkLayer.send, "
        "deferred CBF packet) and location-table update the must-facts of all paths (lifted through the dispatcher and "
        "into forwarding helpers) must contain: the DPD call on the decoded sequence number (transitively through the "
        "location table's always-calls summaries), the DAD call on the decoded source address, a lower bound RHL >= 2 on "
        "the received header and a Basic Header equal to set_rhl(received RHL - 1); the other operands must be the "
        "received common header, the decoded extended header (DE PV replaced only under `LocT tst > packet tst`) and the "
        "residual payload. Operands are compared as expressions over the handler's own parameters (helper parameters "
        "are replaced by the arguments of every call site); conditions are compared as canonical atoms. "
        "Path-universal: holds for every packet sequence because it holds on every path.")
    ctx.declined = ["flood termination over topologies", "timer expiry points / real time", "sequence-number wrap-around",
                    "DPL window length as a value"]
    cs = CallSummaries(P, ctx.flows)
    handlers = G.receive_handlers(ctx)
    ctx.extra["handlers"] = [h.fi.name for h in handlers]
    # the except clauses of a receive handler are all reachable: no clause names a class that an EARLIER clause of the same try
    # already catches.  The duplicate-packet clause is where an overheard copy cancels the buffered one; re-parenting
    # DuplicatedPacketException under a class caught earlier silently turns that clause dead.
    from ..summaries import ExcAlgebra
    alg = ExcAlgebra(P)
    n_try = 0
    for h in handlers:
        for t_ in [x for x in ast.walk(h.fi.node) if isinstance(x, ast.Try)]:
            n_try += 1
            seen, dead = [], []
            for hd in t_.handlers:
                elts = (hd.type.elts if isinstance(hd.type, ast.Tuple) else [hd.type]) if hd.type is not None else []
                ids = [alg.ident(h.fi, e_) for e_ in elts]
                for i_ in ids:
                    if i_ is None:
                        continue
                    for prev in seen:
                        if alg.is_sub(i_, prev):
                            dead.append((i_, prev, hd.lineno))
                seen += [i_ for i_ in ids if i_ is not None]
            ctx.ob("C06.cbf-overhear", h.fi.short(), f"except-clauses-reachable@{len([x for x in ast.walk(h.fi.node) if isinstance(x, ast.Try) and x.lineno < t_.lineno])}", not dead,
                   "every except clause of the handler can be reached" if not dead else
                   f"`except {dead[0][0].split('.')[-1]}` (line {dead[0][2]}) is dead: {dead[0][0].split('.')[-1]} is a {dead[0][1].split('.')[-1]}, which an earlier clause "
                   "catches - the duplicate / DAD handling written there never runs (an overheard duplicate no longer cancels the buffered copy)",
                   f"{h.fi.module.rel}:{t_.lineno}")
    if n_try < 6:
        raise AnalysisError(f"C06: only {n_try} try statements in the receive handlers (confirmed: 8)")
    n_fwd = 0
    for h in handlers:
        sinks = G.sinks_of(ctx, h)
        if not sinks:
            raise AnalysisError(f"C06: handler {h.fi.name} has no sink")
        dec_cx = sem.cx(G.decoded_x(ctx, h))
        for i, s in enumerate(sinks):
            fl = G.flow_for(ctx, s.fi, h)
            st = fl.state_at(s.node)
            con = s.fi.short()
            disc = f"{s.kind}#{_ord(sinks, s)}"
            loc = f"{s.fi.module.rel}:{s.node.lineno}"
            in_handler = any(k == "handler" for _, k in fl.enclosing_handlers(s.node))
            ctx.ob("C06.dpd-first", con, f"{disc}:not-in-except", not in_handler,
                   f"{s.kind} sink inside an except handler (a duplicate/DAD rejection must reach no sink)", loc)
            # ---- DAD before everything, on the SOURCE address of the decoded packet
            ok, why = G.dad_on_source(ctx, h, s.fi, st)
            ctx.ob("C06.dad-first", con, disc, ok, f"{s.kind} sink {why}", loc)
            if s.kind == "table-update":
                continue
            # ---- DPD before delivery / forward (multi-hop types only), on the decoded sequence number
            if h.multi_hop:
                want = f"{dec_cx}.sn"
                seen = []
                for a in cs.called_before(s.fi, fl, st, "LocationTableEntry.check_duplicate_sn"):
                    if not a:
                        continue
                    try:
                        node = ast.parse(a[0], mode="eval").body
                    except SyntaxError:
                        continue
                    seen += [sem.cx(x) for x in G.to_handler_terms(ctx, h, s.fi, node)]
                ok = want in seen
                ctx.ob("C06.dpd-first", con, disc, ok,
                       f"{s.kind} sink " + (f"preceded by check_duplicate_sn({want[:60]})" if ok else
                                            "NOT preceded on every path by the duplicate-packet check on the decoded sequence "
                                            f"number `{want[:60]}` (checked: {[x[:50] for x in seen]})"), loc)
            # ---- forwards: RHL guard, decrement, copy
            if s.kind in ("send", "deferred-send"):
                for ops in G.assembled_packets(fl, s, st):
                    bh = ops[0]
                    if not (isinstance(bh, ast.Call) and isinstance(bh.func, ast.Attribute) and bh.func.attr == "encode_to_bytes"):
                        continue
                    ok_ch, why_ch = _common_ok(ctx, h, s, ops[1] if len(ops) > 1 else None)
                    ok_ext, why_ext = _ext_ok(ctx, h, s, ops[2] if len(ops) > 2 else None)
                    ok_pay, why_pay = _payload_ok(ctx, h, s, ops[3:])
                    if _originated(ctx, h, s.fi, bh.func.value) and not (ok_ch or ok_ext or ok_pay):
                        continue        # a packet the handler originates (LS reply): no part of it is a received part
                    n_fwd += 1
                    _rhl(ctx, h, s, fl, st, bh.func.value, con, disc, loc)
                    # ---- copy: common header, extended header, payload
                    ctx.ob("C06.copy", con, f"{disc}:common", ok_ch, why_ch, loc)
                    ctx.ob("C06.copy", con, f"{disc}:extended", ok_ext, why_ext, loc)
                    ctx.ob("C06.copy", con, f"{disc}:payload", ok_pay, why_pay, loc)
    ctx.floor("C06.dad-first", 23, "sinks")  # + 2 obligations on the DAD body below
    _secured_forward(ctx)
    ctx.floor("C06.dpd-first", 37)
    if n_fwd < 8:
        raise AnalysisError(f"C06: only {n_fwd} forwarded-copy assemblies recognised (confirmed: 10)")
    set_rhl_body(ctx)
    G.check_dad_body(ctx, "C06.dad-first")
    dpl_ring(ctx)
    cbf(ctx, handlers, cs)


def _ord(sinks, s) -> int:
    same = [x for x in sinks if x.kind == s.kind and x.fi is s.fi]
    return same.index(s)


# --------------------------------------------------------------------------------------------
# provenance helpers
# --------------------------------------------------------------------------------------------
def _is_param_of_type(ctx, h, x: ast.AST, cls_name: str) -> bool:
    """x (handler terms) is a parameter of the handler, never re-bound, annotated with class `cls_name`."""
    if not (isinstance(x, ast.Name) and x.id in h.fi.params):
        return False
    ts = ctx.prog.param_types(h.fi).get(x.id, set())
    return any(isinstance(t, str) and t in ctx.prog.classes and ctx.prog.classes[t].name == cls_name for t in ts)


def _originated(ctx, h, fi, x: ast.AST) -> bool:
    """The header value is built from scratch (a BasicHeader class-level constructor), not derived from a received one."""
    root = x
    while True:
        if isinstance(root, ast.Call):
            root = root.func
        elif isinstance(root, ast.Attribute):
            root = root.value
        else:
            break
    if isinstance(root, ast.Name):
        r = ctx.prog.resolve_name(fi.module, root.id)
        if isinstance(r, ClassInfo):
            return True
    return False


def _lin(P, mod, e: ast.AST):
    """e == term + c -> (term node, c); constants -> (None, c)."""
    c = P.try_fold(mod, e)
    if isinstance(c, int) and not isinstance(c, bool):
        return None, c
    if isinstance(e, ast.BinOp) and isinstance(e.op, (ast.Add, ast.Sub)):
        lt, lc = _lin(P, mod, e.left)
        rt, rc = _lin(P, mod, e.right)
        if rt is None:
            return lt, lc + (rc if isinstance(e.op, ast.Add) else -rc)
        if lt is None and isinstance(e.op, ast.Add):
            return rt, lc + rc
    return e, 0


def _header_sites(ctx, h, fi, fl, st, x: ast.AST, depth: int = 0) -> list:
    """[(fi, state, X)]: the places where the forwarded Basic Header value is computed.  While the value is a bare
    parameter of a forwarding helper, descend to the arguments of every call site in the handler's call chain."""
    P = ctx.prog
    if isinstance(x, ast.Name) and x.id in fi.params and fi is not h.fi and depth < 6:
        chain = {f.qual for f in G.chain_of(h)}
        out = []
        for caller, call in P.callers_of(fi):
            if caller.qual not in chain:
                continue
            amap = G.bind_args(fi, call) or {}
            arg = amap.get(x.id)
            if arg is None:
                out.append((fi, st, x))
                continue
            cfl = ctx.flows.get(caller, lifted=True)
            cst = cfl.state_at(call)
            out += _header_sites(ctx, h, caller, cfl, cst, cfl.expand(arg, cst), depth + 1)
        return out or [(fi, st, x)]
    return [(fi, st, x)]


def _rhl(ctx, h, s, fl, st, hdr_x, con, disc, loc):
    """Forwarded Basic Header == R.set_rhl(R.rhl - 1) with R the received header, under a guard R.rhl >= 2."""
    P = ctx.prog
    setter = P.func(f"{BH}.set_rhl")
    ok_dec, ok_guard, shown, lbs = True, True, [], []
    for fi, sst, x in _header_sites(ctx, h, s.fi, fl, st, hdr_x):
        shown.append(pretty(unparse(x))[:80])
        recv = None
        if isinstance(x, ast.Call) and isinstance(x.func, ast.Attribute) and x.func.attr == setter.name:
            amap = G.bind_args(setter, x) or {}
            arg = amap.get(setter.params[1]) if len(setter.params) > 1 else None
            if arg is not None:
                term, c = _lin(P, fi.module, arg)
                r = x.func.value
                if term is not None and c == -1 and sem.same(term, ast.Attribute(value=r, attr="rhl", ctx=ast.Load())):
                    # R must be the Basic Header the handler received
                    hs = G.to_handler_terms(ctx, h, fi, r)
                    if hs and all(_is_param_of_type(ctx, h, y, "BasicHeader") for y in hs):
                        recv = r
        if recv is None:
            ok_dec = False
            lb = None
        else:
            lb = int_lower_bound(P, fi.module, sst.facts, pretty(unparse(recv)) + ".rhl")
        lbs.append(lb)
        if lb is None or lb < 2:
            ok_guard = False
    ctx.ob("C06.rhl", con, f"{disc}:decrement", ok_dec,
           f"forwarded Basic Header is `{' | '.join(shown)}`; must be <received>.set_rhl(<received>.rhl - 1) on the Basic "
           "Header the handler received", loc)
    ctx.ob("C06.rhl", con, f"{disc}:guard", ok_guard,
           f"forward guarded by received RHL >= {min(lbs)}" if ok_guard else
           f"forward not guarded by `received RHL - 1 > 0` on every path (lower bounds established: {lbs}); "
           f"a packet received with RHL 0 or 1 is re-emitted" +
           (" with RHL 255 (set_rhl reduces modulo 256)" if any(b is None for b in lbs) else ""), loc)


def _common_ok(ctx, h, s, op):
    if op is None or not (isinstance(op, ast.Call) and isinstance(op.func, ast.Attribute) and op.func.attr == "encode_to_bytes"
                          and not op.args and not op.keywords):
        return False, "second operand must be <received common header>.encode_to_bytes()"
    hs = G.to_handler_terms(ctx, h, s.fi, op.func.value)
    ok = bool(hs) and all(_is_param_of_type(ctx, h, y, "CommonHeader") for y in hs)
    return ok, (f"second operand `{pretty(unparse(op))[:60]}` " +
                ("is the received common header unchanged" if ok else
                 f"must be the received common header unchanged (resolves to {[pretty(unparse(y))[:50] for y in hs]})"))


def _slice_chain(P, mod, e: ast.AST):
    """e == base[a:][b:c]... -> (base node, start offset, end offset | None); None for other subscripts."""
    if isinstance(e, ast.Subscript):
        sl = e.slice
        if not isinstance(sl, ast.Slice) or sl.step is not None:
            return None
        inner = _slice_chain(P, mod, e.value)
        if inner is None:
            return None
        base, start, end = inner
        lo = 0 if sl.lower is None else P.try_fold(mod, sl.lower)
        hi = None if sl.upper is None else P.try_fold(mod, sl.upper, default="<nc>")
        if not isinstance(lo, int) or isinstance(lo, bool) or lo < 0:
            return None
        if hi is not None and (not isinstance(hi, int) or isinstance(hi, bool) or hi < 0):
            return None
        nstart = start + lo
        nend = end if hi is None else (start + hi if end is None else min(end, start + hi))
        return base, nstart, nend
    return e, 0, None


def _header_extent(ctx, h):
    """(name of the handler parameter the header was decoded from, number of octets decoded)."""
    dec = G.decoded_x(ctx, h)
    if not dec.args:
        return None
    sc = _slice_chain(ctx.prog, h.fi.module, dec.args[0])
    if sc is None or not (isinstance(sc[0], ast.Name) and sc[0].id in h.fi.params) or sc[1] != 0 or sc[2] is None:
        return None
    return sc[0].id, sc[2]


def _payload_ok(ctx, h, s, pay: list):
    shown = [pretty(unparse(o))[:50] for o in pay]
    if len(pay) != 1:
        return False, f"payload operand(s) {shown}: must be exactly the residual of the received packet"
    ext = _header_extent(ctx, h)
    if ext is None:
        return False, "the decoded header is not a leading slice `<param>[0:N]` of the received packet"
    base, n = ext
    hs = G.to_handler_terms(ctx, h, s.fi, pay[0])
    res = []
    for y in hs:
        sc = _slice_chain(ctx.prog, h.fi.module, y)
        res.append(sc is not None and isinstance(sc[0], ast.Name) and sc[0].id == base and sc[1] == n and sc[2] is None)
    ok = bool(res) and all(res)
    return ok, (f"payload operand `{shown[0]}` " +
                (f"is the residual {base}[{n}:] after the {n} decoded header octets" if ok else
                 f"must be exactly the residual `{base}[{n}:]` of the received packet after the decoded extended header; it is "
                 f"{[pretty(unparse(y))[:50] for y in hs]} (the undecoded packet would repeat the header octets)"))


def _ext_ok(ctx, h, s, op):
    """Extended header operand: the decoded header itself, or a copy that only refreshes DE PV under a strict-newer guard."""
    P = ctx.prog
    if op is None or not (isinstance(op, ast.Call) and isinstance(op.func, ast.Attribute) and op.func.attr == "encode"
                          and not op.args and not op.keywords):
        return False, "third operand must be <extended header>.encode()"
    dec = G.decoded_x(ctx, h)
    dec_cx = sem.cx(dec)
    hs = G.to_handler_terms(ctx, h, s.fi, op.func.value)
    if not hs:
        return False, "extended header operand cannot be traced back to the receive handler"
    hfl = ctx.flows.get(h.fi, lifted=True)
    notes = []
    for y in hs:
        if sem.cx(y) == dec_cx:
            notes.append("the decoded header")
            continue
        new_pv = _refreshed_de_pv(ctx, h, y, dec_cx)
        if new_pv is None:
            return False, (f"extended header operand `{pretty(unparse(y))[:80]}` is neither the decoded header nor a copy of "
                           "it that replaces only DE PV")
        # the refreshed copy: its construction site must be guarded by `<LocT pv>.tst > <decoded header>.de_pv.tst`
        tst = _pv_tst(ctx, h, new_pv)
        if tst is None:
            return False, f"the timestamp of the refreshed DE PV `{pretty(unparse(new_pv))[:70]}` cannot be determined"
        want = sem.atoms(ast.Compare(left=tst, ops=[ast.Gt()], comparators=[
            ast.Attribute(value=ast.Attribute(value=dec, attr="de_pv", ctx=ast.Load()), attr="tst", ctx=ast.Load())]), True)
        sites = [d for d in hfl.defs.values() if d.xvalue is not None and d.kind in ("assign", "aug")
                 and sem.cx(d.xvalue) == sem.cx(y) and id(d.stmt) in hfl.before]
        if not sites:
            return False, "construction site of the refreshed extended header not found in the handler"
        for d in sites:
            facts = _xfacts(hfl.before[id(d.stmt)])
            if not all(a in facts for a in want):
                return False, ("forwarded header has its DE PV replaced without the strict guard `<LocT PV>.tst > <packet DE PV>.tst` "
                               "(TST order is wrap-around aware; a subtraction or >= refreshes with older/equal vectors); "
                               f"guards at the construction: {sorted(a for a in facts if '.tst' in a)}")
        notes.append(f"DE PV refreshed only under `{want[0][:90]}`")
    return True, "extended header operand is " + " / ".join(sorted(set(notes)))


def _xfacts(st) -> set:
    """Canonical atoms of the guard facts of a state, locals expanded (no atoms over raw local names)."""
    out = set()
    for f in st.facts:
        if f.kind == "cond":
            out.update(sem.atoms(f.xnode, f.pol))
    return out


def _refreshed_de_pv(ctx, h, y: ast.AST, dec_cx: str):
    """y == <decoded>.with_de_pv(V) or <decoded class>(every field = <decoded>.field, de_pv=V): returns V."""
    P = ctx.prog
    cls = h.ext_cls
    if not isinstance(y, ast.Call) or cls is None or "de_pv" not in G.ctor_fields(cls):
        return None
    f = y.func
    if isinstance(f, ast.Attribute) and sem.cx(f.value) == dec_cx and f.attr != "__class__":
        m = cls.find_method(f.attr)
        # a copy method of the header class taking the new DE PV (its body is covered by the copy-faithful rules of C02)
        if m is not None and m.kind == "method" and len(m.params) == 2 and len(y.args) + len(y.keywords) == 1:
            rets = [n for n in ast.walk(m.node) if isinstance(n, ast.Return) and isinstance(n.value, ast.Call)]
            for r in rets:
                given = G.bind_ctor(cls, r.value)
                if given and isinstance(given.get("de_pv"), ast.Name) and given["de_pv"].id == m.params[1] and all(
                        sem.cx(given.get(fld, ast.Constant(None))) == f"self.{fld}" for fld in G.ctor_fields(cls) if fld != "de_pv"):
                    amap = G.bind_args(m, y) or {}
                    return amap.get(m.params[1])
        return None
    is_ctor = (isinstance(f, ast.Attribute) and f.attr == "__class__" and sem.cx(f.value) == dec_cx)
    if not is_ctor:
        r = P.resolve_expr_entity(h.fi.module, f)
        is_ctor = r is cls
    if not is_ctor:
        return None
    given = G.bind_ctor(cls, y)
    if given is None or "de_pv" not in given:
        return None
    for fld in G.ctor_fields(cls):
        if fld == "de_pv":
            continue
        if fld not in given or sem.cx(given[fld]) != f"{dec_cx}.{fld}":
            return None
    return given["de_pv"]


def _pv_tst(ctx, h, pv: ast.AST):
    """Timestamp expression of a position-vector value: the `tst` argument of a position-vector construction, or <pv>.tst."""
    P = ctx.prog
    if isinstance(pv, ast.Call):
        r = P.resolve_expr_entity(h.fi.module, pv.func)
        if isinstance(r, ClassInfo) and "tst" in G.ctor_fields(r):
            given = G.bind_ctor(r, pv)
            return given.get("tst") if given else None
        return None
    return ast.Attribute(value=pv, attr="tst", ctx=ast.Load())


# --------------------------------------------------------------------------------------------
# the body of set_rhl (the call sites above trust that set_rhl(x) stores x)
# --------------------------------------------------------------------------------------------
def set_rhl_body(ctx):
    P = ctx.prog
    fi = P.func(f"{BH}.set_rhl")
    ci = fi.cls
    fl = ctx.flows.get(fi)
    con = fi.short()
    if len(fi.params) != 2:
        raise AnalysisError(f"{fi.qual}: expected one parameter")
    par = fi.params[1]
    rets = [(s, st) for k, s, st in fl.exits if k == "return"]
    if not rets or any(k == "fall" for k, _, _ in fl.exits):
        ctx.ob("C06.rhl", con, "stores-argument", False, "set_rhl does not return a new header on every path", fi.loc)
        return
    for n, (s, st) in enumerate(rets):
        loc = f"{fi.module.rel}:{s.lineno}"
        given, implicit_copy = None, False
        v = s.value
        if isinstance(v, ast.Call):
            tg = [t for t in P.call_targets(fi, v, count=False) if isinstance(t, ClassInfo)]
            if tg and tg[0] is ci:
                given = G.bind_ctor(ci, v)
            elif (dotted(v.func) or "").split(".")[-1] == "replace" and v.args and sem.cx(v.args[0]) == fi.params[0]:
                r = P.resolve_expr_entity(fi.module, v.func)
                ext = fi.module.imports.get((dotted(v.func) or "").split(".")[0])
                if r is None and ext is not None and "dataclasses" in ext[1]:
                    given = {kw.arg: kw.value for kw in v.keywords if kw.arg}
                    implicit_copy = True
        if given is None:
            ctx.ob("C06.rhl", con, "stores-argument", False,
                   f"set_rhl returns `{unparse(v)[:60] if v is not None else None}`: not a construction of {ci.name}", loc)
            continue
        for fld in G.ctor_fields(ci):
            if fld == "rhl":
                continue
            if fld not in given:
                ctx.ob("C06.copy", con, f"field:{fld}", implicit_copy,
                       f"{fld} " + ("kept by dataclasses.replace" if implicit_copy else
                                    "is not passed to the new header: the forwarded copy resets it to its default"), loc)
                continue
            x = fl.expand(given[fld], st)
            ok = sem.cx(x) == f"{fi.params[0]}.{fld}"
            ctx.ob("C06.copy", con, f"field:{fld}", ok,
                   f"forwarded Basic Header carries {fld} = `{pretty(unparse(x))[:50]}`" + ("" if ok else f" (must be the received {fld})"), loc)
        if "rhl" not in given:
            ctx.ob("C06.rhl", con, "stores-argument", False, "set_rhl does not store its argument into rhl", loc)
            continue
        x = fl.expand(given["rhl"], st)
        bad = None
        try:
            for val in range(256):
                got = MiniEval(P, fi, {par: val}).ev(x)
                if got != val or isinstance(got, bool):
                    bad = (val, got)
                    break
        except AnalysisError as e:
            bad = ("?", str(e)[:80])
        ctx.ob("C06.rhl", con, "stores-argument", bad is None,
               f"set_rhl(x) stores `{pretty(unparse(x))}`" + (" = x for every 8-bit x (all 256 values evaluated)" if bad is None else
                                                             f": for x = {bad[0]} it stores {bad[1]} - every forwarded copy then loses "
                                                             "a different number of hops than the one the call sites compute"), loc)


# --------------------------------------------------------------------------------------------
# duplicate packet list
# --------------------------------------------------------------------------------------------
def _deque_with_maxlen(P, ci: ClassInfo, field: str) -> bool:
    """The field is created as collections.deque(..., maxlen=...) in the constructor (so its length never exceeds maxlen)."""
    init = ci.find_method("__init__")
    if init is None:
        return False
    for n in ast.walk(init.node):
        tgt = val = None
        if isinstance(n, ast.Assign) and len(n.targets) == 1:
            tgt, val = n.targets[0], n.value
        elif isinstance(n, ast.AnnAssign):
            tgt, val = n.target, n.value
        if isinstance(tgt, ast.Attribute) and tgt.attr == field and isinstance(tgt.value, ast.Name) and tgt.value.id == "self" \
                and isinstance(val, ast.Call) and (dotted(val.func) or "").split(".")[-1] == "deque":
            return any(kw.arg == "maxlen" for kw in val.keywords) or len(val.args) >= 2
    return False


def dpl_ring(ctx):
    P = ctx.prog
    fi = P.func("geonet.location_table.LocationTableEntry.check_duplicate_sn")
    fl = ctx.flows.get(fi)
    con = fi.short()
    if len(fi.params) != 2:
        raise AnalysisError(f"{fi.qual}: expected one parameter (the sequence number)")
    sn = fi.params[1]
    raises = [(s, st) for k, s, st in fl.exits if k == "raise"]
    normal = [st for k, s, st in fl.exits if k in ("fall", "return")]
    member = f"{sn} in self.dpl_set"
    ok_r = bool(raises) and all(sem.holds(_xfacts(st), member) for _, st in raises)
    ctx.ob("C06.dpl-ring", con, "raise-iff-member", ok_r,
           "DuplicatedPacketException is raised exactly under `sn in self.dpl_set`", fi.loc)
    ins_before_raise = any(any(f.kind == "call" and isinstance(f.xnode, ast.Call) and isinstance(f.xnode.func, ast.Attribute)
                               and f.xnode.func.attr in ("append", "add", "appendleft", "insert", "extend", "update")
                               for f in st.facts) for _, st in raises)
    ctx.ob("C06.dpl-ring", con, "raise-before-insert", not ins_before_raise,
           "the duplicate is rejected before any insertion into the DPL", fi.loc)
    for cont, meth, txt in (("self.dpl_deque", "append", "ring append"), ("self.dpl_set", "add", "set add")):
        ok = bool(normal) and all(_recorded(st, cont, meth, sn) for st in normal)
        ctx.ob("C06.dpl-ring", con, txt, ok, f"every accepted SN is recorded by `{cont}.{meth}({sn})`", fi.loc)
    # the only ways an SN leaves / enters the list are the four paired operations (no clear, rebind, slice, remove)
    from ..locks import LockAnalysis
    la = LockAnalysis(ctx)
    muts = []
    for fld in ("dpl_set", "dpl_deque"):
        for a in la.accesses("geonet.location_table.LocationTableEntry", fld):
            if a.kind != "read":
                muts.append((fld, a.how, a.fi.short(), a.line))
    allowed = {("dpl_set", ".add()"), ("dpl_set", ".discard()"), ("dpl_deque", ".append()"), ("dpl_deque", ".popleft()")}
    bad = [m for m in muts if (m[0], m[1]) not in allowed or m[2] != con]
    cnt = {k: sum(1 for m in muts if (m[0], m[1]) == k) for k in allowed}
    ctx.ob("C06.dpl-ring", con, "only-paired-mutations", not bad and all(v == 1 for v in cnt.values()),
           "the duplicate packet list is only changed by one add/append and one popleft/discard" if not bad and all(v == 1 for v in cnt.values())
           else f"the duplicate packet list is also changed by {[(m[0] + m[1], m[2].split('.')[-1], m[3]) for m in bad] or cnt}: "
                "sequence numbers can leave the list while still inside the window (a late duplicate is delivered again)", fi.loc)
    # eviction pairing
    disc = [c for c in P.calls_in(fi) if isinstance(c.func, ast.Attribute) and c.func.attr == "discard"]
    pops = [c for c in P.calls_in(fi) if isinstance(c.func, ast.Attribute) and c.func.attr == "popleft"]
    ok = len(disc) == 1 and len(pops) == 1 and len(disc[0].args) == 1
    if ok:
        st = fl.state_at(disc[0])
        ok = sem.same(fl.expand(disc[0].args[0], st), fl.expand(pops[0], fl.state_at(pops[0]))) and \
            sem.cx(disc[0].func.value) == "self.dpl_set" and sem.cx(pops[0].func.value) == "self.dpl_deque"
        ring = unparse(pops[0].func.value)
        facts = _xfacts(fl.state_at(pops[0]))
        full = sem.holds(facts, f"len({ring}) == {ring}.maxlen")
        if not full and _deque_with_maxlen(P, fi.cls, "dpl_deque"):
            # a deque created with maxlen never holds more than maxlen items: `>=` is the same event as `==`
            full = sem.holds(facts, f"len({ring}) >= {ring}.maxlen")
        ctx.ob("C06.dpl-ring", con, "evict-when-full", full,
               "oldest SN evicted only when the ring is full" if full else
               f"the oldest SN is evicted although the ring may not be full (guards: {sorted(facts)})", fi.loc)
    ctx.ob("C06.dpl-ring", con, "evict-paired", ok, "the SN popped from the ring is the one discarded from the set", fi.loc)


def _recorded(st, container: str, method: str, arg: str) -> bool:
    for f in st.facts:
        if f.kind == "call" and isinstance(f.xnode, ast.Call) and isinstance(f.xnode.func, ast.Attribute) \
                and f.xnode.func.attr == method and sem.cx(f.xnode.func.value) == container \
                and len(f.xnode.args) == 1 and not f.xnode.keywords and sem.cx(f.xnode.args[0]) == arg:
            return True
    return False


# --------------------------------------------------------------------------------------------
# contention-based forwarding buffer
# --------------------------------------------------------------------------------------------
def _call(recv: ast.AST, meth: str, *args) -> ast.Call:
    return ast.Call(func=ast.Attribute(value=recv, attr=meth, ctx=ast.Load()), args=list(args), keywords=[])


def _lookups(buf: ast.AST, key: ast.AST) -> tuple:
    """(removing lookups, all lookups) that yield None exactly when `key` is not in `buf`."""
    none = ast.Constant(None)
    pops = [_call(buf, "pop", key, none)]
    return pops, pops + [_call(buf, "get", key), _call(buf, "get", key, none)]


def _absent_atoms(buf: ast.AST, key: ast.AST) -> set:
    out = set(sem.atoms(ast.Compare(left=key, ops=[ast.In()], comparators=[buf]), False))
    for l in _lookups(buf, key)[1]:
        out.update(sem.atoms(ast.Compare(left=l, ops=[ast.Is()], comparators=[ast.Constant(None)]), True))
        out.update(sem.atoms(l, False))
    return out


def _present_atoms(buf: ast.AST, key: ast.AST) -> set:
    out = set(sem.atoms(ast.Compare(left=key, ops=[ast.In()], comparators=[buf]), True))
    for l in _lookups(buf, key)[1]:
        out.update(sem.atoms(ast.Compare(left=l, ops=[ast.Is()], comparators=[ast.Constant(None)]), False))
        out.update(sem.atoms(l, True))
    return out


def _cancel_on_present(ctx, fi: FuncInfo, buf: ast.AST, key: ast.AST) -> tuple:
    """(ok, why): whenever `key` is in `buf`, `fi` removes the entry and cancels the removed timer:
    a `.cancel()` on the value popped from buf under key, guarded by nothing but the presence of the key, and no
    earlier exit for a present key."""
    P = ctx.prog
    fl = ctx.flows.get(fi)
    popped = {sem.cx(_call(buf, "pop", key)), sem.cx(_call(buf, "pop", key, ast.Constant(None)))}
    present, absent = _present_atoms(buf, key), _absent_atoms(buf, key)
    cancels = []
    for c in P.calls_in(fi):
        if isinstance(c.func, ast.Attribute) and c.func.attr == "cancel" and not c.args:
            try:
                st = fl.state_at(c)
            except AnalysisError:
                continue
            if sem.cx(fl.expand(c.func.value, st)) in popped:
                cancels.append((c, st))
    if not cancels:
        return False, f"no `.cancel()` on the timer popped from `{sem.cx(buf)}` under `{sem.cx(key)}`"
    for c, st in cancels:
        extra = _xfacts(st) - present
        if extra:
            return False, f"the cancel is additionally conditioned on {sorted(extra)}: a buffered copy can survive its duplicate"
    first = min(c.lineno for c, _ in cancels)
    for k, s, st in fl.exits:
        if s is not None and s.lineno < first and not (_xfacts(st) & absent):
            return False, f"line {s.lineno} leaves the function before the buffered timer is cancelled although the key may be buffered"
    return True, f"pops `{sem.cx(buf)}` under the key and cancels the popped timer whenever the key is buffered"


def cbf(ctx, handlers, cs):
    P = ctx.prog
    fi = P.func(f"{G.ROUTER}.gn_area_cbf_forwarding")
    fl = ctx.flows.get(fi)
    con = fi.short()
    timers = [c for c in P.calls_in(fi) if (dotted(c.func) or "").split(".")[-1] == "Timer"]
    if not timers:
        raise AnalysisError("C06: gn_area_cbf_forwarding arms no Timer")
    # the buffer and the key: the item store that files the armed timer
    filed = []
    for d in fl.defs.values():
        if d.kind == "substore" and d.value is not None and isinstance(d.extra, ast.Subscript) and id(d.stmt) in fl.before:
            st = fl.before[id(d.stmt)]
            v = fl.expand(d.value, st)
            if any(sem.cx(v) == sem.cx(fl.expand(t, fl.state_at(t))) for t in timers):
                filed.append((d.extra.value, fl.expand(d.extra.slice, st)))
    if len({(sem.cx(b), sem.cx(k)) for b, k in filed}) != 1:
        raise AnalysisError(f"C06: the armed CBF timer is filed under {len(filed)} (buffer, key) pairs (expected exactly one)")
    buf, key = filed[0]
    absent = _absent_atoms(buf, key)
    for i, c in enumerate(timers):
        facts = _xfacts(fl.state_at(c))
        ok = bool(facts & absent)
        ctx.ob("C06.cbf", con, f"timer#{i}:new-key-only", ok,
               "a contention timer is armed only when (source, SN) is not buffered yet" if ok else
               f"a contention timer is armed on a path where `{sem.cx(key)[:70]}` may already be buffered in {sem.cx(buf)}",
               f"{fi.module.rel}:{c.lineno}")
    # the timer's own callback: Timer.cancel() cannot stop a timer whose wait has already elapsed, so the callback itself must
    # re-broadcast ONLY when the copy is still in the buffer (decided on every path to the send: membership test, or the
    # value popped from the buffer found not None)
    for i, c in enumerate(timers):
        tgt = None
        if len(c.args) >= 2:
            tgt = c.args[1]
        for kw in c.keywords:
            if kw.arg in ("function", "target"):
                tgt = kw.value
        cbs = [m for m in (fi.cls.methods.values() if fi.cls else []) if tgt is not None and dotted(tgt) == f"self.{m.name}"]
        if not cbs:
            raise AnalysisError("C06: the CBF timer's callback is not a method of the router")
        cb = cbs[0]
        sends = [x for x in P.calls_in(cb) if G.is_ll_send(P, cb, x)]
        bufname = sem.cx(buf)
        kparam = cb.params[1] if len(cb.params) > 1 else None
        okc, npaths = bool(sends), 0
        pops = {}
        for n_ in ast.walk(cb.node):
            if isinstance(n_, ast.Assign) and isinstance(n_.targets[0], ast.Name) and isinstance(n_.value, ast.Call) and \
                    isinstance(n_.value.func, ast.Attribute) and n_.value.func.attr in ("pop", "get") and sem.cx(n_.value.func.value) == bufname:
                pops[n_.targets[0].id] = n_
        for snd in sends:
            for pc in sem.path_conditions(cb.node, snd, kill_rebound=False):
                npaths += 1
                present = f"in({kparam},{bufname})" in pc or any(f"!is(None,{v})" in pc or f"truthy({v})" in pc for v in pops)
                okc = okc and present
        ctx.ob("C06.cbf", cb.short(), f"timer#{i}:expiry-sends-only-buffered", okc and npaths > 0,
               f"the expiry callback re-broadcasts only on paths ({npaths}) that found the copy still buffered" if okc and npaths else
               "the expiry callback re-broadcasts without checking that the copy is still buffered: a copy whose duplicate was overheard "
               "while the timer was firing (cancel() comes too late) is transmitted anyway", cb.loc)
    ok, why = _cancel_on_present(ctx, fi, buf, key)
    ctx.ob("C06.cbf", con, "duplicate-cancels", ok,
           "a second reception of a buffered (source, SN): " + why, fi.loc)
    # overhear: the duplicate branch must be reachable for duplicates
    for caller, call in P.callers_of(fi):
        cfl = ctx.flows.get(caller, lifted=True)
        st = cfl.state_at(call)
        dpd = cs.called_before(caller, cfl, st, "LocationTableEntry.check_duplicate_sn")
        blocked = bool(dpd)
        handled = False
        for h in handlers:
            if caller.qual not in {f.qual for f in G.chain_of(h)}:
                continue
            want_keys = {sem.cx(x) for x in G.to_handler_terms(ctx, h, fi, key)}
            hfl = ctx.flows.get(h.fi, lifted=True)
            for n in ast.walk(h.fi.node):
                if not (isinstance(n, ast.ExceptHandler) and n.type is not None):
                    continue
                types = n.type.elts if isinstance(n.type, ast.Tuple) else [n.type]
                if not any(isinstance(P.resolve_expr_entity(h.fi.module, t), ClassInfo)
                           and P.resolve_expr_entity(h.fi.module, t).name == "DuplicatedPacketException" for t in types):
                    continue
                for c in [x for b in n.body for x in ast.walk(b) if isinstance(x, ast.Call)]:
                    for t in P.call_targets(h.fi, c, count=False):
                        if not (isinstance(t, FuncInfo) and t.cls is fi.cls and t.kind == "method"):
                            continue
                        amap = G.bind_args(t, c) or {}
                        for p in t.params[1:]:
                            okb, whyb = _cancel_on_present(ctx, t, buf, ast.Name(id=p, ctx=ast.Load()))
                            if not okb or p not in amap:
                                continue
                            handled = True
                            ctx.ob("C06.cbf-overhear", t.short(), "discards-buffered-copy", True, whyb, t.loc)
                            got = sem.cx(hfl.expand(amap[p], hfl.state_at(c)))
                            okk = want_keys == {got}
                            ctx.ob("C06.cbf-overhear", h.fi.short(), "overhear-key", okk,
                                   f"the overheard duplicate is looked up under `{got[:90]}`" + ("" if okk else
                                   f"; the CBF buffer is keyed by `{sorted(want_keys)}`: the lookup never matches and the "
                                   "buffered copy is re-broadcast although a duplicate was overheard"),
                                   f"{h.fi.module.rel}:{c.lineno}")
        ctx.ob("C06.cbf-overhear", caller.short(), "duplicate-reaches-cancel", (not blocked) or handled,
               "contention-based forwarding is entered only after check_duplicate_sn accepted the packet, and the "
               "DuplicatedPacketException handler does not remove and cancel the buffered copy: an overheard duplicate never "
               "cancels it (the cancel branch of gn_area_cbf_forwarding is dead)" if blocked and not handled else
               "duplicates reach the CBF cancel", f"{caller.module.rel}:{call.lineno}")


def _secured_forward(ctx) -> None:
    """A SECURED packet that is forwarded must leave as it came (RHL aside): the forwarders build the copy from the Basic
    Header and the bytes they are handed, so after verification the dispatcher has to hand on the received secured bytes -
    not only the plain message behind a Basic Header re-stamped NH=COMMON_HEADER (that copy would be emitted unsecured)."""
    P = ctx.prog
    psh = P.func(f"{G.ROUTER}.process_security_header")
    fl = ctx.flows.get(psh)
    calls = [c for c in P.calls_in(psh) if isinstance(c.func, ast.Attribute) and c.func.attr == "process_common_header"]
    if not calls:
        raise AnalysisError("C06: process_security_header no longer dispatches to process_common_header")
    pkt_params = [p_ for p_ in psh.params[1:] if p_ != "basic_header"]
    for i, c in enumerate(calls):
        st = fl.state_at(c)
        args = [fl.expand(a, st) for a in c.args] + [fl.expand(k.value, st) for k in c.keywords]
        plain = any(any(isinstance(n, ast.Attribute) and n.attr == "plain_message" for n in ast.walk(a)) for a in args)
        restamped = any(any(isinstance(n, ast.Call) and isinstance(n.func, ast.Attribute) and n.func.attr == "set_nh" for n in ast.walk(a)) for a in args)
        def outside_verify(a):
            """names of the received-bytes parameter that are NOT merely an input of the verify request"""
            hits = []

            def rec(n):
                if isinstance(n, ast.Attribute) and n.attr in ("plain_message", "report"):
                    return          # everything below is the verify call and its request
                if isinstance(n, ast.Name) and n.id in pkt_params:
                    hits.append(n.id)
                for ch in ast.iter_child_nodes(n):
                    rec(ch)
            rec(a)
            return hits
        keeps_secured = any(outside_verify(a) for a in args)
        ok = keeps_secured or not (plain and restamped)
        ctx.ob("C06.copy", psh.short(), f"dispatch#{i}:secured-forwarded-as-received", ok,
               "the forwarders are handed the received secured bytes" if ok else
               "after verification only the PLAIN message and a Basic Header re-stamped NH=COMMON_HEADER are handed on: every forwarder "
               "(GBC/GAC/TSB/GUC/LS) re-emits a secured packet UNSECURED - the copy differs from the received packet in far more than "
               "RHL, and a next hop with itsGnSecurity ENABLED drops it", f"{psh.module.rel}:{c.lineno}")
