"""C06 - multi-hop packets: at-most-once delivery and forwarding, shrinking hop budget.

Decides: duplicate-packet and duplicate-address detection dominate every delivery / forward / table update;
hop-limit guard (received RHL >= 2) and decrement by exactly one on every forwarded copy; what a forwarded copy is
made of (received common header, decoded extended header - DE PV refreshed only under a strict `newer` guard -,
residual payload, in order); DPL ring bookkeeping; CBF buffering discipline.
Does not decide: termination of floods over topologies, timer expiry points, SN wrap-around (value level).
"""
from __future__ import annotations

import ast
import re

from ..prog import AnalysisError, ClassInfo, FuncInfo, dotted, unparse
from ..match import CallSummaries, int_lower_bound, pretty
from . import gnutil as G

PROP = "C06"


def run(ctx):
    P = ctx.prog
    ctx.explanation = (
        "Must-call / guard / provenance rules (K1-K3) over the 8 receive handlers of the GN router, enumerated from the "
        "dispatcher on every run. For every delivery sink (GNDataIndication construction), forward sink (LinkLayer.send, "
        "deferred CBF packet) and location-table update the must-facts of all paths (lifted through the dispatcher and "
        "into forwarding helpers) must contain: the DPD call on the decoded sequence number (transitively through the "
        "location table's always-calls summaries), the DAD call on the decoded source address, a lower bound RHL >= 2 on "
        "the received header and a Basic Header equal to set_rhl(received RHL - 1); the other operands must be the "
        "received common header, the decoded extended header (DE PV replaced only under `LocT tst > packet tst`) and the "
        "residual payload. Path-universal: holds for every packet sequence because it holds on every path.")
    ctx.declined = ["flood termination over topologies", "timer expiry points / real time", "sequence-number wrap-around",
                    "DPL window length as a value"]
    cs = CallSummaries(P, ctx.flows)
    handlers = G.receive_handlers(ctx)
    ctx.extra["handlers"] = [h.fi.name for h in handlers]
    n_fwd = 0
    for h in handlers:
        sinks = G.sinks_of(ctx, h)
        if not sinks:
            raise AnalysisError(f"C06: handler {h.fi.name} has no sink")
        for i, s in enumerate(sinks):
            fl = G.flow_for(ctx, s.fi, h)
            st = fl.state_at(s.node)
            con = s.fi.short()
            disc = f"{s.kind}#{_ord(sinks, s)}"
            loc = f"{s.fi.module.rel}:{s.node.lineno}"
            in_handler = any(k == "handler" for _, k in fl.enclosing_handlers(s.node))
            ctx.ob("C06.dpd-first", con, f"{disc}:not-in-except", not in_handler,
                   f"{s.kind} sink inside an except handler (a duplicate/DAD rejection must reach no sink)", loc)
            # ---- DAD before everything
            dad = cs.called_before(s.fi, fl, st, "Router.duplicate_address_detection")
            ok = any(a and a[0].endswith(".gn_addr") for a in dad)
            ctx.ob("C06.dad-first", con, disc, ok,
                   f"{s.kind} sink " + (f"preceded by DAD on {dad[0][0][:60]}" if ok else
                                        f"NOT preceded on every path by duplicate_address_detection(<source GN address>) (found: {dad})"),
                   loc)
            if s.kind == "table-update":
                continue
            # ---- DPD before delivery / forward (multi-hop types only)
            if h.multi_hop:
                dpd = cs.called_before(s.fi, fl, st, "LocationTableEntry.check_duplicate_sn")
                ok = any(a and a[0].endswith(".sn") for a in dpd)
                ctx.ob("C06.dpd-first", con, disc, ok,
                       f"{s.kind} sink " + (f"preceded by check_duplicate_sn({dpd[0][0][:60]})" if ok else
                                            "NOT preceded on every path by the duplicate-packet check on the decoded sequence number"),
                       loc)
            # ---- forwards: RHL guard, decrement, copy
            if s.kind in ("send", "deferred-send"):
                for ops in G.assembled_packets(fl, s, st):
                    bh = ops[0]
                    if not (isinstance(bh, ast.Call) and isinstance(bh.func, ast.Attribute) and bh.func.attr == "encode_to_bytes"):
                        continue
                    bh_src = pretty(unparse(bh.func.value))
                    if "basic_header" not in bh_src or "initialize_with" in bh_src:
                        continue        # origination from a handler (LS reply), not a forwarded copy
                    n_fwd += 1
                    facts = st.facts
                    if re.fullmatch(r"\w+", bh_src) and bh_src in s.fi.params and s.fi is not h.fi:
                        # helper receives the header as a parameter: evaluate the argument at every call site
                        ctxs = []
                        for caller, call in P.callers_of(s.fi):
                            cfl = ctx.flows.get(caller, lifted=True)
                            cst = cfl.state_at(call)
                            idx = s.fi.params.index(bh_src) - (1 if s.fi.kind == "method" else 0)
                            arg = call.args[idx] if idx < len(call.args) else next(
                                (kw.value for kw in call.keywords if kw.arg == bh_src), None)
                            if arg is not None:
                                ctxs.append((pretty(unparse(cfl.expand(arg, cst))), cst.facts))
                        if len(ctxs) == 1:
                            bh_src, facts = ctxs[0]
                        elif ctxs:
                            bad = [c for c in ctxs if not re.fullmatch(r"(\w+)\.set_rhl\(\1\.rhl - 1\)", c[0])]
                            bh_src, facts = (bad or ctxs)[0]
                    m = re.fullmatch(r"(\w+)\.set_rhl\(\1\.rhl - 1\)", bh_src)
                    ctx.ob("C06.rhl", con, f"{disc}:decrement", bool(m),
                           f"forwarded Basic Header is `{bh_src}`; must be <received>.set_rhl(<received>.rhl - 1)", loc)
                    recv = m.group(1) if m else "basic_header"
                    lb = int_lower_bound(P, s.fi.module, facts, f"{recv}.rhl")
                    ctx.ob("C06.rhl", con, f"{disc}:guard", lb is not None and lb >= 2,
                           f"forward guarded by received RHL >= {lb}" if lb is not None and lb >= 2 else
                           f"forward not guarded by `received RHL - 1 > 0` on every path (lower bound established: {lb}); "
                           f"a packet received with RHL 0 or 1 is re-emitted" +
                           (" with RHL 255 (set_rhl reduces modulo 256)" if lb is None else ""), loc)
                    # ---- copy: common header, extended header, payload
                    rest = [pretty(unparse(o)) for o in ops[1:]]
                    ok_ch = len(rest) >= 1 and rest[0] == "common_header.encode_to_bytes()"
                    ctx.ob("C06.copy", con, f"{disc}:common", ok_ch,
                           f"second operand `{rest[0] if rest else ''}` must be the received common header unchanged", loc)
                    ok_ext, why = _ext_ok(ctx, h, s, fl, st, ops[2] if len(ops) > 2 else None)
                    ctx.ob("C06.copy", con, f"{disc}:extended", ok_ext, why, loc)
                    pay = rest[2:] if len(rest) > 2 else []
                    ok_pay = len(pay) == 1 and (re.fullmatch(r"packet(\[\d+:\])+", pay[0]) is not None or pay[0] in ("packet", "payload"))
                    ctx.ob("C06.copy", con, f"{disc}:payload", ok_pay,
                           f"payload operand(s) {pay}: must be exactly the residual of the received packet", loc)
    ctx.floor("C06.dad-first", 20, "sinks")
    ctx.floor("C06.dpd-first", 30)
    if n_fwd < 8:
        raise AnalysisError(f"C06: only {n_fwd} forwarded-copy assemblies recognised (confirmed: 10)")
    dpl_ring(ctx)
    cbf(ctx, handlers, cs)


def _ord(sinks, s) -> int:
    same = [x for x in sinks if x.kind == s.kind and x.fi is s.fi]
    return same.index(s)


def _ext_ok(ctx, h, s, fl, st, op):
    """Extended header operand: the decoded header itself, or a copy that only refreshes DE PV under a strict-newer guard."""
    if op is None or not (isinstance(op, ast.Call) and isinstance(op.func, ast.Attribute) and op.func.attr == "encode"):
        return False, "third operand must be <extended header>.encode()"
    src = pretty(unparse(op.func.value))
    dec = pretty(unparse(fl.expand(h.decode_call, fl.state_at(h.decode_call)))) if s.fi is h.fi else None
    if src == dec or re.fullmatch(r"\w+", src):
        return True, f"extended header operand `{src[:70]}` is the decoded header"
    if "de_pv" in src and (".with_de_pv(" in src or "de_pv=" in src):
        # the refreshed copy: its construction site must be guarded by `<LocT pv>.tst > <header>.de_pv.tst`
        guard = None
        for n in ast.walk(s.fi.node):
            if isinstance(n, ast.Assign) and ("with_de_pv(" in unparse(n.value) or "de_pv=" in unparse(n.value)) \
                    and isinstance(n.targets[0], ast.Name) and id(n) in fl.before and "ExtendedHeader" not in unparse(n.value)[:0]:
                if not ("with_de_pv(" in unparse(n.value) or "__class__(" in unparse(n.value) or "ExtendedHeader(" in unparse(n.value)):
                    continue
                facts = fl.before[id(n)].facts
                g = [f for f in facts if f.kind == "cond" and f.pol and isinstance(f.xnode, ast.Compare)
                     and isinstance(f.xnode.ops[0], ast.Gt)
                     and pretty(unparse(f.xnode.left)).endswith(".position_vector.tst")
                     and pretty(unparse(f.xnode.comparators[0])).endswith(".de_pv.tst")]
                guard = g[0] if g else False
        if guard:
            return True, f"DE PV refreshed only under `{pretty(guard.xkey)[:90]}`"
        return False, ("forwarded header has its DE PV replaced without the strict guard `<LocT PV>.tst > <packet DE PV>.tst` "
                       "(TST order is wrap-around aware; a subtraction or >= refreshes with older/equal vectors)")
    return False, f"extended header operand `{src[:80]}` is neither the decoded header nor a guarded DE-PV refresh"


def dpl_ring(ctx):
    P = ctx.prog
    fi = P.func("geonet.location_table.LocationTableEntry.check_duplicate_sn")
    fl = ctx.flows.get(fi)
    con = fi.short()
    raises = [(s, st) for k, s, st in fl.exits if k == "raise"]
    normal = [st for k, s, st in fl.exits if k in ("fall", "return")]
    ok_r = bool(raises) and all(any(f.kind == "cond" and f.pol and pretty(f.xkey) == "sn in self.dpl_set" for f in st.facts)
                                for _, st in raises)
    ctx.ob("C06.dpl-ring", con, "raise-iff-member", ok_r,
           "DuplicatedPacketException is raised exactly under `sn in self.dpl_set`", fi.loc)
    ins_before_raise = any(any(f.kind == "call" and (".append(" in f.key or ".add(" in f.key) for f in st.facts) for _, st in raises)
    ctx.ob("C06.dpl-ring", con, "raise-before-insert", not ins_before_raise,
           "the duplicate is rejected before any insertion into the DPL", fi.loc)
    for need, txt in (("self.dpl_deque.append(sn)", "ring append"), ("self.dpl_set.add(sn)", "set add")):
        ok = bool(normal) and all(any(f.kind == "call" and pretty(f.xkey) == need for f in st.facts) for st in normal)
        ctx.ob("C06.dpl-ring", con, txt, ok, f"every accepted SN is recorded by `{need}`", fi.loc)
    # the only ways an SN leaves / enters the list are the four paired operations (no clear, rebind, slice, remove)
    from ..locks import LockAnalysis
    la = LockAnalysis(ctx)
    muts = []
    for fld in ("dpl_set", "dpl_deque"):
        for a in la.accesses("geonet.location_table.LocationTableEntry", fld):
            if a.kind != "read":
                muts.append((fld, a.how, a.fi.short(), a.line))
    allowed = {("dpl_set", ".add()"), ("dpl_set", ".discard()"), ("dpl_deque", ".append()"), ("dpl_deque", ".popleft()")}
    bad = [m for m in muts if (m[0], m[1]) not in allowed or m[2] != con]
    cnt = {k: sum(1 for m in muts if (m[0], m[1]) == k) for k in allowed}
    ctx.ob("C06.dpl-ring", con, "only-paired-mutations", not bad and all(v == 1 for v in cnt.values()),
           "the duplicate packet list is only changed by one add/append and one popleft/discard" if not bad and all(v == 1 for v in cnt.values())
           else f"the duplicate packet list is also changed by {[(m[0] + m[1], m[2].split('.')[-1], m[3]) for m in bad] or cnt}: "
                "sequence numbers can leave the list while still inside the window (a late duplicate is delivered again)", fi.loc)
    # eviction pairing
    disc = [c for c in P.calls_in(fi) if isinstance(c.func, ast.Attribute) and c.func.attr == "discard"]
    pops = [c for c in P.calls_in(fi) if isinstance(c.func, ast.Attribute) and c.func.attr == "popleft"]
    ok = len(disc) == 1 and len(pops) == 1
    if ok:
        st = fl.state_at(disc[0])
        arg = pretty(unparse(fl.expand(disc[0].args[0], st)))
        ok = arg == "self.dpl_deque.popleft()"
        g = any(f.kind == "cond" and f.pol and "len(self.dpl_deque) == self.dpl_deque.maxlen" == pretty(f.xkey) for f in fl.state_at(pops[0]).facts)
        ctx.ob("C06.dpl-ring", con, "evict-when-full", g, "oldest SN evicted only when the ring is full", fi.loc)
    ctx.ob("C06.dpl-ring", con, "evict-paired", ok, "the SN popped from the ring is the one discarded from the set", fi.loc)


def cbf(ctx, handlers, cs):
    P = ctx.prog
    fi = P.func(f"{G.ROUTER}.gn_area_cbf_forwarding")
    fl = ctx.flows.get(fi)
    con = fi.short()
    timers = [c for c in P.calls_in(fi) if (dotted(c.func) or "").split(".")[-1] == "Timer"]
    for i, c in enumerate(timers):
        st = fl.state_at(c)
        ok = any(f.kind == "cond" and (not f.pol) and pretty(f.xkey).endswith("in self._cbf_buffer") for f in st.facts)
        ctx.ob("C06.cbf", con, f"timer#{i}:new-key-only", ok,
               "a contention timer is armed only when (source, SN) is not buffered yet", f"{fi.module.rel}:{c.lineno}")
    cancels = [c for c in P.calls_in(fi) if isinstance(c.func, ast.Attribute) and c.func.attr == "cancel"]
    dup_branch = False
    for c in cancels:
        st = fl.state_at(c)
        if any(f.kind == "call" and "_cbf_buffer.pop(" in f.key for f in st.facts):
            dup_branch = True
    ctx.ob("C06.cbf", con, "duplicate-cancels", dup_branch,
           "a second reception of a buffered (source, SN) pops and cancels the pending timer", fi.loc)
    # overhear: the duplicate branch must be reachable for duplicates
    for caller, call in P.callers_of(fi):
        cfl = ctx.flows.get(caller, lifted=True)
        st = cfl.state_at(call)
        dpd = cs.called_before(caller, cfl, st, "LocationTableEntry.check_duplicate_sn")
        blocked = bool(dpd)
        handled = False
        for h in handlers:
            if caller in [h.fi] + h.helpers:
                for n in ast.walk(h.fi.node):
                    if isinstance(n, ast.ExceptHandler) and n.type is not None and "DuplicatedPacketException" in unparse(n.type):
                        if any(isinstance(x, ast.Call) and ("cbf" in unparse(x.func).lower()) for b in n.body for x in ast.walk(b)):
                            handled = True
        ctx.ob("C06.cbf-overhear", caller.short(), "duplicate-reaches-cancel", (not blocked) or handled,
               "contention-based forwarding is entered only after check_duplicate_sn accepted the packet, and the "
               "DuplicatedPacketException handler does not touch the CBF buffer: an overheard duplicate never cancels the "
               "buffered copy (the cancel branch of gn_area_cbf_forwarding is dead)" if blocked and not handled else
               "duplicates reach the CBF cancel", f"{caller.module.rel}:{call.lineno}")
