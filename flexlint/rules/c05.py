"""C05 - honestly signed messages are accepted by every station sharing the trust root (TS 103 097 clause 7.1 profiles).

Decides: agreement between what the signers sign / emit and what the verifier recomputes / accepts (tbs-agree: the TBS
encoding is taken of the tbsData of the very object that is emitted, payload = the request's message, the signature
stored is the looked-up ticket's over those bytes, nothing under tbsData is written after the TBS encoding, no live
reference to shared mutable state is stored into the signed structure); per-profile header fields (profile-keys: keys
always / optionally emitted by each signer = the clause 7.1 table, psid and generationTime provenance, and per PSID no
verifier exit refuses what the serving signer emits; the verifier insists on a certificate for DENM); signer kind per
profile (signer-kind: DENM certificate, generic digest, CAM/VAM through set_up_signer, which answers the certificate
exactly under `elapsed > 1 s or a peer asked`, restarts timer and flag there, the digest otherwise; sign_request serves
each PSID by its profile's signer) and who may write that state (inclusion-state: only set_up_signer, notifications only
set the flag); the ticket used for signing (signing-ticket: an own certificate covering the request's ITS-AID, a missing
one raises); the P2PCD plumbing (p2pcd: unknown digest / issuer reported, verified inline request and requested
certificate relayed, unknown ticket queued and own certificate scheduled - also when a received request lists an own
id -, pending requests attached to the next CAM/VAM);
source-side encapsulation of the router (router-encap: which signer serves each security profile, signed bytes = common
header || extended header || payload as the receiver parses them, ITS-AID and length from the request, and at every
send the signed message follows a Basic Header re-stamped NH=SECURED_PACKET in the block that signs, while an emission
without a secured alternative never carries that re-stamped header in front of clear bytes).
A ticket answered as verified by verify_sequence_of_certificates is the very value handed to add_authorization_ticket on
the way (learns-ticket): otherwise the signer's following digest-only messages are not accepted.
Does not decide acceptance "within two further exchanges" over histories of joins, real-time behaviour of the 1 s timer,
anything cryptographic.
"""
from __future__ import annotations

import ast
import copy
import re

from ..prog import AnalysisError, ClassInfo, FuncInfo, dotted, unparse
from ..locks import LockAnalysis
from ..match import pretty
from .. import sem
from . import secutil as SU
from .secutil import norm

PROP = "C05"
SS = "security.sign_service.SignService"
CAMH = "security.sign_service.CooperativeAwarenessMessageSecurityHandler"
VS = "security.verify_service.VerifyService"
ROUTER = "geonet.router.Router"

PROFILE = {   # signer method -> (PSIDs it serves, always, optional)   [TS 103 097 V2.1.1 clause 7.1.1 / 7.1.2 / 7.1.3]
    "sign_cam": ((36, 638), {"psid", "generationTime"}, {"inlineP2pcdRequest", "requestedCertificate"}),
    "sign_denm": ((37,), {"psid", "generationTime", "generationLocation"}, set()),
    "sign_other": ((139,), {"psid", "generationTime"}, set()),
}


def _path(node) -> str:
    """Subscript chain as /a/b/c with constant keys."""
    parts = []
    while isinstance(node, ast.Subscript):
        k = node.slice
        parts.append(str(k.value) if isinstance(k, ast.Constant) else "?")
        node = node.value
    return (dotted(node) or "?") + "/" + "/".join(reversed(parts))


def _dict_at(d: ast.AST, keys: list):
    """Navigate a dict / tuple literal by constant keys / indices."""
    cur = d
    for k in keys:
        if isinstance(cur, ast.Dict):
            nxt = None
            for kk, vv in zip(cur.keys, cur.values):
                if isinstance(kk, ast.Constant) and kk.value == k:
                    nxt = vv
            cur = nxt
        elif isinstance(cur, ast.Tuple) and isinstance(k, int) and k < len(cur.elts):
            cur = cur.elts[k]
        else:
            return None
        if cur is None:
            return None
    return cur


KIND = {"sign_cam": {"digest", "certificate"}, "sign_denm": {"certificate"}, "sign_other": {"digest"}}   # signer choice per profile


def _load(e: ast.AST) -> ast.AST:
    e = copy.deepcopy(e)
    for n in ast.walk(e):
        if hasattr(n, "ctx"):
            n.ctx = ast.Load()
    return e


def _rooted_path(fl, expr: ast.AST, st, root_x: ast.AST):
    """`expr` (expanded in st) is a constant-key subscript chain below the object `root_x` -> '/k1/k2' else None."""
    x = fl.expand(_load(expr), st)
    parts = []
    want = unparse(root_x)
    while True:
        if unparse(x) == want:
            return "".join("/" + str(p) for p in reversed(parts))
        if isinstance(x, ast.Subscript):
            parts.append(x.slice.value if isinstance(x.slice, ast.Constant) else "?")
            x = x.value
            continue
        return None


def _no_loop(fl, node) -> bool:
    cur = fl.parent.get(id(node))
    while cur is not None and cur is not fl.fi.node:
        if isinstance(cur, (ast.For, ast.While, ast.AsyncFor)):
            return False
        cur = fl.parent.get(id(cur))
    return True


def signers(ctx):
    P = ctx.prog
    ss = P.cls(SS)
    emitted = {}
    for name, (psids, always, optional) in PROFILE.items():
        fi = ss.methods.get(name)
        if fi is None:
            raise AnalysisError(f"C05: signer {name} vanished")
        if len(fi.params) < 2:
            raise AnalysisError(f"C05: {name} lost its request parameter")
        req = fi.params[1]
        fl = ctx.flows.get(fi)
        calls = P.calls_in(fi)
        encs = [c for c in calls if isinstance(c.func, ast.Attribute) and c.func.attr == "encode_etsi_ts_103097_data_signed" and c.args]
        tbss = [c for c in calls if isinstance(c.func, ast.Attribute) and c.func.attr == "encode_to_be_signed_data" and c.args]
        if len(encs) != 1 or len(tbss) != 1:
            raise AnalysisError(f"C05: {name}: TBS / final encoding call not found exactly once ({len(tbss)}/{len(encs)})")
        enc, tbsc = encs[0], tbss[0]
        st_enc = fl.state_at(enc)
        # the message object: what is handed to the final encoder; it must have been built as a dictionary literal
        root_x = fl.expand(enc.args[0], st_enc)
        if not isinstance(root_x, ast.Dict):
            raise AnalysisError(f"C05: {name} no longer builds the emitted message as a dict literal")
        dvar = unparse(enc.args[0])
        dlit = root_x
        hi = _dict_at(dlit, ["content", 1, "tbsData", "headerInfo"])
        lit_keys = {k.value for k in hi.keys if isinstance(k, ast.Constant)} if isinstance(hi, ast.Dict) else set()
        tp = _rooted_path(fl, tbsc.args[0], fl.state_at(tbsc), root_x)
        ctx.ob("C05.tbs-agree", fi.short(), "signs-own-tbsData", tp == "/content/1/tbsData",
               f"the bytes signed are the encoding of `{unparse(tbsc.args[0])}` = message{tp} (must be the tbsData of the message being built)",
               f"{fi.module.rel}:{tbsc.lineno}")
        ctx.ob("C05.tbs-agree", fi.short(), "emits-same-object", isinstance(enc.args[0], ast.Name),
               f"the message emitted is the object whose tbsData was signed (`{unparse(enc.args[0])}`)", f"{fi.module.rel}:{enc.lineno}")
        tbs_line = tbsc.lineno
        # every write into the message object: (path, value expr | None, statement, description)
        stores = []
        for n in ast.walk(fi.node):
            if isinstance(n, (ast.Assign, ast.AugAssign, ast.AnnAssign)):
                tgts = n.targets if isinstance(n, ast.Assign) else [n.target]
                for t in tgts:
                    if isinstance(t, ast.Subscript):
                        pth = _rooted_path(fl, t, fl.state_at(n), root_x)
                        if pth is not None:
                            stores.append((pth, n.value if isinstance(n, ast.Assign) else None, n, "store"))
            elif isinstance(n, ast.Delete):
                for t in n.targets:
                    if isinstance(t, ast.Subscript):
                        pth = _rooted_path(fl, t, fl.state_at(n), root_x)
                        if pth is not None:
                            stores.append((pth, None, n, "del"))
            elif isinstance(n, ast.Call) and isinstance(n.func, ast.Attribute) and n.func.attr in fl.MUTATORS:
                pth = _rooted_path(fl, n.func.value, fl.state_at(n), root_x)
                if pth is None:
                    continue
                if n.func.attr == "update" and len(n.args) == 1 and isinstance(n.args[0], ast.Dict) and not n.keywords and \
                        all(isinstance(k, ast.Constant) for k in n.args[0].keys):
                    for k, v in zip(n.args[0].keys, n.args[0].values):
                        stores.append((f"{pth}/{k.value}", v, n, "store"))
                else:
                    stores.append((pth, None, n, f".{n.func.attr}()"))
        opt_keys = set()
        for path, v, st_, how in stores:
            last = path.split("/")[-1]
            loc = f"{fi.module.rel}:{st_.lineno}"
            if path.startswith("/content/1/tbsData"):
                before = st_.lineno < tbs_line and _no_loop(fl, st_) and _no_loop(fl, tbsc)
                ctx.ob("C05.tbs-agree", fi.short(), f"store-before-signing:{last}", before,
                       f"`{dvar}{path}` is written at line {st_.lineno}, the TBS encoding happens at line {tbs_line}: signed content "
                       + ("is complete before it is signed" if before else "changes AFTER it was signed (receivers recompute a different hash)"), loc)
                if how != "store" or v is None:
                    ctx.ob("C05.tbs-agree", fi.short(), f"store:{last}:{how}", False,
                           f"`{dvar}{path}` is modified by `{unparse(st_)[:60]}`: effect on the signed structure not recognised", loc)
                    continue
                if path == "/content/1/tbsData/headerInfo/" + last:
                    opt_keys.add(last)
                # aliasing: a bare reference to shared mutable state inside the signed structure can change between the encodings
                xv = fl.expand(v, fl.state_at(st_))
                alias = (dotted(xv) or "").startswith("self.")
                ctx.ob("C05.tbs-agree", fi.short(), f"no-shared-alias:{last}", not alias,
                       f"`{dvar}{path}` = `{pretty(unparse(xv))[:80]}`" + (" - a live reference to a shared list: notify_unknown_at() running on the receive "
                                                                  "thread between the TBS encoding and the final encoding changes the signed "
                                                                  "content, and the emitted signature no longer verifies" if alias else
                                                                  " (a value / copy)"), loc)
            else:
                ok = path in ("/content/1/signer", "/content/1/signature", "/content/1/signer/1") and how == "store"
                ctx.ob("C05.tbs-agree", fi.short(), f"store:{last}", ok,
                       f"store to `{dvar}{path}` (only signer / signature may be filled in after signing)", loc)
        # profile keys
        ctx.ob("C05.profile-keys", fi.short(), "always", lit_keys == always,
               f"{name} always emits headerInfo {sorted(lit_keys)}; clause 7.1 profile requires exactly {sorted(always)}",
               f"{fi.module.rel}:{fi.node.lineno}")
        ctx.ob("C05.profile-keys", fi.short(), "optional", opt_keys <= optional,
               f"{name} may additionally emit {sorted(opt_keys)}; the profile allows {sorted(optional)}", fi.loc)
        emitted[name] = (psids, lit_keys, opt_keys)
        # payload and psid provenance (values of the literal, locals expanded)
        pay = _dict_at(dlit, ["content", 1, "tbsData", "payload", "data", "content", 1])
        ctx.ob("C05.tbs-agree", fi.short(), "payload", pay is not None and sem.same(pay, f"{req}.tbs_message"),
               f"signed payload = `{pretty(unparse(pay)) if pay is not None else None}`", fi.loc)
        ps = _dict_at(hi, ["psid"]) if isinstance(hi, ast.Dict) else None
        ctx.ob("C05.profile-keys", fi.short(), "psid-from-request", ps is not None and sem.same(ps, f"{req}.its_aid"),
               "headerInfo.psid is the request's ITS-AID", fi.loc)
        gt = _dict_at(hi, ["generationTime"]) if isinstance(hi, ast.Dict) else None
        ctx.ob("C05.profile-keys", fi.short(), "generationTime-us", gt is not None and sem.same(gt, "TimeService.timestamp_its() * 1000"),
               "generationTime is the ITS timestamp in microseconds (ms x 1000)", fi.loc)
        # signing ticket
        at_calls = [c for c in _service_calls(P, fi, "SignService", "get_present_at_for_signging") if sem.same(c.func.value, "self")]
        ok = len(at_calls) == 1 and len(at_calls[0].args) == 1 and not at_calls[0].keywords and \
            sem.same(fl.expand(at_calls[0].args[0], fl.state_at(at_calls[0])), f"{req}.its_aid")
        ctx.ob("C05.signing-ticket", fi.short(), "ticket-for-its-aid", ok, "the signing ticket is looked up for the request's ITS-AID", fi.loc)
        T = unparse(fl.expand(at_calls[0], fl.state_at(at_calls[0]))) if at_calls else "None"
        raises = [s for k, s, st in fl.exits if k == "raise"]
        none_raise = any(sem.holds(xatoms(fl, s), f"{T} is None") or sem.holds(xatoms(fl, s), f"not {T}") for s in raises)
        ctx.ob("C05.signing-ticket", fi.short(), "no-ticket-raises", none_raise, "a missing ticket raises instead of signing with another", fi.loc)
        # the signature is the ticket's signature over the TBS encoding
        sigs = [(v, n) for pth, v, n, how in stores if pth == "/content/1/signature" and how == "store" and v is not None]
        TBS = unparse(fl.expand(tbsc, fl.state_at(tbsc)))
        ok = len(sigs) == 1 and sem.same(fl.expand(sigs[0][0], fl.state_at(sigs[0][1])), f"{T}.sign_message(self.ecdsa_backend, {TBS})")
        ctx.ob("C05.tbs-agree", fi.short(), "signature-over-tbs-bytes", ok,
               "the signature stored is the looked-up ticket's signature over the TBS encoding of this message", fi.loc)
        # signer kind
        sg = [(v, n) for pth, v, n, how in stores if pth == "/content/1/signer" and how == "store" and v is not None]
        sgx = fl.expand(sg[0][0], fl.state_at(sg[0][1])) if len(sg) == 1 else None
        shown = pretty(unparse(sgx))[:100] if sgx is not None else None
        if name == "sign_denm":
            ctx.ob("C05.signer-kind", fi.short(), "always-certificate", sgx is not None and sem.same(sgx, f"('certificate', [{T}.certificate])"),
                   f"DENM signer = `{shown}`; clause 7.1.2: always the certificate", fi.loc)
        elif name == "sign_cam":
            ctx.ob("C05.signer-kind", fi.short(), "digest-or-certificate", sgx is not None and sem.same(sgx, f"self.cam_handler.set_up_signer({T})"),
                   f"CAM/VAM signer = `{shown}` (alternation handled by set_up_signer)", fi.loc)
        elif name == "sign_other":
            ctx.ob("C05.signer-kind", fi.short(), "digest", sgx is not None and sem.same(sgx, f"('digest', {T}.as_hashedid8())"),
                   f"generic signer = `{shown}`", fi.loc)
    ctx.floor("C05.tbs-agree", 22)
    return emitted


def generic_dispatch(ctx):
    """SignService.sign_request hands each ITS-AID to the signer of its profile (PROFILE table): a DENM (PSID 37) routed to
    the generic signer would lack generationLocation / the certificate signer and be refused by every verifier."""
    P = ctx.prog
    fi = P.func(f"{SS}.sign_request")
    fl = ctx.flows.get(fi)
    if len(fi.params) < 2:
        raise AnalysisError("C05: sign_request lost its request parameter")
    req = fi.params[1]
    calls = [c for c in _service_calls(P, fi, "SignService", "sign_") if sem.same(c.func.value, "self")]
    home = {p: name for name, (psids, _a, _o) in PROFILE.items() for p in psids}
    for psid in sorted(home):
        reach = sorted({c.func.attr for c in calls if reachable_under(P, fl, fi, c, lambda e: sem.same(e, f"{req}.its_aid"), psid)})
        same_req = all(len(c.args) == 1 and not c.keywords and sem.same(c.args[0], req) for c in calls if c.func.attr in reach)
        if home[psid] == "sign_cam":
            # CAM / VAM are signed by the router through sign_cam directly; the generic entry may refuse or use a compatible profile
            ok = set(reach) <= ({"sign_cam"} if psid == 36 else {"sign_cam", "sign_other"})
        else:
            ok = reach == [home[psid]]
        ctx.ob("C05.signer-kind", fi.short(), f"psid{psid}:dispatch", ok and same_req,
               f"sign_request(its_aid={psid}) is served by {reach or 'nothing'}; the profile table assigns {home[psid]}"
               + ("" if same_req else " (and the request handed on is not the one received)"), fi.loc)


def get_ticket(ctx):
    P = ctx.prog
    fi = P.func(f"{SS}.get_present_at_for_signging")
    fl = ctx.flows.get(fi)
    if len(fi.params) < 2:
        raise AnalysisError("C05: get_present_at_for_signging lost its ITS-AID parameter")
    aid = fi.params[1]
    n = 0
    own = True
    for k, s, st in fl.exits:
        if k != "return" or s.value is None or P.try_fold(fi.module, s.value, default="x") is None:
            continue
        n += 1
        x = fl.expand(s.value, st)
        d = SU.for_def(fl, x.id) if isinstance(x, ast.Name) else None
        covers = d is not None and sem.holds(SU.vatoms(fl, s), f"{aid} in {x.id.replace('@', '__v')}.get_list_of_its_aid()")
        ctx.ob("C05.signing-ticket", fi.short(), "covers-its-aid", covers,
               "the ticket returned lists the requested ITS-AID among its appPermissions", f"{fi.module.rel}:{s.lineno}")
        own = own and d is not None and sem.same(SU.unwrap_collection(SU.for_iter(fl, d)), "self.certificate_library.own_certificates.values()")
    ctx.ob("C05.signing-ticket", fi.short(), "own-only", own and n > 0, "only own certificates are candidates", fi.loc)


def _kleene_and(vals):
    return False if any(v is False for v in vals) else (True if all(v is True for v in vals) else None)


def _kleene_or(vals):
    return True if any(v is True for v in vals) else (False if all(v is False for v in vals) else None)


class MessageModel:
    """What an honestly signed message looks like to verify(): PSID, headerInfo keys present, signer choice.  Evaluates
    verify()'s (expanded) conditions to True / False / None (does not depend on the model)."""

    def __init__(self, P, fi, fl, root: str):
        self.P, self.fi, self.fl, self.root = P, fi, fl, root

    def is_hi(self, e) -> bool:
        return SU.is_header_info(e, self.root)

    def is_psid(self, e) -> bool:
        return SU.header_field(e, self.root) == "psid"

    def is_kind(self, e) -> bool:
        return sem.same(e, f"{self.root}['signer'][0]")

    def loop_values(self, name: str):
        """constants a loop variable token ranges over (literal collection), else None"""
        d = SU.for_def(self.fl, name)
        if d is None:
            return None
        it = SU.unwrap_collection(SU.for_iter(self.fl, d))
        if isinstance(it, (ast.Set, ast.List, ast.Tuple)) and all(isinstance(x, ast.Constant) for x in it.elts):
            return [x.value for x in it.elts]
        return None

    def val(self, e, m):
        """(known, value) of a scalar expression under model m"""
        if self.is_psid(e):
            return True, m["psid"]
        if self.is_kind(e):
            return True, m["kind"]
        if isinstance(e, ast.Name) and e.id in m["bind"]:
            return True, m["bind"][e.id]
        k = self.P.try_fold(self.fi.module, e, default="<nc>")
        return (k != "<nc>"), k

    def ev(self, node, m):
        if isinstance(node, ast.BoolOp):
            vals = [self.ev(v, m) for v in node.values]
            return _kleene_and(vals) if isinstance(node.op, ast.And) else _kleene_or(vals)
        if isinstance(node, ast.UnaryOp) and isinstance(node.op, ast.Not):
            v = self.ev(node.operand, m)
            return None if v is None else (not v)
        if isinstance(node, ast.Compare) and len(node.ops) == 1:
            op, l, r = node.ops[0], node.left, node.comparators[0]
            if isinstance(op, (ast.Eq, ast.NotEq, ast.Is, ast.IsNot)):
                if not any(self.is_psid(x) or self.is_kind(x) for x in (l, r)):
                    return None
                (kl, vl), (kr, vr) = self.val(l, m), self.val(r, m)
                if not (kl and kr):
                    return None
                res = vl == vr
                return res if isinstance(op, (ast.Eq, ast.Is)) else not res
            if isinstance(op, (ast.In, ast.NotIn)):
                res = None
                if self.is_hi(r):
                    k, v = self.val(l, m)
                    if k and isinstance(v, str):
                        res = v in m["keys"]
                elif (self.is_psid(l) or self.is_kind(l)) and isinstance(r, (ast.Tuple, ast.List, ast.Set)):
                    k, v = self.val(l, m)
                    ks = [self.val(x, m) for x in r.elts]
                    if any(kk and vv == v for kk, vv in ks):
                        res = True
                    elif all(kk for kk, vv in ks):
                        res = False
                if res is None:
                    return None
                return res if isinstance(op, ast.In) else not res
        return None


def verifier_vs_signers(ctx, emitted):
    """No profile check of verify() refuses what a signer honestly emits: for every signer, PSID it serves, subset of its
    optional headerInfo keys and signer choice, no rejecting exit of verify() is decided by PSID / key presence / signer
    choice alone."""
    P = ctx.prog
    vf = P.func(f"{VS}.verify")
    fl = ctx.flows.get(vf)
    if len(vf.params) < 2:
        raise AnalysisError("C05: VerifyService.verify lost its request parameter")
    root = SU.signed_root(vf.params[1])
    mm = MessageModel(P, vf, fl, root)
    exits = []     # (report, index among same report, return stmt, deciding (node, pol), facts, loop bindings)
    seen = {}
    for k, s, st in fl.exits:
        if k != "return":
            continue
        rep = _report(P, vf, fl, s, st)
        if rep is None or rep == "SUCCESS":
            continue
        par = fl.parent.get(id(s))
        if not isinstance(par, ast.If):
            continue
        pol = s in par.body
        test = fl.expand(par.test, fl.state_at(par))
        facts = [(f.xnode, f.pol) for f in st.facts if f.kind == "cond"]
        loops = {}
        for node, _ in facts + [(test, pol)]:
            for n in ast.walk(node):
                if isinstance(n, ast.Name) and n.id not in loops:
                    vs = mm.loop_values(n.id)
                    if vs is not None:
                        loops[n.id] = vs
        idx = seen.get(rep, 0)
        seen[rep] = idx + 1
        exits.append((rep, idx, s, (test, pol), facts, loops))

    def models(name, p, lit_keys, opt_keys, kinds, loops):
        opt = sorted(opt_keys)
        for mask in range(1 << len(opt)):
            keys = set(lit_keys) | {k for i, k in enumerate(opt) if mask >> i & 1}
            for kind in sorted(kinds):
                binds = [{}]
                for tok, vs in loops.items():
                    binds = [dict(b, **{tok: v}) for b in binds for v in vs]
                for b in binds:
                    yield {"psid": p, "keys": keys, "kind": kind, "bind": b}

    def refuses(ex, m):
        rep, idx, s, (test, pol), facts, loops = ex
        d = mm.ev(test, m)
        if d is None:
            return None
        if d != pol:
            return False
        for node, fp in facts:
            v = mm.ev(node, m)
            if v is not None and v != fp:
                return False
        return True
    decidable = set()
    for name, (psids, lit_keys, opt_keys) in emitted.items():
        for p in psids:
            for ex in exits:
                res = [(refuses(ex, m), m) for m in models(name, p, lit_keys, opt_keys, KIND[name], ex[5])]
                if all(r is None for r, m in res):
                    continue
                decidable.add((ex[0], ex[1]))
                bad = [m for r, m in res if r is True]
                why = ""
                if bad:
                    m = bad[0]
                    why = (f"refuses a PSID {p} message signed by {name} with headerInfo {sorted(m['keys'])} and signer choice "
                           f"'{m['kind']}'" + (f" (checked field {list(m['bind'].values())})" if m["bind"] else "") +
                           ": honestly signed messages of this profile are refused")
                ctx.ob("C05.profile-keys", vf.short(), f"psid{p}:{name}:{ex[0]}#{ex[1]}", not bad,
                       f"verify() exit {ex[0]} (line {ex[2].lineno}) " + (why or f"never refuses what {name} emits for PSID {p}"),
                       f"{vf.module.rel}:{ex[2].lineno}")
    if len(decidable) < 4:
        raise AnalysisError(f"C05: only {len(decidable)} profile-deciding exits recognised in VerifyService.verify (confirmed: 5)")
    # the one strictness clause of 7.1.2 the profile relies on: a DENM under a digest signer is refused
    always_denm = PROFILE["sign_denm"][1]
    ok = False
    for ex in exits:
        for b in ([{}] if not ex[5] else []):
            if refuses(ex, {"psid": 37, "keys": set(always_denm), "kind": "digest", "bind": b}) is True:
                ok = True
    ctx.ob("C05.profile-keys", vf.short(), "denm-needs-certificate", ok,
           "verifier insists on a certificate signer for PSID 37", vf.loc)
    ctx.floor("C05.profile-keys", 33)


def inclusion_state(ctx):
    P = ctx.prog
    la = LockAnalysis(ctx)
    h = P.cls(CAMH)
    sus = h.methods["set_up_signer"]
    fl = ctx.flows.get(sus)
    if len(sus.params) < 2:
        raise AnalysisError("C05: set_up_signer lost its certificate parameter")
    cert_p = sus.params[1]
    cert_form, digest_form = f"('certificate', [{cert_p}.certificate])", f"('digest', {cert_p}.as_hashedid8())"
    elapsed = "TimeService.time() - self.last_signer_full_certificate_time"
    triggers = [sorted(sem.want(f"{elapsed} > {one} or self.requested_own_certificate")) for one in ("1", "1.0")]
    # every value set_up_signer can answer, with the branch conditions it is chosen under
    cert_sites, digest_sites, other = [], [], []
    for k, s_, st in fl.exits:
        if k != "return" or s_.value is None:
            continue
        if isinstance(s_.value, ast.Name) and fl.reaching(s_.value.id, st):
            cands = [(d.stmt, d.value if d.kind == "assign" else None, d.kind) for d in fl.reaching(s_.value.id, st)]
        else:
            cands = [(s_, s_.value, "return")]
        for stmt_, val_, kind_ in cands:
            xv = fl.expand(val_, fl.state_at(stmt_)) if val_ is not None else None
            if xv is not None and sem.same(xv, cert_form):
                cert_sites.append(stmt_)
            elif xv is not None and sem.same(xv, digest_form):
                digest_sites.append(stmt_)
            else:
                other.append(pretty(unparse(xv)) if xv is not None else kind_)

    def branch_atoms(node):
        """atoms of the tests of the enclosing ifs, each evaluated where it is tested"""
        out, cur, child = [], fl.parent.get(id(node)), node
        while cur is not None and cur is not sus.node:
            if isinstance(cur, ast.If):
                out += sem.atoms(fl.expand(cur.test, fl.state_at(cur)), child in cur.body)
            elif not isinstance(cur, ast.With):
                out.append("<loop/try>")
            child, cur = cur, fl.parent.get(id(cur))
        return sorted(out)
    ok = len(cert_sites) == 1 and not other and branch_atoms(cert_sites[0]) in triggers
    ctx.ob("C05.signer-kind", sus.short(), "trigger", ok,
           "full certificate when `now - last_inclusion > 1 s` OR a peer asked for it"
           + ("" if ok else f" - found {[branch_atoms(n) for n in cert_sites]} {other[:2]}"), sus.loc)
    resets = False
    if cert_sites:
        blk, _i = SU.block_of(fl, cert_sites[0])
        t_ok = r_ok = False
        for sib in blk or []:
            if isinstance(sib, ast.Assign) and len(sib.targets) == 1:
                if sem.same(sib.targets[0], "self.last_signer_full_certificate_time") and \
                        sem.same(fl.expand(sib.value, fl.state_at(sib)), "TimeService.time()"):
                    t_ok = True
                if sem.same(sib.targets[0], "self.requested_own_certificate") and P.try_fold(sus.module, sib.value, default="<nc>") is False:
                    r_ok = True
        resets = t_ok and r_ok
    ctx.ob("C05.signer-kind", sus.short(), "resets-on-inclusion", resets, "inclusion restarts the 1 s timer and clears the request flag", sus.loc)
    untriggered = [[]] + [sorted(sem.want(f"{elapsed} > {one} or self.requested_own_certificate", False)) for one in ("1", "1.0")]
    ctx.ob("C05.signer-kind", sus.short(), "digest-otherwise", len(digest_sites) == 1 and not other and branch_atoms(digest_sites[0]) in untriggered,
           "otherwise the HashedId8 digest of the signing ticket", sus.loc)
    # who writes the alternation state
    for fld in ("last_signer_full_certificate_time", "requested_own_certificate"):
        for a in la.accesses(CAMH, fld):
            if a.kind == "read" or a.fi.name == "__init__":
                continue
            val = P.try_fold(a.fi.module, a.stmt.value, default="<nc>") if isinstance(a.stmt, ast.Assign) else "<nc>"
            inside = a.fi.cls is h and a.fi.name == "set_up_signer"
            if fld == "requested_own_certificate":
                ok = inside or val is True
                why = "set to True by a notification" if val is True else ("reset by set_up_signer" if inside else
                                                                         f"assigned `{unparse(a.stmt.value) if isinstance(a.stmt, ast.Assign) else '?'}` outside set_up_signer: a pending certificate "
                                                                         "request of a peer can be cleared without the certificate having been sent in a CAM/VAM")
            else:
                ok = inside
                why = "restarted by set_up_signer" if inside else "restarted outside set_up_signer: the 1 s inclusion rule of CAM/VAM is disturbed by another profile"
            ctx.ob("C05.inclusion-state", a.fi.short(), f"{fld}:{a.how}:{a.line - a.fi.node.lineno}", ok,
                   f"{fld} {why}", f"{a.fi.module.rel}:{a.line}")
    ctx.floor("C05.inclusion-state", 4, "writes")


def xatoms(fl, node) -> set:
    """Canonical guard atoms in force where `node` is evaluated, over the EXPANDED conditions only; the tests of the
    enclosing ifs are always included (a guard the flow forgot after a store / container mutation still counts)."""
    out = SU.branch_atoms(fl, node)
    for f in fl.state_at(node).facts:
        if f.kind == "cond":
            out.update(sem.atoms(f.xnode, f.pol))
    return out


def eval3(P, mod, node, is_subject, value):
    """Kleene truth value of `node` under the assumption <subject> == value (a folded constant); None = unknown."""
    if isinstance(node, ast.BoolOp):
        vals = [eval3(P, mod, v, is_subject, value) for v in node.values]
        if isinstance(node.op, ast.And):
            return False if any(v is False for v in vals) else (True if all(v is True for v in vals) else None)
        return True if any(v is True for v in vals) else (False if all(v is False for v in vals) else None)
    if isinstance(node, ast.UnaryOp) and isinstance(node.op, ast.Not):
        v = eval3(P, mod, node.operand, is_subject, value)
        return None if v is None else (not v)
    if isinstance(node, ast.Compare) and len(node.ops) == 1:
        op, l, r = node.ops[0], node.left, node.comparators[0]

        def val(e):
            if is_subject(e):
                return True, value
            k = P.try_fold(mod, e, default="<nc>")
            return (k != "<nc>"), k
        if isinstance(op, (ast.Eq, ast.NotEq, ast.Is, ast.IsNot)):
            (kl, vl), (kr, vr) = val(l), val(r)
            if not (kl and kr) or not (is_subject(l) or is_subject(r)):
                return None
            res = vl == vr
            return res if isinstance(op, (ast.Eq, ast.Is)) else not res
        if isinstance(op, (ast.In, ast.NotIn)) and is_subject(l) and isinstance(r, (ast.Tuple, ast.List, ast.Set)):
            ks = [val(e) for e in r.elts]
            if any(k and v == value for k, v in ks):
                res = True
            elif all(k for k, v in ks):
                res = False
            else:
                return None
            return res if isinstance(op, ast.In) else not res
    return None


def reachable_under(P, fl, fi, node, is_subject, value) -> bool:
    """No guard of `node` is contradicted by <subject> == value."""
    for f in fl.state_at(node).facts:
        if f.kind != "cond":
            continue
        v = eval3(P, fi.module, f.xnode, is_subject, value)
        if v is not None and v != f.pol:
            return False
    return True


def _service_calls(P, fi, cls_name: str, prefix: str = "") -> list:
    """Calls in fi that resolve to a method of class `cls_name` (name starting with prefix)."""
    out = []
    for c in P.calls_in(fi):
        if not isinstance(c.func, ast.Attribute):
            continue
        for t in P.call_targets(fi, c, count=False):
            if isinstance(t, FuncInfo) and t.cls is not None and t.cls.name == cls_name and t.name.startswith(prefix):
                out.append(c)
                break
    return out


def _report(P, fi, fl, s, st):
    """Name of the ReportVerify member carried by the SNVERIFYConfirm a return statement answers (else None)."""
    v = fl.expand(s.value, st) if s.value is not None else None
    if not isinstance(v, ast.Call):
        return None
    rep = [kw.value for kw in v.keywords if kw.arg == "report"] or list(v.args[:1])
    if not rep:
        return None
    r = P.try_fold(fi.module, rep[0])
    return r[2] if isinstance(r, tuple) and len(r) == 3 and r[0] == "enum" else None


def notified(P, fl, fi, exit_s, method: str, arg_rule):
    """Some call self.sign_service.<method>(ARG) is made on the way to `exit_s` whenever a sign service is attached:
    its guards beyond those of the exit are `self.sign_service is not None` plus what arg_rule allows, it is not inside a
    loop / try, and its statement precedes the exit.  arg_rule(expanded ARG) -> (ok, extra allowed atoms, why)."""
    f_exit = xatoms(fl, exit_s)
    g = set(sem.want("self.sign_service is not None"))
    why = f"no call of sign_service.{method} found"
    for c in _service_calls(P, fi, "SignService", method):
        if c.func.attr != method or not sem.same(fl.expand(c.func.value, fl.state_at(c)), "self.sign_service"):
            continue
        if len(c.args) != 1 or c.keywords:
            why = "unexpected arguments"
            continue
        ok, allowed, w = arg_rule(fl.expand(c.args[0], fl.state_at(c)))
        if not ok:
            why = w
            continue
        extra = xatoms(fl, c) - f_exit - g - set(allowed)
        if extra:
            why = f"the notification additionally requires {sorted(extra)[:3]}"
            continue
        if not SU.runs_before(fl, c, exit_s):
            why = "the notification is not on every path to this exit (loop / try / later statement)"
            continue
        return True, w
    return False, why


def p2pcd(ctx):
    P = ctx.prog
    vf = P.func(f"{VS}.verify")
    fl = ctx.flows.get(vf)
    if len(vf.params) < 2:
        raise AnalysisError("C05: VerifyService.verify lost its request parameter")
    root = SU.signed_root(vf.params[1])

    def digest_arg(x):
        ok = sem.same(x, f"{root}['signer'][1]")
        return ok, set(), ("reports the message's signer digest" if ok else f"reports `{pretty(unparse(x))[:80]}` (not the message's signer digest)")

    def issuer_arg(x):
        iss = x.value if isinstance(x, ast.Subscript) and isinstance(x.slice, ast.Constant) and x.slice.value == 1 else None
        cert0 = f"{root}['signer'][1][0]"
        ok = iss is not None and (sem.same(iss, f"{cert0}['issuer']") or (
            isinstance(iss, ast.Call) and isinstance(iss.func, ast.Attribute) and iss.func.attr == "get" and iss.args
            and sem.same(iss.func.value, cert0) and sem.same(iss.args[0], "'issuer'")))
        if not ok:
            return False, set(), f"reports `{pretty(unparse(x))[:80]}` (not the issuer digest of the message's certificate)"
        u = unparse(iss)
        allowed = set()
        for src in (f"({u})[0] in ('sha256AndDigest', 'sha384AndDigest')", f"({u})[0] in ('sha384AndDigest', 'sha256AndDigest')",
                    f"({u})[0] == 'sha256AndDigest' or ({u})[0] == 'sha384AndDigest'", f"({u})[0] != 'self'", f"({u})[1] is not None"):
            allowed.update(sem.want(src))
        return True, allowed, "reports the issuer digest of the unverifiable certificate"

    def header_arg(key):
        def rule(x):
            hi = x.value if isinstance(x, ast.Subscript) and isinstance(x.slice, ast.Constant) and x.slice.value == key else None
            ok = hi is not None and any(sem.same(hi, f) for f in (f"{root}['tbsData'].get('headerInfo', {{}})", f"{root}['tbsData']['headerInfo']"))
            if not ok:
                return False, set(), f"relays `{pretty(unparse(x))[:80]}` (not headerInfo.{key} of the verified message)"
            return True, set(sem.want(f"{key!r} in {unparse(hi)}")), f"relays headerInfo.{key} of the verified message"
        return rule
    for k, s, st in fl.exits:
        if k != "return":
            continue
        rep = _report(P, vf, fl, s, st)
        loc = f"{vf.module.rel}:{s.lineno}"
        if rep == "SIGNER_CERTIFICATE_NOT_FOUND":
            ok, why = notified(P, fl, vf, s, "notify_unknown_at", digest_arg)
            ctx.ob("C05.p2pcd", vf.short(), "unknown-digest-notifies", ok,
                   f"an unknown signer digest is reported to the sign service whenever one is attached (request the ticket from the peer): {why}", loc)
        if rep == "INCONSISTENT_CHAIN":
            ok, why = notified(P, fl, vf, s, "notify_unknown_at", issuer_arg)
            ctx.ob("C05.p2pcd", vf.short(), "unknown-issuer-notifies", ok,
                   f"a certificate under an unknown issuer is reported to the sign service whenever one is attached: {why}", loc)
        if rep == "SUCCESS":
            ok, why = notified(P, fl, vf, s, "notify_inline_p2pcd_request", header_arg("inlineP2pcdRequest"))
            ctx.ob("C05.p2pcd", vf.short(), "relays-inline-request", ok,
                   f"a verified inlineP2pcdRequest is relayed to the sign service: {why}", loc)
            ok, why = notified(P, fl, vf, s, "notify_received_ca_certificate", header_arg("requestedCertificate"))
            ctx.ob("C05.p2pcd", vf.short(), "relays-requested-certificate", ok,
                   f"a verified requestedCertificate is handed to the sign service: {why}", loc)
    ss = P.cls(SS)
    flag = "self.cam_handler.requested_own_certificate"
    nu = ss.methods["notify_unknown_at"]
    fl = ctx.flows.get(nu)
    if len(nu.params) < 2:
        raise AnalysisError("C05: notify_unknown_at lost its digest parameter")
    h3 = f"{nu.params[1]}[-3:]"
    # must-store: at every normal exit the flag's reaching definitions exist on all paths and are all `True`
    normal = [st for k, s_, st in fl.exits if k in ("return", "fall")]
    sched = bool(normal) and all(fl.reaching(flag, st) and all(d.kind == "assign" and d.value is not None and
                                                                 P.try_fold(nu.module, d.value, default="<nc>") is True
                                                                 for d in fl.reaching(flag, st)) for st in normal)
    queued = False
    for c in P.calls_in(nu):
        if isinstance(c.func, ast.Attribute) and c.func.attr == "append" and sem.same(c.func.value, "self.unknown_ats") and len(c.args) == 1:
            if sem.same(fl.expand(c.args[0], fl.state_at(c)), h3) and xatoms(fl, c) <= set(sem.want(f"{h3} not in self.unknown_ats")) \
                    and SU.only_if_ancestors(fl, c) is not None:
                queued = True
    ctx.ob("C05.p2pcd", nu.short(), "queues-and-requests", sched and queued,
           "an unknown ticket is queued (HashedId3) and the own certificate is scheduled for the next CAM/VAM"
           + ("" if sched else " - the own certificate is not scheduled unconditionally") + ("" if queued else " - the HashedId3 is not queued"), nu.loc)
    ni = ss.methods["notify_inline_p2pcd_request"]
    fl = ctx.flows.get(ni)
    if len(ni.params) < 2:
        raise AnalysisError("C05: notify_inline_p2pcd_request lost its list parameter")
    rl = ni.params[1]
    sets = [n for n in ast.walk(ni.node) if isinstance(n, (ast.Assign, ast.AugAssign, ast.AnnAssign)) and
            any(sem.same(t, flag) for t in (n.targets if isinstance(n, ast.Assign) else [n.target]))]
    ok = bool(sets)
    for n in sets:
        good = False
        if isinstance(n, ast.Assign) and P.try_fold(ni.module, n.value, default="<nc>") is True:
            va = SU.vatoms(fl, n)
            for f in fl.state_at(n).facts:
                for x in ast.walk(f.xnode):
                    d = SU.for_def(fl, x.id) if isinstance(x, ast.Name) else None
                    if d is None or not sem.same(SU.unwrap_collection(SU.for_iter(fl, d)), "self.certificate_library.own_certificates.values()"):
                        continue
                    want = set(sem.want(f"{x.id.replace('@', '__v')}.as_hashedid8()[-3:] in {rl}"))
                    # the only guard is `own HashedId3 listed`, the only enclosing statements that test and the loop over ALL own tickets
                    encl, cur = [], fl.parent.get(id(n))
                    while cur is not None and cur is not ni.node:
                        encl.append(cur)
                        cur = fl.parent.get(id(cur))
                    if want <= va and va <= want and all(isinstance(e, ast.If) or e is d.stmt for e in encl):
                        good = True
        ok = ok and good
    ctx.ob("C05.p2pcd", ni.short(), "own-id-listed-schedules-certificate", ok,
           "when ANY entry of a received request list is an own HashedId3 the own certificate is scheduled (the flag is only ever set)", ni.loc)
    sc = ss.methods["sign_cam"]
    ok, why = attaches_request(ctx, sc)
    ctx.ob("C05.p2pcd", sc.short(), "attaches-request", ok,
           f"pending unknown tickets are requested in the next CAM/VAM: {why}", sc.loc)
    ctx.floor("C05.p2pcd", 7)


def _copy_base(v: ast.AST) -> ast.AST:
    """list(x) / tuple(x) / x.copy() / x[:] / [*x] / copy(x) / deepcopy(x) -> x (a value with the same elements)."""
    while True:
        if isinstance(v, ast.Call) and dotted(v.func) in ("list", "tuple", "copy", "deepcopy", "copy.copy", "copy.deepcopy") \
                and len(v.args) == 1 and not v.keywords:
            v = v.args[0]
        elif isinstance(v, ast.Call) and isinstance(v.func, ast.Attribute) and v.func.attr == "copy" and not v.args and not v.keywords:
            v = v.func.value
        elif isinstance(v, ast.Subscript) and isinstance(v.slice, ast.Slice) and v.slice.lower is None and v.slice.upper is None \
                and v.slice.step is None:
            v = v.value
        elif isinstance(v, (ast.List, ast.Tuple)) and len(v.elts) == 1 and isinstance(v.elts[0], ast.Starred):
            v = v.elts[0].value
        else:
            return v


def attaches_request(ctx, sc):
    """sign_cam stores the pending unknown-ticket list under tbsData.headerInfo.inlineP2pcdRequest of the message it
    signs, guarded by nothing but `the list is non-empty`, before the TBS encoding.  -> (ok, why)"""
    P = ctx.prog
    fl = ctx.flows.get(sc)
    emitted = [c for c in P.calls_in(sc) if isinstance(c.func, ast.Attribute) and c.func.attr == "encode_etsi_ts_103097_data_signed" and c.args]
    tbs = [c for c in P.calls_in(sc) if isinstance(c.func, ast.Attribute) and c.func.attr == "encode_to_be_signed_data"]
    if len(emitted) != 1 or len(tbs) != 1:
        return False, "message / TBS encoding not recognised"
    root_x = fl.expand(emitted[0].args[0], fl.state_at(emitted[0]))
    why = "no store to headerInfo.inlineP2pcdRequest of the signed message"
    for n in ast.walk(sc.node):
        if not (isinstance(n, ast.Assign) and len(n.targets) == 1 and isinstance(n.targets[0], ast.Subscript)):
            continue
        if _rooted_path(fl, n.targets[0], fl.state_at(n), root_x) != "/content/1/tbsData/headerInfo/inlineP2pcdRequest":
            continue
        base = _copy_base(fl.expand(n.value, fl.state_at(n)))
        if not sem.same(base, "self.unknown_ats"):
            why = f"the request carries `{pretty(unparse(base))[:60]}` (not the pending unknown tickets)"
            continue
        extra = xatoms(fl, n) - set(sem.want("len(self.unknown_ats) > 0"))
        if extra:
            why = f"the request is attached only when additionally {sorted(extra)[:3]}"
            continue
        if SU.only_if_ancestors(fl, n) is None or not SU.runs_before(fl, n, fl.stmt_of.get(id(tbs[0]), tbs[0])):
            why = "the store is not on every path to the TBS encoding"
            continue
        return True, "attached whenever the pending list is non-empty"
    return False, why


def _concat_parts(e: ast.AST) -> list:
    """operands of a (bytes) concatenation, in order"""
    if isinstance(e, ast.BinOp) and isinstance(e.op, ast.Add):
        return _concat_parts(e.left) + _concat_parts(e.right)
    return [e]


def _ifexp_branches(e: ast.AST, limit: int = 16) -> list:
    """`e` with every conditional expression resolved to one of its branches (both, unless the test compares two
    constants by identity: `None is not None`)."""
    for n in ast.walk(e):
        if isinstance(n, ast.IfExp):
            t = n.test
            take = [n.body, n.orelse]
            if isinstance(t, ast.Compare) and len(t.ops) == 1 and isinstance(t.ops[0], (ast.Is, ast.IsNot)) and \
                    isinstance(t.left, ast.Constant) and isinstance(t.comparators[0], ast.Constant):
                same = t.left.value is t.comparators[0].value
                take = [n.body] if same == isinstance(t.ops[0], ast.Is) else [n.orelse]
            out = []
            for br in take:
                out += _ifexp_branches(_replace(e, n, br), limit)
                if len(out) >= limit:
                    break
            return out[:limit]
    return [e]


def _replace(root: ast.AST, old: ast.AST, new: ast.AST) -> ast.AST:
    """copy of root with the node `old` (by identity) replaced by a copy of `new`"""
    if root is old:
        return copy.deepcopy(new)
    out = copy.copy(root)
    for f, v in ast.iter_fields(root):
        if isinstance(v, ast.AST):
            setattr(out, f, _replace(v, old, new))
        elif isinstance(v, list):
            setattr(out, f, [_replace(x, old, new) if isinstance(x, ast.AST) else x for x in v])
    return out


def _is_call(e, attr=None, func_dotted=None) -> bool:
    if not isinstance(e, ast.Call):
        return False
    if attr is not None and not (isinstance(e.func, ast.Attribute) and e.func.attr == attr):
        return False
    if func_dotted is not None and dotted(e.func) != func_dotted:
        return False
    return True


def router_encap(ctx):
    P = ctx.prog
    prof = P.cls("security.security_profiles.SecurityProfile")
    if not prof.is_enum or not prof.enum_members:
        raise AnalysisError("C05: SecurityProfile is no longer an enumeration")
    cam_like = {"COOPERATIVE_AWARENESS_MESSAGE", "VRU_AWARENESS_MESSAGE"}      # clause 7.1.1 profile (PSID 36 / 638)
    denm = "DECENTRALIZED_ENVIRONMENTAL_NOTIFICATION_MESSAGE"                   # clause 7.1.2
    if not (cam_like | {denm}) <= set(prof.enum_members):
        raise AnalysisError("C05: SecurityProfile lost a CAM / VAM / DENM member")

    def allowed_for(member):
        return {"sign_cam"} if member in cam_like else ({"sign_denm", "sign_request"} if member == denm else {"sign_request", "sign_other"})
    must_sign = {"gn_data_request_shb": set(prof.enum_members), "gn_data_request_gbc": {denm}}
    for fname in must_sign:
        fi = P.func(f"{ROUTER}.{fname}")
        fl = ctx.flows.get(fi)
        if len(fi.params) < 2:
            raise AnalysisError(f"C05: {fname} lost its request parameter")
        req = fi.params[1]

        def is_profile(e, req=req):
            return sem.same(e, f"{req}.security_profile")
        scalls = [c for c in _service_calls(P, fi, "SignService", "sign_") if sem.same(c.func.value, "self.sign_service")]
        for member in prof.enum_members:
            val = ("enum", prof.qual, member)
            reach = sorted({c.func.attr for c in scalls if reachable_under(P, fl, fi, c, is_profile, val)})
            alw = allowed_for(member)
            ok = set(reach) <= alw and (bool(reach) or member not in must_sign[fname])
            ctx.ob("C05.router-encap", fi.short(), f"dispatch:{member}", ok,
                   f"a request of profile {member} is signed by {reach or 'nothing'}; the profile needs {sorted(alw)}"
                   + ("" if member in must_sign[fname] else " (or no signature)"), fi.loc)
        ch = "CommonHeader.initialize_with_request"
        if fname.endswith("shb"):
            layout = [("common header", lambda e: _is_call(e, "encode_to_bytes") and _is_call(e.func.value, None, ch)),
                      ("ego long position vector", lambda e: sem.same(e, "self.ego_position_vector.encode()")),
                      ("media dependent data", lambda e: sem.same(e, "b'\\x00\\x00\\x00\\x00'")),
                      ("payload", lambda e, req=req: sem.same(e, f"{req}.data"))]
        else:
            layout = [("common header", lambda e: _is_call(e, "encode_to_bytes") and _is_call(e.func.value, None, ch)),
                      ("GBC extended header", lambda e, req=req: sem.same(
                          e, f"GBCExtendedHeader.initialize_with_request_sequence_number_ego_pv({req}, self.get_sequence_number(), "
                             "self.ego_position_vector).encode()")),
                      ("payload", lambda e, req=req: sem.same(e, f"{req}.data"))]
        n = 0
        for c in scalls:
            n += 1
            st = fl.state_at(c)
            rq = fl.expand(c.args[0], st) if len(c.args) == 1 and not c.keywords else None
            kws = {kw.arg: kw.value for kw in rq.keywords if kw.arg} if isinstance(rq, ast.Call) and not rq.args else {}
            tbs = kws.get("tbs_message")
            parts = _concat_parts(tbs) if tbs is not None else []
            ok = len(parts) == len(layout) and all(t(e) for (_nm, t), e in zip(layout, parts))
            shown = pretty(unparse(tbs)) if tbs is not None else "?"
            ctx.ob("C05.router-encap", fi.short(), f"signed-bytes:{n}", ok,
                   f"signed bytes = `{shown[:60]}...{shown[-60:]}`; must be " + " || ".join(nm for nm, _t in layout) +
                   " (what the receiver parses from plain_message)", f"{fi.module.rel}:{c.lineno}")
            aid = kws.get("its_aid")
            ctx.ob("C05.router-encap", fi.short(), f"its-aid:{n}", aid is not None and sem.same(aid, f"{req}.its_aid"),
                   f"its_aid = `{pretty(unparse(aid)) if aid is not None else None}`", f"{fi.module.rel}:{c.lineno}")
            ln = kws.get("tbs_message_length")
            ctx.ob("C05.router-encap", fi.short(), f"length:{n}",
                   ln is not None and tbs is not None and sem.cx(ln) == sem.cx(ast.Call(func=ast.Name(id="len", ctx=ast.Load()), args=[tbs], keywords=[])),
                   "tbs_message_length = len(tbs_message)", f"{fi.module.rel}:{c.lineno}")
        if n == 0:
            raise AnalysisError(f"C05: {fname} no longer calls the sign service")
        # emitted packet: Basic Header with NH = SECURED_PACKET || sec_message

        def restamped(e):
            return _is_call(e, "set_nh") and len(e.args) == 1 and P.try_fold(fi.module, e.args[0]) == ("enum", P.cls("BasicNH").qual, "SECURED_PACKET")

        def secured(e):
            return any(isinstance(x, ast.Attribute) and x.attr == "sec_message" for x in ast.walk(e))
        for c in P.calls_in(fi):
            if isinstance(c.func, ast.Attribute) and c.func.attr == "send" and c.args:
                st = fl.state_at(c)
                alts = [_concat_parts(b_) for a_ in fl.alternatives(c.args[0], st) for b_ in _ifexp_branches(a_)]
                sec = [ps for ps in alts if any(secured(e) for e in ps)]
                if not sec:
                    # no secured alternative at this emission: then the Basic Header sent here must never be the one that was
                    # re-stamped NH=SECURED_PACKET by the signing block (clear bytes behind NH=SECURED are undecodable)
                    stamped_here = any(ps and _is_call(ps[0], "encode_to_bytes") and restamped(ps[0].func.value) for ps in alts)
                    ctx.ob("C05.router-encap", fi.short(), f"secured-packet@{c.lineno - fi.node.lineno}", not stamped_here,
                           "this emission never carries the re-stamped (NH=SECURED_PACKET) Basic Header" if not stamped_here else
                           "on the path where the request was signed this emission sends the re-stamped Basic Header (NH=SECURED_PACKET) followed "
                           "by the CLEAR common/extended header and payload instead of the signed message: receivers cannot decode it and "
                           "the signed DENM is lost", f"{fi.module.rel}:{c.lineno}")
                    continue
                good = [ps for ps in sec if len(ps) == 2 and _is_call(ps[0], "encode_to_bytes") and restamped(ps[0].func.value)
                        and isinstance(ps[1], ast.Attribute) and ps[1].attr == "sec_message" and isinstance(ps[1].value, ast.Call)
                        and any(ps[1].value.func is not None and sem.cx(ps[1].value.func) == sem.cx(sc_.func) for sc_ in scalls)]
                # the NH re-stamp and the secured payload are assigned in the same block (same condition): the merged
                # alternatives that pair one without the other are infeasible
                nh_sets = [n_ for n_ in ast.walk(fi.node) if isinstance(n_, ast.Assign) and restamped(n_.value)]
                sec_sets = [n_ for n_ in ast.walk(fi.node) if isinstance(n_, ast.Assign) and secured(n_.value)]
                correlated = bool(nh_sets) and all(any(fl.parent.get(id(a_)) is fl.parent.get(id(b_)) for a_ in nh_sets) for b_ in sec_sets)
                ok = bool(good) and (len(good) == len(sec) or correlated)
                ctx.ob("C05.router-encap", fi.short(), f"secured-packet@{c.lineno - fi.node.lineno}", ok,
                       "secured packet = Basic Header with NH=SECURED_PACKET || signed message (NH re-stamped in the block that signs)" if ok else
                       "a signed message can be emitted behind a Basic Header whose NH is not SECURED_PACKET: "
                       f"`{pretty(unparse(fl.alternatives(c.args[0], st)[0]))[:120]}`",
                       f"{fi.module.rel}:{c.lineno}")
    ctx.floor("C05.router-encap", 20)


def learns_ticket(ctx):
    """A ticket that arrives inside a message and is answered as verified is the ticket that was put into the store: later
    messages of the same signer carry only the digest, and are accepted only if the lookup finds it.  On every exit of
    verify_sequence_of_certificates that returns a certificate not read from the store, add_authorization_ticket was called
    on the way with the very value that is returned (same reaching definition, or the same expression after expansion)."""
    P = ctx.prog
    lib = P.cls("security.certificate_library.CertificateLibrary")
    fi = lib.find_method("verify_sequence_of_certificates")
    add = lib.find_method("add_authorization_ticket")
    if fi is None or add is None:
        raise AnalysisError("C05: CertificateLibrary.verify_sequence_of_certificates / add_authorization_ticket vanished")
    fl = ctx.flows.get(fi)
    n = 0
    for k, s_, st in fl.exits:
        if k != "return" or s_.value is None or (isinstance(s_.value, ast.Constant) and s_.value.value is None):
            continue
        v = fl.expand(s_.value, st)
        if any(isinstance(x, ast.Attribute) and x.attr == "known_authorization_tickets" for x in ast.walk(v)) and \
                isinstance(v, (ast.Subscript, ast.Call)):
            continue                                    # answered from the store
        if isinstance(s_.value, ast.Call) and any(t is fi for t in P.call_targets(fi, s_.value, count=False)):
            continue                                    # answered by the function itself on a shorter chain (induction)
        n += 1
        ok, why = False, "add_authorization_ticket is not called on the way to this return"
        for f in st.facts:
            if f.kind != "call" or add.qual not in f.targets or not f.node.args:
                continue
            a = f.node.args[0]
            sa = fl.state_at(f.node)
            same_def = isinstance(a, ast.Name) and isinstance(s_.value, ast.Name) and a.id == s_.value.id and \
                sa.defs.get(a.id) is not None and sa.defs.get(a.id) == st.defs.get(a.id)
            if same_def or sem.same(fl.expand(a, sa), v):
                ok = True
                break
            why = f"the ticket stored is `{sem.cx(fl.expand(a, sa))}`, the ticket answered is `{sem.cx(v)}`"
        ctx.ob("C05.learns-ticket", fi.short(), f"return@{_ordinal(fi, s_)}", ok,
               "the certificate answered as verified is the one handed to add_authorization_ticket" if ok else
               f"{why}: the message is accepted now, but the signer's ticket is not learnt (or another object is), so its following "
               "digest-only messages are rejected as 'signer certificate not found'", f"{fi.module.rel}:{s_.lineno}")
    if n < 2:
        raise AnalysisError(f"C05: only {n} certificate-returning exits in verify_sequence_of_certificates (confirmed: 2)")


def _ordinal(fi, ret) -> int:
    rs = sorted((x for x in ast.walk(fi.node) if isinstance(x, ast.Return)), key=lambda x: (x.lineno, x.col_offset))
    return [id(x) for x in rs].index(id(ret))


def run(ctx):
    ctx.explanation = (
        "Sibling / table / provenance rules between the three signers, the verifier and the router. The message dictionary "
        "literal and the later stores of each signer are read as a tree: which headerInfo keys are always / optionally "
        "emitted, which object is TBS-encoded and which is emitted, whether anything under tbsData is written (or aliased to "
        "shared mutable state) after the TBS encoding. The verifier's profile exits are extracted with their PSID facts and "
        "compared per PSID with what the serving signer emits. Who-writes rules pin the certificate-inclusion state to "
        "set_up_signer. The router's encapsulation is compared with what the receiver parses. Each rule holds for every "
        "payload / ITS-AID / time because it constrains the code paths, not values.")
    ctx.declined = ["acceptance within two further exchanges over histories of joins", "real-time behaviour of the 1 s timer",
                    "cryptography"]
    emitted = signers(ctx)
    generic_dispatch(ctx)
    get_ticket(ctx)
    verifier_vs_signers(ctx, emitted)
    inclusion_state(ctx)
    p2pcd(ctx)
    learns_ticket(ctx)
    router_encap(ctx)
