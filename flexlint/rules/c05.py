"""C05 - honestly signed messages are accepted by every station sharing the trust root (TS 103 097 clause 7.1 profiles).

Decides: agreement between what the signers sign / emit and what the verifier recomputes / accepts (same tbsData object,
no change of signed content after the TBS encoding, no aliasing of shared mutable state into the signed structure);
per-profile header fields (always / optional per signer vs required / forbidden per verifier and PSID); signer kind per
profile and the certificate-inclusion trigger with its state discipline; source-side security encapsulation of the
router; the ticket used for signing; the P2PCD plumbing (who notifies whom).
Does not decide acceptance "within two further exchanges" over histories of joins, real-time behaviour of the 1 s timer,
anything cryptographic.
"""
from __future__ import annotations

import ast
import re

from ..prog import AnalysisError, ClassInfo, FuncInfo, dotted, unparse
from ..locks import LockAnalysis
from ..match import pretty
from .secutil import norm

PROP = "C05"
SS = "security.sign_service.SignService"
CAMH = "security.sign_service.CooperativeAwarenessMessageSecurityHandler"
VS = "security.verify_service.VerifyService"
ROUTER = "geonet.router.Router"

PROFILE = {   # signer method -> (PSIDs it serves, always, optional)   [TS 103 097 V2.1.1 clause 7.1.1 / 7.1.2 / 7.1.3]
    "sign_cam": ((36, 638), {"psid", "generationTime"}, {"inlineP2pcdRequest", "requestedCertificate"}),
    "sign_denm": ((37,), {"psid", "generationTime", "generationLocation"}, set()),
    "sign_other": ((139,), {"psid", "generationTime"}, set()),
}


def _path(node) -> str:
    """Subscript chain as /a/b/c with constant keys."""
    parts = []
    while isinstance(node, ast.Subscript):
        k = node.slice
        parts.append(str(k.value) if isinstance(k, ast.Constant) else "?")
        node = node.value
    return (dotted(node) or "?") + "/" + "/".join(reversed(parts))


def _dict_at(d: ast.AST, keys: list):
    """Navigate a dict / tuple literal by constant keys / indices."""
    cur = d
    for k in keys:
        if isinstance(cur, ast.Dict):
            nxt = None
            for kk, vv in zip(cur.keys, cur.values):
                if isinstance(kk, ast.Constant) and kk.value == k:
                    nxt = vv
            cur = nxt
        elif isinstance(cur, ast.Tuple) and isinstance(k, int) and k < len(cur.elts):
            cur = cur.elts[k]
        else:
            return None
        if cur is None:
            return None
    return cur


def signers(ctx):
    P = ctx.prog
    ss = P.cls(SS)
    emitted = {}
    for name, (psids, always, optional) in PROFILE.items():
        fi = ss.methods.get(name)
        if fi is None:
            raise AnalysisError(f"C05: signer {name} vanished")
        fl = ctx.flows.get(fi)
        # the message dictionary literal
        dvar, dlit = None, None
        for n in fi.node.body:
            if isinstance(n, ast.Assign) and isinstance(n.value, ast.Dict) and isinstance(n.targets[0], ast.Name):
                dvar, dlit = n.targets[0].id, n.value
                break
        if dlit is None:
            raise AnalysisError(f"C05: {name} no longer builds the message as a dict literal")
        hi = _dict_at(dlit, ["content", 1, "tbsData", "headerInfo"])
        lit_keys = {k.value for k in hi.keys if isinstance(k, ast.Constant)} if isinstance(hi, ast.Dict) else set()
        # statements in order: stores, the TBS encoding, the final encoding
        tbs_line = enc_line = None
        stores = []
        for n in ast.walk(fi.node):
            if isinstance(n, ast.Call) and isinstance(n.func, ast.Attribute):
                if n.func.attr == "encode_to_be_signed_data":
                    tbs_line = n.lineno
                    arg = norm(unparse(n.args[0]))
                    ctx.ob("C05.tbs-agree", fi.short(), "signs-own-tbsData", arg == f"{dvar}['content'][1]['tbsData']",
                           f"the bytes signed are the encoding of `{arg}` (must be the tbsData of the message being built)",
                           f"{fi.module.rel}:{n.lineno}")
                if n.func.attr == "encode_etsi_ts_103097_data_signed":
                    enc_line = n.lineno
                    ctx.ob("C05.tbs-agree", fi.short(), "emits-same-object", norm(unparse(n.args[0])) == dvar,
                           f"the message emitted is the object whose tbsData was signed (`{unparse(n.args[0])}`)", f"{fi.module.rel}:{n.lineno}")
            if isinstance(n, ast.Assign) and isinstance(n.targets[0], ast.Subscript):
                stores.append(n)
        if tbs_line is None or enc_line is None:
            raise AnalysisError(f"C05: {name}: TBS / final encoding call not found")
        opt_keys = set()
        for st_ in stores:
            path = _path(st_.targets[0])
            if not path.startswith(dvar + "/"):
                continue
            under_tbs = "/tbsData" in path
            if under_tbs:
                ctx.ob("C05.tbs-agree", fi.short(), f"store-before-signing:{path.split('/')[-1]}", st_.lineno < tbs_line,
                       f"`{path}` is written at line {st_.lineno}, the TBS encoding happens at line {tbs_line}: signed content "
                       + ("is complete before it is signed" if st_.lineno < tbs_line else "changes AFTER it was signed (receivers recompute a different hash)"),
                       f"{fi.module.rel}:{st_.lineno}")
                if path.endswith("/headerInfo/" + path.split("/")[-1]):
                    opt_keys.add(path.split("/")[-1])
                # aliasing: a bare reference to shared mutable state inside the signed structure can change between the encodings
                v = st_.value
                alias = isinstance(v, ast.Attribute) and isinstance(v.value, ast.Name) and v.value.id == "self"
                ctx.ob("C05.tbs-agree", fi.short(), f"no-shared-alias:{path.split('/')[-1]}", not alias,
                       f"`{path}` = `{unparse(v)}`" + (" - a live reference to a shared list: notify_unknown_at() running on the receive "
                                                      "thread between the TBS encoding and the final encoding changes the signed "
                                                      "content, and the emitted signature no longer verifies" if alias else
                                                      " (a value / copy)"), f"{fi.module.rel}:{st_.lineno}")
            else:
                ok = path.endswith("/signer") or path.endswith("/signature") or path.endswith("/signer/1")
                ctx.ob("C05.tbs-agree", fi.short(), f"store:{path.split('/')[-1]}", ok,
                       f"store to `{path}` (only signer / signature may be filled in after signing)", f"{fi.module.rel}:{st_.lineno}")
        # profile keys
        ctx.ob("C05.profile-keys", fi.short(), "always", lit_keys == always,
               f"{name} always emits headerInfo {sorted(lit_keys)}; clause 7.1 profile requires exactly {sorted(always)}",
               f"{fi.module.rel}:{dlit.lineno}")
        ctx.ob("C05.profile-keys", fi.short(), "optional", opt_keys <= optional,
               f"{name} may additionally emit {sorted(opt_keys)}; the profile allows {sorted(optional)}", fi.loc)
        emitted[name] = (psids, lit_keys, opt_keys)
        # payload and psid provenance
        pay = _dict_at(dlit, ["content", 1, "tbsData", "payload", "data", "content", 1])
        ctx.ob("C05.tbs-agree", fi.short(), "payload", pay is not None and norm(unparse(pay)) == "request.tbs_message",
               f"signed payload = `{unparse(pay) if pay is not None else None}`", fi.loc)
        ps = _dict_at(hi, ["psid"]) if isinstance(hi, ast.Dict) else None
        ctx.ob("C05.profile-keys", fi.short(), "psid-from-request", ps is not None and norm(unparse(ps)) == "request.its_aid",
               "headerInfo.psid is the request's ITS-AID", fi.loc)
        gt = _dict_at(hi, ["generationTime"]) if isinstance(hi, ast.Dict) else None
        ctx.ob("C05.profile-keys", fi.short(), "generationTime-us", gt is not None and norm(unparse(gt)) == "TimeService.timestamp_its()*1000",
               "generationTime is the ITS timestamp in microseconds (ms x 1000)", fi.loc)
        # signing ticket
        at_calls = [c for c in P.calls_in(fi) if isinstance(c.func, ast.Attribute) and c.func.attr == "get_present_at_for_signging"]
        ok = len(at_calls) == 1 and norm(unparse(at_calls[0].args[0])) == "request.its_aid"
        ctx.ob("C05.signing-ticket", fi.short(), "ticket-for-its-aid", ok, "the signing ticket is looked up for the request's ITS-AID", fi.loc)
        raises = [(s, st) for k, s, st in fl.exits if k == "raise"]
        none_raise = any(any(f.kind == "cond" and f.pol and norm(pretty(f.key)) == "at_itemisNone" for f in st.facts) for s, st in raises)
        ctx.ob("C05.signing-ticket", fi.short(), "no-ticket-raises", none_raise, "a missing ticket raises instead of signing with another", fi.loc)
        # signer kind
        sg = [st_ for st_ in stores if _path(st_.targets[0]).endswith("/signer")]
        if name == "sign_denm":
            ok = len(sg) == 1 and norm(unparse(sg[0].value)) == "('certificate',[at_item.certificate])"
            ctx.ob("C05.signer-kind", fi.short(), "always-certificate", ok,
                   f"DENM signer = `{unparse(sg[0].value) if sg else None}`; clause 7.1.2: always the certificate", fi.loc)
        elif name == "sign_cam":
            ok = len(sg) == 1 and norm(unparse(sg[0].value)) == "self.cam_handler.set_up_signer(at_item)"
            ctx.ob("C05.signer-kind", fi.short(), "digest-or-certificate", ok,
                   f"CAM/VAM signer = `{unparse(sg[0].value) if sg else None}` (alternation handled by set_up_signer)", fi.loc)
        elif name == "sign_other":
            ok = len(sg) == 1 and norm(unparse(sg[0].value)) == "('digest',at_item.as_hashedid8())"
            ctx.ob("C05.signer-kind", fi.short(), "digest", ok, f"generic signer = `{unparse(sg[0].value) if sg else None}`", fi.loc)
    ctx.floor("C05.tbs-agree", 14)
    return emitted


def get_ticket(ctx):
    P = ctx.prog
    fi = P.func(f"{SS}.get_present_at_for_signging")
    fl = ctx.flows.get(fi)
    for k, s, st in fl.exits:
        if k == "return" and P.try_fold(fi.module, s.value, default="x") is not None:
            conds = {norm(pretty(f.key)): f.pol for f in st.facts if f.kind == "cond"}
            ctx.ob("C05.signing-ticket", fi.short(), "covers-its-aid", conds.get("its_aidincert.get_list_of_its_aid()") is True,
                   "the ticket returned lists the requested ITS-AID among its appPermissions", f"{fi.module.rel}:{s.lineno}")
    src = norm(unparse(fi.node))
    ctx.ob("C05.signing-ticket", fi.short(), "own-only", "forcertinself.certificate_library.own_certificates.values()" in src,
           "only own certificates are candidates", fi.loc)


def verifier_vs_signers(ctx, emitted):
    """signer-may-emit ∩ verifier-rejects = ∅ and verifier-requires ⊆ signer-always, per PSID."""
    P = ctx.prog
    vf = P.func(f"{VS}.verify")
    fl = ctx.flows.get(vf)
    rejects = []     # (psid facts, [(key, present?)] deciding this exit, line)
    for k, s, st in fl.exits:
        if k != "return" or not isinstance(s.value, ast.Call):
            continue
        rep = [kw.value for kw in s.value.keywords if kw.arg == "report"]
        if not rep or "SUCCESS" in unparse(rep[0]):
            continue
        psid_facts = []
        for f in st.facts:
            if f.kind == "cond":
                m = re.fullmatch(r"(_?psid\w*)==(\d+)", norm(pretty(f.key)))
                if m:
                    psid_facts.append((int(m.group(2)), f.pol))
        # the deciding test = the innermost `if` whose body holds this return, in disjunctive normal form
        par = fl.parent.get(id(s))
        if not (isinstance(par, ast.If) and s in par.body):
            continue

        def dnf(t):
            if isinstance(t, ast.BoolOp) and isinstance(t.op, ast.Or):
                out = []
                for v in t.values:
                    out += dnf(v)
                return out
            if isinstance(t, ast.BoolOp) and isinstance(t.op, ast.And):
                out = [[]]
                for v in t.values:
                    out = [a + b for a in out for b in dnf(v)]
                return out
            return [[t]]
        for conj in dnf(par.test):
            pf = list(psid_facts)
            key_facts = []
            for t in conj:
                tt = norm(unparse(t))
                m = re.fullmatch(r"'(\w+)'notin(header_info|_header_info_early)", tt)
                if m:
                    key_facts.append((m.group(1), False))
                m = re.fullmatch(r"'(\w+)'in(header_info|_header_info_early)", tt)
                if m:
                    key_facts.append((m.group(1), True))
                m = re.fullmatch(r"(_?psid\w*)(==|!=)(\d+)", tt)
                if m:
                    pf.append((int(m.group(3)), m.group(2) == "=="))
                if tt == "_fieldinheader_info":
                    for n in ast.walk(vf.node):
                        if isinstance(n, ast.Assign) and dotted(n.targets[0]) == "_denm_forbidden" and isinstance(n.value, ast.Set):
                            for e in n.value.elts:
                                key_facts.append((e.value, True))
            if key_facts:
                rejects.append((pf, key_facts, s.lineno))
    if len(rejects) < 4:
        raise AnalysisError(f"C05: only {len(rejects)} profile-rejecting exits recognised in VerifyService.verify (confirmed: 5)")

    def consistent(p, facts):
        return all((p == v) == pol for v, pol in facts)
    for name, (psids, always, optional) in emitted.items():
        for p in psids:
            for psid_facts, key_facts, line in rejects:
                if not consistent(p, psid_facts):
                    continue
                for key, present in key_facts:
                    if present:
                        ctx.ob("C05.profile-keys", vf.short(), f"psid{p}:{name}:forbids:{key}", key not in (always | optional),
                               f"verify() rejects PSID {p} messages carrying headerInfo.{key} (line {line}); {name} " +
                               ("never emits it" if key not in (always | optional) else
                                "may emit it: honestly signed messages of this profile are refused"), f"{vf.module.rel}:{line}")
                    else:
                        ctx.ob("C05.profile-keys", vf.short(), f"psid{p}:{name}:requires:{key}", key in always,
                               f"verify() requires headerInfo.{key} for PSID {p} (line {line}); {name} " +
                               ("always emits it" if key in always else "does not always emit it"), f"{vf.module.rel}:{line}")
            ctx.ob("C05.profile-keys", vf.short(), f"psid{p}:{name}:compatible", True,
                   f"profile checks of verify() evaluated against what {name} emits for PSID {p}", vf.loc)
    # DENM must come with a certificate signer (early exit) - and DENM signer always sends one (checked above)
    src = norm(unparse(vf.node))
    ctx.ob("C05.profile-keys", vf.short(), "denm-needs-certificate", "_psid_early==37andsigner[0]!='certificate'" in src,
           "verifier insists on a certificate signer for PSID 37 only", vf.loc)


def inclusion_state(ctx):
    P = ctx.prog
    la = LockAnalysis(ctx)
    h = P.cls(CAMH)
    sus = h.methods["set_up_signer"]
    fl = ctx.flows.get(sus)
    # trigger
    cert_defs = [n for n in ast.walk(sus.node) if isinstance(n, ast.Assign) and dotted(n.targets[0]) == "signer" and "certificate" in unparse(n.value)
                 and "'certificate'" in unparse(n.value)]
    ok = False
    for n in cert_defs:
        st = fl.state_at(n)
        encl = fl.parent.get(id(n))
        st_if = fl.before.get(id(encl), st) if isinstance(encl, ast.If) else st
        st_body = fl.before.get(id(encl.body[0]), st) if isinstance(encl, ast.If) else st   # before the state is reset
        for f in st_body.facts:
            if f.kind == "cond" and f.pol and isinstance(f.node, ast.BoolOp) and isinstance(f.node.op, ast.Or):
                parts = [norm(pretty(unparse(fl.expand(v, st_if)))) for v in f.node.values]
                t_ok = any(re.fullmatch(r"TimeService\.time\(\)-self\.last_signer_full_certificate_time>(1|1\.0)", p) for p in parts)
                r_ok = "self.requested_own_certificate" in parts
                ok = t_ok and r_ok
    ctx.ob("C05.signer-kind", sus.short(), "trigger", ok,
           "full certificate when `now - last_inclusion > 1 s` OR a peer asked for it", sus.loc)
    src = norm(unparse(sus.node))
    resets = "self.last_signer_full_certificate_time=current_time" in src and "self.requested_own_certificate=False" in src
    ctx.ob("C05.signer-kind", sus.short(), "resets-on-inclusion", resets, "inclusion restarts the 1 s timer and clears the request flag", sus.loc)
    dflt = [n for n in ast.walk(sus.node) if isinstance(n, (ast.Assign, ast.AnnAssign)) and n.value is not None and
            dotted(n.targets[0] if isinstance(n, ast.Assign) else n.target) == "signer" and "'digest'" in unparse(n.value)]
    ctx.ob("C05.signer-kind", sus.short(), "digest-otherwise", len(dflt) == 1 and norm(unparse(dflt[0].value)) == "('digest',certificate.as_hashedid8())",
           "otherwise the HashedId8 digest of the signing ticket", sus.loc)
    # who writes the alternation state
    for fld in ("last_signer_full_certificate_time", "requested_own_certificate"):
        for a in la.accesses(CAMH, fld):
            if a.kind == "read" or a.fi.name == "__init__":
                continue
            val = P.try_fold(a.fi.module, a.stmt.value, default="<nc>") if isinstance(a.stmt, ast.Assign) else "<nc>"
            inside = a.fi.cls is h and a.fi.name == "set_up_signer"
            if fld == "requested_own_certificate":
                ok = inside or val is True
                why = "set to True by a notification" if val is True else ("reset by set_up_signer" if inside else
                                                                         f"assigned `{unparse(a.stmt.value) if isinstance(a.stmt, ast.Assign) else '?'}` outside set_up_signer: a pending certificate "
                                                                         "request of a peer can be cleared without the certificate having been sent in a CAM/VAM")
            else:
                ok = inside
                why = "restarted by set_up_signer" if inside else "restarted outside set_up_signer: the 1 s inclusion rule of CAM/VAM is disturbed by another profile"
            ctx.ob("C05.inclusion-state", a.fi.short(), f"{fld}:{a.how}:{a.line - a.fi.node.lineno}", ok,
                   f"{fld} {why}", f"{a.fi.module.rel}:{a.line}")
    ctx.floor("C05.inclusion-state", 4, "writes")


def p2pcd(ctx):
    P = ctx.prog
    vf = P.func(f"{VS}.verify")
    fl = ctx.flows.get(vf)
    for k, s, st in fl.exits:
        if k != "return" or not isinstance(s.value, ast.Call):
            continue
        rep = [unparse(kw.value) for kw in s.value.keywords if kw.arg == "report"]
        if not rep:
            continue
        calls = [pretty(f.xkey) for f in st.facts if f.kind == "call"]
        if rep[0].endswith("SIGNER_CERTIFICATE_NOT_FOUND"):
            # notification happens when a sign service is attached
            src = norm(unparse(fl.parent[id(s)])) if id(s) in fl.parent else ""
            ctx.ob("C05.p2pcd", vf.short(), "unknown-digest-notifies", "self.sign_service.notify_unknown_at(signer[1])" in norm(unparse(vf.node)),
                   "an unknown signer digest is reported to the sign service (request the ticket from the peer)", f"{vf.module.rel}:{s.lineno}")
        if rep[0].endswith("INCONSISTENT_CHAIN"):
            ctx.ob("C05.p2pcd", vf.short(), "unknown-issuer-notifies", "self.sign_service.notify_unknown_at(issuer[1])" in norm(unparse(vf.node)),
                   "a certificate under an unknown issuer is reported to the sign service", f"{vf.module.rel}:{s.lineno}")
        if rep[0].endswith("SUCCESS"):
            src = norm(unparse(vf.node))
            ctx.ob("C05.p2pcd", vf.short(), "relays-inline-request",
                   "if'inlineP2pcdRequest'inheader_info:self.sign_service.notify_inline_p2pcd_request(header_info['inlineP2pcdRequest'])" in src,
                   "a verified inlineP2pcdRequest is relayed to the sign service", f"{vf.module.rel}:{s.lineno}")
            ctx.ob("C05.p2pcd", vf.short(), "relays-requested-certificate",
                   "if'requestedCertificate'inheader_info:self.sign_service.notify_received_ca_certificate(header_info['requestedCertificate'])" in src,
                   "a verified requestedCertificate is handed to the sign service", f"{vf.module.rel}:{s.lineno}")
    ss = P.cls(SS)
    nu = ss.methods["notify_unknown_at"]
    src = norm(unparse(nu.node))
    ctx.ob("C05.p2pcd", nu.short(), "queues-and-requests", "self.unknown_ats.append(hashedid3)" in src and
           "self.cam_handler.requested_own_certificate=True" in src and "hashedid3=hashedid8[-3:]" in src,
           "an unknown ticket is queued (HashedId3) and the own certificate is scheduled for the next CAM/VAM", nu.loc)
    ni = ss.methods["notify_inline_p2pcd_request"]
    fl = ctx.flows.get(ni)
    sets = [n for n in ast.walk(ni.node) if isinstance(n, ast.Assign) and dotted(n.targets[0]) == "self.cam_handler.requested_own_certificate"]
    ok = bool(sets)
    for n in sets:
        st = fl.state_at(n)
        conds = {norm(pretty(f.xkey)): f.pol for f in st.facts if f.kind == "cond"}
        ok = ok and P.try_fold(ni.module, n.value) is True and any(
            v and re.fullmatch(r".*as_hashedid8\(\)\[-3:\]inrequest_list", k) for k, v in conds.items())
    ctx.ob("C05.p2pcd", ni.short(), "own-id-listed-schedules-certificate", ok,
           "when ANY entry of a received request list is an own HashedId3 the own certificate is scheduled (the flag is only ever set)", ni.loc)
    sc = ss.methods["sign_cam"]
    src = norm(unparse(sc.node))
    ctx.ob("C05.p2pcd", sc.short(), "attaches-request", "iflen(self.unknown_ats)>0:" in src and "['inlineP2pcdRequest']=" in src,
           "pending unknown tickets are requested in the next CAM/VAM", sc.loc)
    ctx.floor("C05.p2pcd", 7)


def router_encap(ctx):
    P = ctx.prog
    want = {"gn_data_request_shb": {"COOPERATIVE_AWARENESS_MESSAGE": "sign_cam", "VRU_AWARENESS_MESSAGE": "sign_cam", "<other>": "sign_request"},
            "gn_data_request_gbc": {"DECENTRALIZED_ENVIRONMENTAL_NOTIFICATION_MESSAGE": "sign_denm"}}
    for fname, table in want.items():
        fi = P.func(f"{ROUTER}.{fname}")
        fl = ctx.flows.get(fi)
        n = 0
        for c in P.calls_in(fi):
            if not (isinstance(c.func, ast.Attribute) and dotted(c.func.value) == "self.sign_service"):
                continue
            n += 1
            st = fl.state_at(c)
            conds = {norm(pretty(f.xkey)): f.pol for f in st.facts if f.kind == "cond"}
            profs = [p for p in table if p != "<other>" and any(v and (f"SecurityProfile.{p}" in k) for k, v in conds.items())]
            exp = {table[p] for p in profs} or ({table["<other>"]} if "<other>" in table else set())
            ctx.ob("C05.router-encap", fi.short(), f"dispatch:{c.func.attr}", exp == {c.func.attr},
                   f"{c.func.attr} is used under profile(s) {profs or ['other']}; expected {sorted(exp)}", f"{fi.module.rel}:{c.lineno}")
            req = fl.expand(c.args[0], st)
            kws = {kw.arg: norm(pretty(unparse(kw.value))) for kw in req.keywords if kw.arg} if isinstance(req, ast.Call) else {}
            tbs = kws.get("tbs_message", "")
            ext = "self.ego_position_vector.encode()+b'\\x00\\x00\\x00\\x00'" if fname.endswith("shb") else \
                "GBCExtendedHeader.initialize_with_request_sequence_number_ego_pv(request,self.get_sequence_number(),self.ego_position_vector).encode()"
            ok = tbs.startswith("CommonHeader.initialize_with_request(") and tbs.endswith(f").encode_to_bytes()+{ext}+request.data")
            ctx.ob("C05.router-encap", fi.short(), f"signed-bytes:{n}", ok,
                   f"signed bytes = `{tbs[:60]}...{tbs[-60:]}`; must be Common Header || extended header || payload (what the receiver "
                   f"parses from plain_message)", f"{fi.module.rel}:{c.lineno}")
            ctx.ob("C05.router-encap", fi.short(), f"its-aid:{n}", kws.get("its_aid") == "request.its_aid",
                   f"its_aid = `{kws.get('its_aid')}`", f"{fi.module.rel}:{c.lineno}")
            ctx.ob("C05.router-encap", fi.short(), f"length:{n}", kws.get("tbs_message_length") == f"len({tbs})",
                   "tbs_message_length = len(tbs_message)", f"{fi.module.rel}:{c.lineno}")
        if n == 0:
            raise AnalysisError(f"C05: {fname} no longer calls the sign service")
        # emitted packet: Basic Header with NH = SECURED_PACKET || sec_message
        for c in P.calls_in(fi):
            if isinstance(c.func, ast.Attribute) and c.func.attr == "send":
                st = fl.state_at(c)
                alts = [norm(pretty(unparse(a))) for a in fl.alternatives(c.args[0], st)]
                sec = [t for t in alts if "sec_message" in t]
                if not sec:
                    continue
                good = [t for t in sec if re.search(r"\.set_nh\(BasicNH\.SECURED_PACKET\)\.encode_to_bytes\(\)\+\(?self\.sign_service\.sign_\w+\(", t)]
                # the NH re-stamp and the secured payload are assigned in the same block (same condition): the merged
                # alternatives that pair one without the other are infeasible
                nh_sets = [n_ for n_ in ast.walk(fi.node) if isinstance(n_, ast.Assign) and "set_nh(BasicNH.SECURED_PACKET)" in unparse(n_.value)]
                sec_sets = [n_ for n_ in ast.walk(fi.node) if isinstance(n_, ast.Assign) and unparse(n_.value).endswith(".sec_message")
                            or (isinstance(n_, ast.Assign) and ".sec_message" in unparse(n_.value) and "encode_to_bytes" in unparse(n_.value))]
                correlated = bool(nh_sets) and all(any(fl.parent.get(id(a_)) is fl.parent.get(id(b_)) for a_ in nh_sets) for b_ in sec_sets)
                ok = bool(good) and (len(good) == len(sec) or correlated)
                ctx.ob("C05.router-encap", fi.short(), f"secured-packet@{c.lineno - fi.node.lineno}", ok,
                       "secured packet = Basic Header with NH=SECURED_PACKET || signed message (NH re-stamped in the block that signs)" if ok else
                       f"a signed message can be emitted behind a Basic Header whose NH is not SECURED_PACKET: `{(sec[0])[:120]}`",
                       f"{fi.module.rel}:{c.lineno}")
    ctx.floor("C05.router-encap", 10)


def run(ctx):
    ctx.explanation = (
        "Sibling / table / provenance rules between the three signers, the verifier and the router. The message dictionary "
        "literal and the later stores of each signer are read as a tree: which headerInfo keys are always / optionally "
        "emitted, which object is TBS-encoded and which is emitted, whether anything under tbsData is written (or aliased to "
        "shared mutable state) after the TBS encoding. The verifier's profile exits are extracted with their PSID facts and "
        "compared per PSID with what the serving signer emits. Who-writes rules pin the certificate-inclusion state to "
        "set_up_signer. The router's encapsulation is compared with what the receiver parses. Each rule holds for every "
        "payload / ITS-AID / time because it constrains the code paths, not values.")
    ctx.declined = ["acceptance within two further exchanges over histories of joins", "real-time behaviour of the 1 s timer",
                    "cryptography"]
    emitted = signers(ctx)
    get_ticket(ctx)
    verifier_vs_signers(ctx, emitted)
    inclusion_state(ctx)
    p2pcd(ctx)
    router_encap(ctx)
