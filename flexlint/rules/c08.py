"""C08 - location table reflects the newest valid information about each station.

Decides: the strict-newer guard on every position-vector store; the wrap-around TST order as an exact truth table
over the cells of d = a - b; the neighbour-flag discipline per packet type; that the own address never reaches a
table update (DAD first); that the expiry predicate is taken on the entry's position-vector timestamp, against a
clock of the same resolution, and cannot mistake a timestamp slightly ahead of the clock for an ancient one; that
readers apply the expiry predicate.
Does not decide histories with clock advances as values, nor PDR arithmetic.
"""
from __future__ import annotations

import ast
import re

from ..prog import AnalysisError, FuncInfo, dotted, unparse
from ..absint import region_table
from ..locks import LockAnalysis
from ..match import CallSummaries, pretty
from . import gnutil as G

PROP = "C08"
LT = "geonet.location_table.LocationTable"
LTE = "geonet.location_table.LocationTableEntry"
TST = "geonet.position_vector.TST"


def norm(s):
    return re.sub(r"\s+", "", s)


def run(ctx):
    P = ctx.prog
    ctx.explanation = (
        "Guard rules (K1) on every store to LocationTableEntry.position_vector / is_neighbour and on every location-table "
        "update; an exact finite truth table (K10) of TST.__gt__/__ge__/__lt__/__le__/__eq__ obtained by interpreting the "
        "methods' expression trees on one representative per cell of the threshold arrangement of d = a - b "
        "(cells delimited by 0 and +-2^31, which are exactly the thresholds the expressions use - checked), compared "
        "with the serial-number order the property states; structural rules on the expiry predicate of refresh_table and "
        "on the readers. Each rule quantifies over all packets / all timestamp pairs at once.")
    ctx.declined = ["entry presence over histories with clock advances (value level)", "packet data rate arithmetic"]
    la = LockAnalysis(ctx)

    # ---- newer-only
    n = 0
    for a in la.accesses(LTE, "position_vector"):
        if a.kind not in ("write", "rmw"):
            continue
        n += 1
        fl = la.flow(a.fi)
        st = fl.state_at(a.stmt)
        conds = [(norm(pretty(f.xkey)), f.pol) for f in st.facts if f.kind == "cond"]
        newer = any(p and k == "position_vector.tst>self.position_vector.tst" for k, p in conds)
        never = any(p and k == "self.position_vector.tst.msec==0" for k, p in conds)
        val = norm(pretty(unparse(fl.expand(a.stmt.value, st)))) if isinstance(a.stmt, ast.Assign) else "?"
        ctx.ob("C08.newer-only", a.fi.short(), f"store#{n}", (newer or never) and val == "position_vector",
               f"stored PV `{val}` " + ("guarded by strict `new.tst > stored.tst`" if newer else
                                        "guarded by 'entry never filled'" if never else
                                        "is NOT guarded by `position_vector.tst > self.position_vector.tst` (strict, wrap-aware) "
                                        f"nor by 'never filled'; guards: {[k for k, p in conds if 'tst' in k]}"),
               f"{a.fi.module.rel}:{a.line}")
    ctx.floor("C08.newer-only", 2, "PV stores")

    # ---- tst order truth table
    tst = P.cls(TST)
    ops = ["__gt__", "__ge__", "__lt__", "__le__", "__eq__"]
    # thresholds used by the code must be within {0, +-2^31}: otherwise the cell decomposition is not exact
    for op in ops:
        src = unparse(tst.methods[op].node)
        consts = set()
        for nn in ast.walk(tst.methods[op].node):
            if isinstance(nn, ast.Compare):
                for c in [nn.left] + nn.comparators:
                    v = P.try_fold(tst.module, c)
                    if isinstance(v, (int, float)):
                        consts.add(v)
        bad = [c for c in consts if c not in (0, 2 ** 31, -(2 ** 31), 2 ** 31 - 1, 2 ** 31 + 1)]
        if bad:
            ctx.ob("C08.tst-order", tst.methods[op].short(), "thresholds", False,
                   f"{op} compares against {bad}: the wrap-around boundary must be 2^31", tst.methods[op].loc)
    table = region_table(P, tst, "msec", ops)
    gt, ge, lt, le, eq = (table[o] for o in ops)
    expect_gt = {"d<-H": True, "-H<d<0": False, "-H<d<0 (near -H)": False, "d=0": False, "0<d<H": True, "0<d<H (near H)": True,
                 "d>H": False, "d=M-1": False, "d=-(M-1)": True}
    for reg, want in expect_gt.items():
        ctx.ob("C08.tst-order", tst.methods["__gt__"].short(), f"gt:{reg}", gt[reg] == want,
               f"a > b on region {reg} evaluates to {gt[reg]}, serial-number order requires {want}", tst.methods["__gt__"].loc)
    mirror = {"d<-H": "d>H", "d=-H": "d=H", "-H<d<0": "0<d<H", "-H<d<0 (near -H)": "0<d<H (near H)", "d=0": "d=0",
              "0<d<H": "-H<d<0", "0<d<H (near H)": "-H<d<0 (near -H)", "d=H": "d=-H", "d>H": "d<-H", "d=M-1": "d=-(M-1)",
              "d=-(M-1)": "d=M-1"}
    for reg in gt:
        both = gt[reg] and gt[mirror[reg]]
        ctx.ob("C08.tst-order", tst.methods["__gt__"].short(), f"antisymmetric:{reg}", not both,
               f"a > b and b > a both {'hold' if both else 'never hold'} on region {reg}", tst.methods["__gt__"].loc)
        ctx.ob("C08.tst-order", tst.methods["__eq__"].short(), f"eq:{reg}", eq[reg] == (reg == "d=0"),
               f"a == b on region {reg} is {eq[reg]}", tst.methods["__eq__"].loc)
        ctx.ob("C08.tst-order", tst.methods["__ge__"].short(), f"ge:{reg}", ge[reg] == (gt[reg] or eq[reg]),
               f">= must be (> or ==) on region {reg}", tst.methods["__ge__"].loc)
        ctx.ob("C08.tst-order", tst.methods["__lt__"].short(), f"lt:{reg}", lt[reg] == (not ge[reg]),
               f"< must be not >= on region {reg}", tst.methods["__lt__"].loc)
        ctx.ob("C08.tst-order", tst.methods["__le__"].short(), f"le:{reg}", le[reg] == (not gt[reg]),
               f"<= must be not > on region {reg}", tst.methods["__le__"].loc)
    ctx.extra["tst_truth_table"] = {k: v for k, v in table.items()}
    ctx.extra["exhaustive"] = True

    # ---- neighbour flag discipline
    shb_only = set()
    for fi in P.iter_funcs():
        if fi.cls is not None and fi.cls.name in ("LocationTable", "LocationTableEntry"):
            pass
    n = 0
    for a in la.accesses(LTE, "is_neighbour"):
        if a.kind not in ("write", "rmw") or not isinstance(a.stmt, ast.Assign):
            continue
        n += 1
        fl = la.flow(a.fi)
        st = fl.state_at(a.stmt)
        v = P.try_fold(a.fi.module, a.stmt.value, default="<nc>")
        con = a.fi.short()
        if v is True:
            # only reachable from single-hop receptions: every transitive caller chain starts at new_shb_packet
            roots = _entry_roots(P, a.fi)
            ok = roots and all(r.endswith("new_shb_packet") or r.endswith("update_with_shb_packet") for r in roots)
            ctx.ob("C08.neighbour", con, f"set-true#{n}", ok,
                   f"is_neighbour = True reachable from {sorted(r.split('.')[-1] for r in roots)}; only beacon/SHB processing may set it",
                   f"{a.fi.module.rel}:{a.line}")
        elif v is False:
            conds = [(norm(pretty(f.xkey)), f.pol) for f in st.facts if f.kind == "cond"]
            new_only = any(p and (k == "is_new_entry" or k.endswith("isNone") and "get_entry" in k or k == "entryisNone")
                           for k, p in conds)
            ctx.ob("C08.neighbour", con, f"set-false#{n}", new_only,
                   "is_neighbour = False " + ("only for a newly created entry" if new_only else
                                              "is executed for EXISTING entries too: a multi-hop packet from a station known "
                                              "through its beacons removes it from the neighbour set"),
                   f"{a.fi.module.rel}:{a.line}")
        else:
            ctx.ob("C08.neighbour", con, f"set-other#{n}", False,
                   f"is_neighbour assigned a non-constant `{unparse(a.stmt.value)}`", f"{a.fi.module.rel}:{a.line}")
    ctx.floor("C08.neighbour", 7, "is_neighbour stores")

    # ---- no-self: every table update is dominated by DAD (shared instances with C06.dad-first)
    cs = CallSummaries(P, ctx.flows)
    for h in G.receive_handlers(ctx):
        for s in G.sinks_of(ctx, h):
            if s.kind != "table-update":
                continue
            fl = G.flow_for(ctx, s.fi, h)
            dad = cs.called_before(s.fi, fl, fl.state_at(s.node), "Router.duplicate_address_detection")
            ok = any(a and a[0].endswith(".gn_addr") for a in dad)
            ctx.ob("C08.no-self", s.fi.short(), unparse(s.node.func).split(".")[-1], ok,
                   "location-table update " + ("preceded by DAD on the packet's source address" if ok else
                                               "NOT preceded by duplicate_address_detection: the own address can be entered"),
                   f"{s.fi.module.rel}:{s.node.lineno}")
    ctx.floor("C08.no-self", 8)

    # ---- expiry predicate (inline in refresh_table, or in a helper the table methods share)
    lt = P.cls(LT)
    pred_fns = []
    for m in lt.methods.values():
        for nn in ast.walk(m.node):
            if isinstance(nn, ast.Compare) and "itsGnLifetimeLocTE" in unparse(nn):
                pred_fns.append((m, nn))
    if not pred_fns:
        raise AnalysisError("C08: no comparison against itsGnLifetimeLocTE found in LocationTable (expiry predicate vanished)")
    rt = P.func(f"{LT}.refresh_table")
    pred_names = {m.name for m, _ in pred_fns}
    uses = pred_names & ({rt.name} | {c.func.attr for c in P.calls_in(rt) if isinstance(c.func, ast.Attribute)})
    ctx.ob("C08.expiry", rt.short(), "filters-by-predicate", bool(uses),
           f"refresh_table filters the table by the lifetime predicate ({sorted(pred_names)})", rt.loc)
    for m, cmp_ in pred_fns:
        fl = ctx.flows.get(m)
        st = fl.state_at(cmp_)
        x = fl.expand(cmp_, st)
        xt = norm(pretty(unparse(x)))
        subs = [nn for nn in ast.walk(x) if isinstance(nn, ast.BinOp) and isinstance(nn.op, ast.Sub)]
        ok_ts = any(re.fullmatch(r"\w+\.position_vector\.tst", norm(pretty(unparse(sb.right)))) for sb in subs)
        loc = f"{m.module.rel}:{cmp_.lineno}"
        ctx.ob("C08.expiry", m.short(), "uses-pv-timestamp", ok_ts,
               f"expiry predicate `{pretty(unparse(x))[:110]}` " + ("ages the entry by its position-vector timestamp" if ok_ts else
                                                                    "does not age the entry by entry.position_vector.tst (the entry "
                                                                    "and its duplicate-packet list are purged/kept by an unrelated clock)"),
               loc)
        ctx.ob("C08.expiry", m.short(), "lifetime", "self.mib.itsGnLifetimeLocTE*1000" in xt and ">=" in xt.replace("<=", ">="),
               "kept while age <= itsGnLifetimeLocTE seconds (in ms)", loc)
        # ahead-of-clock: the enclosing boolean expression offers `tst > now` as an alternative to the modular difference
        encl = cmp_
        while id(encl) in fl.parent and isinstance(fl.parent[id(encl)], (ast.BoolOp, ast.UnaryOp)):
            encl = fl.parent[id(encl)]
        ex = fl.expand(encl, st)
        now_name = norm(pretty(unparse(subs[0].left))) if subs else "?"
        ahead = False
        if isinstance(ex, ast.BoolOp) and isinstance(ex.op, ast.Or):
            for v in ex.values:
                t = norm(pretty(unparse(v)))
                if re.fullmatch(r"\w+\.position_vector\.tst>=?" + re.escape(now_name), t) or \
                        re.fullmatch(re.escape(now_name) + r"<=?\w+\.position_vector\.tst", t):
                    ahead = True
        ctx.ob("C08.expiry", m.short(), "ahead-of-clock", ahead,
               "TST subtraction is modulo 2^32: for an entry whose timestamp is ahead of the clock `now - tst` wraps to ~2^32 ms "
               "and the entry is purged at once" + (" - covered by the `tst > now` alternative" if ahead else
                                                    "; the predicate has no `entry.position_vector.tst > now` alternative"), loc)
        # clock resolution: every value passed as `now` has millisecond resolution (or the ahead guard makes truncation harmless)
        clock_srcs = []
        if now_name in m.params:
            for caller, call in P.callers_of(m):
                cfl = ctx.flows.get(caller)
                idx = m.params.index(now_name) - 1
                arg = call.args[idx] if idx < len(call.args) else None
                if arg is not None:
                    clock_srcs.append(norm(pretty(unparse(cfl.expand(arg, cfl.state_at(call))))))
        else:
            clock_srcs.append(now_name)
        resolved = []
        for cs_ in clock_srcs:
            mm = re.fullmatch(r"self\.(\w+)\(\)", cs_)
            if mm and mm.group(1) in lt.methods:
                f2 = lt.methods[mm.group(1)]
                fl2 = ctx.flows.get(f2)
                for k, s2, st2 in fl2.exits:
                    if k == "return":
                        resolved.append(norm(pretty(unparse(fl2.expand(s2.value, st2)))))
            else:
                resolved.append(cs_)
        ms = bool(resolved) and all("set_in_normal_timestamp_milliseconds(" in r and "*1000" in r for r in resolved)
        ctx.ob("C08.expiry", m.short(), "clock-resolution", ms or ahead,
               "the expiry clock " + ("has millisecond resolution" if ms else
                                      "is truncated to whole seconds while PV timestamps have millisecond resolution"
                                      + (" (harmless under the ahead-of-clock alternative)" if ahead else
                                         ": every entry stamped later in the current second is 'ahead' and is purged")) +
               f" [{'; '.join(r[:70] for r in resolved)}]", loc)
    # ---- purge on read
    for name in ("get_entry", "get_neighbours"):
        f = P.func(f"{LT}.{name}")
        called = {c.func.attr for c in P.calls_in(f) if isinstance(c.func, ast.Attribute)}
        ok = bool(called & (pred_names | {"refresh_table"})) or name in pred_names
        ctx.ob("C08.purge-on-read", f.short(), "applies-expiry", ok,
               f"{name} " + ("applies the expiry predicate before answering" if ok else
                             "returns entries without applying the expiry predicate: an expired station stays visible (and a "
                             "neighbour) until the next reception triggers refresh_table"), f.loc)


def _entry_roots(P, fi: FuncInfo, depth: int = 6) -> set:
    """Names of the top-most in-class callers (LocationTable API methods) that can reach fi."""
    roots, todo, seen = set(), [fi], set()
    while todo:
        f = todo.pop()
        if f.qual in seen:
            continue
        seen.add(f.qual)
        callers = [c for c, _ in P.callers_of(f) if c.cls is not None and c.cls.name in ("LocationTable", "LocationTableEntry")]
        if not callers:
            roots.add(f.qual)
        todo.extend(callers)
    return roots
