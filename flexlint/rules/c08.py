"""C08 - location table reflects the newest valid information about each station.

Decides: the strict-newer guard on every position-vector store - a never-filled entry takes the first PV, a filled one
every strictly newer PV (newer-only) - and that every table update reaches update_position_vector with the packet's
source PV (pv-update); the wrap-around TST order as an exact truth table over the cells of d = a - b: thresholds 2^31,
> as serial-number order, antisymmetric, == only at d = 0, >=, <, <= derived from them (tst-order); the neighbour-flag
discipline (neighbour: set True only from beacon / SHB processing and certainly by it; set False only for an entry
created for this packet, where "new" is decided by the expiry-aware lookup get_entry(source address) is None - a raw
table access, which also finds expired entries, fails); that the own address never reaches a table update: DAD on the
source address first, DAD raising exactly for the own address (no-self); expiry: refresh_table keeps exactly the
entries satisfying the lifetime predicate; the predicate ages an entry by its position-vector timestamp, keeps it
while age <= itsGnLifetimeLocTE, keeps an entry stamped ahead of the clock instead of taking the wrapped difference,
is fed a clock of millisecond resolution (or is harmless under the ahead alternative), and TST.__sub__ is the
difference modulo 2^32 on every cell (expiry); that get_entry / get_neighbours hand out only entries on which the
predicate held - decided on the must-facts or, where nested ifs separate the cases, path by path: on every path to
the return the entry was found None or the predicate was true on it (purge-on-read); that the table's key class compares
by value and its hash depends on nothing its equality ignores (key-identity).
Does not decide entry presence over histories with clock advances as values, nor PDR arithmetic.
"""
from __future__ import annotations

import ast
import re

from ..prog import AnalysisError, ClassInfo, FuncInfo, dotted, unparse
from ..absint import region_table, to_poly, _run_dunder
from ..locks import LockAnalysis
from ..match import CallSummaries, pretty
from .. import sem
from . import gnutil as G

PROP = "C08"
LT = "geonet.location_table.LocationTable"
LTE = "geonet.location_table.LocationTableEntry"
TST = "geonet.position_vector.TST"


def norm(s):
    return re.sub(r"\s+", "", s)


def run(ctx):
    P = ctx.prog
    ctx.explanation = (
        "Guard rules (K1) on every store to LocationTableEntry.position_vector / is_neighbour and on every location-table "
        "update; an exact finite truth table (K10) of TST.__gt__/__ge__/__lt__/__le__/__eq__ obtained by interpreting the "
        "methods' expression trees on one representative per cell of the threshold arrangement of d = a - b "
        "(cells delimited by 0 and +-2^31, which are exactly the thresholds the expressions use - checked), compared "
        "with the serial-number order the property states; structural rules on the expiry predicate of refresh_table and "
        "on the readers. Each rule quantifies over all packets / all timestamp pairs at once.")
    ctx.declined = ["entry presence over histories with clock advances (value level)", "packet data rate arithmetic"]
    la = LockAnalysis(ctx)

    # ---- newer-only
    n = 0
    stores = []
    for a in la.accesses(LTE, "position_vector"):
        if a.kind not in ("write", "rmw"):
            continue
        n += 1
        fl = la.flow(a.fi)
        st = fl.state_at(a.stmt)
        facts = _xfacts(st)
        stored = ast.Attribute(value=a.node.value, attr="position_vector", ctx=ast.Load())
        val = fl.expand(a.stmt.value, st) if isinstance(a.stmt, ast.Assign) else None
        is_param = isinstance(val, ast.Name) and val.id in a.fi.params[1:]
        newer_a = sem.atoms(ast.Compare(left=_attr(val, "tst"), ops=[ast.Gt()], comparators=[_attr(stored, "tst")]), True) if is_param else ["<?>"]
        never_a = sem.atoms(ast.Compare(left=_attr(_attr(stored, "tst"), "msec"), ops=[ast.Eq()], comparators=[ast.Constant(0)]), True)
        newer = all(x in facts for x in newer_a)
        never = all(x in facts for x in never_a)
        either = _implied(facts, [newer_a, never_a])
        stores.append((a.fi.short(), facts, (newer_a, never_a)))
        shown = pretty(unparse(val)) if val is not None else "?"
        ctx.ob("C08.newer-only", a.fi.short(), f"store#{n}", either and is_param,
               f"stored PV `{shown}` " + ("guarded by strict `new.tst > stored.tst`" if newer else
                                          "guarded by 'entry never filled'" if never else
                                          "guarded by 'never filled or strictly newer'" if either else
                                          "is NOT guarded by `position_vector.tst > self.position_vector.tst` (strict, wrap-aware) "
                                          f"nor by 'never filled'; guards: {sorted(k for k in facts if 'tst' in k)}"),
               f"{a.fi.module.rel}:{a.line}")
    # completeness: a never-filled entry takes the first PV, a filled one takes every strictly newer PV (nothing else
    # conditions the store)
    for name, idx in (("never-filled", 1), ("strictly-newer", 0)):
        cov = None
        for con_, facts_, alts_ in stores:
            mine, other = alts_[idx], alts_[1 - idx]
            if mine == ["<?>"]:
                continue
            rest = [f for f in facts_ if not (f in mine or sem._neg(f) in other or (
                f.startswith("or(") and any(set(_split_top(m_, "&")) <= set(mine) for m_ in _split_top(f[3:-1], "|"))))]
            if not rest:
                cov = con_
        ctx.ob("C08.newer-only", f"{LTE.split('flexstack.')[-1]}.update_position_vector", f"stores-when:{name}", cov is not None,
               ("a never-filled entry takes the first received position vector" if idx == 1 else
                "a filled entry takes every strictly newer position vector") if cov else
               f"no store of the received position vector is reached under the condition `{name}` alone",
               P.func(f"{LTE}.update_position_vector").loc)
    # an older (or equal) position vector is IGNORED, the packet that carried it is still processed: the entry's update methods
    # raise for a duplicated sequence number only.  Refusing the packet on timestamp order lets one frame with a timestamp ahead
    # of the sender's clock silence that station (every later beacon / SHB / CAM is "older" and dropped).
    lte_cls = P.cls(LTE)
    n_up = 0
    for nm, fi_ in sorted(lte_cls.methods.items()):
        if not (nm.startswith("update_with_") or nm == "update_position_vector"):
            continue
        n_up += 1
        other = []
        for r_ in [x for x in ast.walk(fi_.node) if isinstance(x, ast.Raise) and x.exc is not None]:
            cname = (dotted(r_.exc.func) if isinstance(r_.exc, ast.Call) else dotted(r_.exc)) or "?"
            if cname.split(".")[-1] != "DuplicatedPacketException":
                other.append((cname, r_.lineno))
        ctx.ob("C08.newer-only", fi_.short(), "older-pv-ignored-not-refused", not other,
               "the update raises for a duplicated sequence number only" if not other else
               f"the update raises {other[0][0]} (line {other[0][1]}): the whole packet is refused because of its position vector's timestamp - "
               "after one frame stamped ahead of the sender's clock every later packet of that station is dropped", fi_.loc)
    if n_up < 3:
        raise AnalysisError(f"C08: only {n_up} update methods found on LocationTableEntry (confirmed: 5)")
    ctx.floor("C08.newer-only", 3, "PV stores + coverage")

    # ---- tst order truth table
    tst = P.cls(TST)
    ops = ["__gt__", "__ge__", "__lt__", "__le__", "__eq__"]
    # thresholds used by the code must be within {0, +-2^31}: otherwise the cell decomposition is not exact
    for op in ops:
        src = unparse(tst.methods[op].node)
        consts = set()
        for nn in ast.walk(tst.methods[op].node):
            if isinstance(nn, ast.Compare):
                for c in [nn.left] + nn.comparators:
                    v = P.try_fold(tst.module, c)
                    if isinstance(v, (int, float)):
                        consts.add(v)
        bad = [c for c in consts if c not in (0, 2 ** 31, -(2 ** 31), 2 ** 31 - 1, 2 ** 31 + 1)]
        if bad:
            ctx.ob("C08.tst-order", tst.methods[op].short(), "thresholds", False,
                   f"{op} compares against {bad}: the wrap-around boundary must be 2^31", tst.methods[op].loc)
    table = region_table(P, tst, "msec", ops)
    gt, ge, lt, le, eq = (table[o] for o in ops)
    expect_gt = {"d<-H": True, "-H<d<0": False, "-H<d<0 (near -H)": False, "d=0": False, "0<d<H": True, "0<d<H (near H)": True,
                 "d>H": False, "d=M-1": False, "d=-(M-1)": True}
    for reg, want in expect_gt.items():
        ctx.ob("C08.tst-order", tst.methods["__gt__"].short(), f"gt:{reg}", gt[reg] == want,
               f"a > b on region {reg} evaluates to {gt[reg]}, serial-number order requires {want}", tst.methods["__gt__"].loc)
    mirror = {"d<-H": "d>H", "d=-H": "d=H", "-H<d<0": "0<d<H", "-H<d<0 (near -H)": "0<d<H (near H)", "d=0": "d=0",
              "0<d<H": "-H<d<0", "0<d<H (near H)": "-H<d<0 (near -H)", "d=H": "d=-H", "d>H": "d<-H", "d=M-1": "d=-(M-1)",
              "d=-(M-1)": "d=M-1"}
    for reg in gt:
        both = gt[reg] and gt[mirror[reg]]
        ctx.ob("C08.tst-order", tst.methods["__gt__"].short(), f"antisymmetric:{reg}", not both,
               f"a > b and b > a both {'hold' if both else 'never hold'} on region {reg}", tst.methods["__gt__"].loc)
        ctx.ob("C08.tst-order", tst.methods["__eq__"].short(), f"eq:{reg}", eq[reg] == (reg == "d=0"),
               f"a == b on region {reg} is {eq[reg]}", tst.methods["__eq__"].loc)
        ctx.ob("C08.tst-order", tst.methods["__ge__"].short(), f"ge:{reg}", ge[reg] == (gt[reg] or eq[reg]),
               f">= must be (> or ==) on region {reg}", tst.methods["__ge__"].loc)
        ctx.ob("C08.tst-order", tst.methods["__lt__"].short(), f"lt:{reg}", lt[reg] == (not ge[reg]),
               f"< must be not >= on region {reg}", tst.methods["__lt__"].loc)
        ctx.ob("C08.tst-order", tst.methods["__le__"].short(), f"le:{reg}", le[reg] == (not gt[reg]),
               f"<= must be not > on region {reg}", tst.methods["__le__"].loc)
    ctx.extra["tst_truth_table"] = {k: v for k, v in table.items()}
    ctx.extra["exhaustive"] = True

    # ---- neighbour flag discipline
    handlers = G.receive_handlers(ctx)
    single = {h.fi.qual: h for h in handlers if not h.multi_hop}
    n = 0
    for a in la.accesses(LTE, "is_neighbour"):
        if a.kind not in ("write", "rmw") or not isinstance(a.stmt, ast.Assign):
            continue
        n += 1
        fl = la.flow(a.fi)
        st = fl.state_at(a.stmt)
        v = P.try_fold(a.fi.module, a.stmt.value, default="<nc>")
        con = a.fi.short()
        loc = f"{a.fi.module.rel}:{a.line}"
        if v is True:
            # only reachable from single-hop receptions: every caller chain starts at a handler of a packet type without
            # sequence number (SHB, beacon) - decided on the handlers, not on method names
            roots = _entry_roots(P, a.fi)
            ext = []
            for r in roots:
                ext += [c for c, _ in P.callers_of(P.funcs[r]) if not (c.cls is not None and c.cls.name in ("LocationTable", "LocationTableEntry"))]
            bad = sorted({c.name for c in ext if c.qual not in single})
            ok = bool(ext) and not bad
            ctx.ob("C08.neighbour", con, f"set-true#{n}", ok,
                   f"is_neighbour = True reachable from {sorted(r.split('.')[-1] for r in roots)}, called by "
                   f"{sorted({c.name for c in ext})}; only beacon/SHB processing may set it" +
                   (f" - {bad} handle(s) multi-hop packets: a station heard through a relay becomes a neighbour" if bad else ""), loc)
        elif v is False:
            ok, why = _only_for_new_entry(ctx, P, la, a, fl, st)
            ctx.ob("C08.neighbour", con, f"set-false#{n}", ok,
                   "is_neighbour = False " + ("only for a newly created entry" if ok else
                                              f"is executed for EXISTING entries too ({why}): a multi-hop packet from a station known "
                                              "through its beacons removes it from the neighbour set"), loc)
        else:
            ctx.ob("C08.neighbour", con, f"set-other#{n}", False,
                   f"is_neighbour assigned a non-constant `{unparse(a.stmt.value)}`", loc)
    ctx.floor("C08.neighbour", 7, "is_neighbour stores")
    # single-hop receptions certainly mark the sender as neighbour
    for h in single.values():
        for s in G.sinks_of(ctx, h):
            if s.kind != "table-update":
                continue
            tg = [t for t in P.call_targets(s.fi, s.node, count=False) if isinstance(t, FuncInfo)]
            ok = bool(tg) and all(_must_set_neighbour(ctx, t, None) for t in tg)
            ctx.ob("C08.neighbour", h.fi.short(), f"marks-neighbour:{unparse(s.node.func).split('.')[-1]}", ok,
                   "a single-hop reception (SHB / beacon) " + ("certainly sets IS_NEIGHBOUR of the sender's entry" if ok else
                   "does not set IS_NEIGHBOUR = True on every path: directly heard stations never become neighbours "
                   "(greedy forwarding and the SCF decision see an empty neighbourhood)"), f"{s.fi.module.rel}:{s.node.lineno}")

    # ... and the table update is reached for EVERY single-hop packet that passed DAD: it is an unconditional statement of the
    # handler's try body and nothing returns in front of it (a `not newer than the stored PV -> return` shortcut in the handler
    # skips the neighbour flag for a station first heard through a multi-hop packet of the same position fix)
    for h in single.values():
        for s in G.sinks_of(ctx, h):
            if s.kind != "table-update" or s.fi is not h.fi:
                continue
            body_owner = None
            for t_ in [x for x in ast.walk(h.fi.node) if isinstance(x, ast.Try)]:
                if any(isinstance(b_, ast.Expr) and b_.value is s.node or isinstance(b_, ast.Assign) and b_.value is s.node for b_ in t_.body):
                    body_owner = t_.body
            if body_owner is None and any(isinstance(b_, (ast.Expr, ast.Assign)) and b_.value is s.node for b_ in h.fi.node.body):
                body_owner = h.fi.node.body
            early = []
            if body_owner is not None:
                idx = next(i_ for i_, b_ in enumerate(body_owner) if isinstance(b_, (ast.Expr, ast.Assign)) and b_.value is s.node)
                for b_ in body_owner[:idx]:
                    early += [r_ for r_ in ast.walk(b_) if isinstance(r_, (ast.Return, ast.Continue, ast.Break))]
            ok = body_owner is not None and not early
            ctx.ob("C08.neighbour", h.fi.short(), f"table-update-unconditional:{unparse(s.node.func).split('.')[-1]}", ok,
                   "every single-hop packet that passed duplicate-address detection reaches the location-table update" if ok else
                   ("the location-table update is skipped on some path (" +
                    (f"early exit at line {early[0].lineno}" if early else "the update is nested in a condition") +
                    "): the sender's entry is not refreshed and IS_NEIGHBOUR is not set although a beacon / SHB of it was processed"),
                   f"{s.fi.module.rel}:{s.node.lineno}")

    # ---- no-self: every table update is dominated by DAD on the packet's source address (shared instances with C06.dad-first)
    cs = CallSummaries(P, ctx.flows)
    for h in handlers:
        for s in G.sinks_of(ctx, h):
            if s.kind != "table-update":
                continue
            fl = G.flow_for(ctx, s.fi, h)
            ok, why = G.dad_on_source(ctx, h, s.fi, fl.state_at(s.node))
            ctx.ob("C08.no-self", s.fi.short(), unparse(s.node.func).split(".")[-1], ok,
                   "location-table update " + why + ("" if ok else ": the own address can be entered"),
                   f"{s.fi.module.rel}:{s.node.lineno}")
    ctx.floor("C08.no-self", 8)
    G.check_dad_body(ctx, "C08.no-self")

    # ---- every reception files the packet's source PV (through the strict-newer store above)
    upd = P.func(f"{LTE}.update_position_vector")
    for h in handlers:
        want = sem.cx(G.source_pv_x(ctx, h))
        for s in G.sinks_of(ctx, h):
            if s.kind != "table-update":
                continue
            fl = G.flow_for(ctx, s.fi, h)
            st = fl.state_at(s.node)
            got = []
            for t in [t for t in P.call_targets(s.fi, s.node, count=False) if isinstance(t, FuncInfo)]:
                amap = G.bind_args(t, s.node) or {}
                xmap = {p: fl.expand(v_, st) for p, v_ in amap.items() if p != t.params[0]}
                for q, args, _ in cs.always(t):
                    if q != upd.qual or not args:
                        continue
                    try:
                        node = ast.parse(args[0], mode="eval").body
                    except SyntaxError:
                        continue
                    got.append(sem.cx(G.subst_names(node, xmap)))
            ok = want in got
            ctx.ob("C08.pv-update", s.fi.short(), unparse(s.node.func).split(".")[-1], ok,
                   "the table update " + (f"always reaches update_position_vector(<source PV of the packet>)" if ok else
                   f"does not reach update_position_vector(`{want[:60]}`) on every path (reached with: {[g[:50] for g in got]}): the "
                   "entry keeps a stale or empty position vector although newer information was received"),
                   f"{s.fi.module.rel}:{s.node.lineno}")
    # ---- the entry that is updated is the entry the table holds: an entry created for this packet is put into the table under
    # the source address by a plain store (`self.loc_t[addr] = entry`), or the name is rebound to what the table kept
    # (`entry = self.loc_t.setdefault(addr, entry)`).  `setdefault` alone keeps a stale object (an expired entry the
    # expiry-aware lookup did not report) and the update goes to an orphan that nothing refers to.
    n_new = 0
    for m in P.cls(LT).methods.values():
        for blk in ast.walk(m.node):
            for fld in ("body", "orelse"):
                lst = getattr(blk, fld, None)
                if not (isinstance(lst, list) and lst and isinstance(lst[0], ast.stmt)):
                    continue
                for i_, st_ in enumerate(lst):
                    if not (isinstance(st_, (ast.Assign, ast.AnnAssign)) and isinstance(getattr(st_, "value", None), ast.Call)):
                        continue
                    tg = [t for t in P.call_targets(m, st_.value, count=False) if isinstance(t, ClassInfo) and t.qual.endswith(LTE)]
                    tgt = st_.targets[0] if isinstance(st_, ast.Assign) else st_.target
                    if not tg or not isinstance(tgt, ast.Name):
                        continue
                    n_new += 1
                    e = tgt.id
                    stored = False
                    for later in lst[i_ + 1:]:
                        if isinstance(later, ast.Assign) and isinstance(later.targets[0], ast.Subscript) and \
                                dotted(later.targets[0].value) == "self.loc_t" and isinstance(later.value, ast.Name) and later.value.id == e:
                            stored = True
                        if isinstance(later, ast.Assign) and isinstance(later.targets[0], ast.Name) and later.targets[0].id == e and \
                                isinstance(later.value, ast.Call) and dotted(later.value.func) == "self.loc_t.setdefault" and \
                                len(later.value.args) == 2 and isinstance(later.value.args[1], ast.Name) and later.value.args[1].id == e:
                            stored = True
                    ctx.ob("C08.pv-update", m.short(), f"created-entry-is-stored:{e}", stored,
                           "the entry created for this packet is the one stored in the table" if stored else
                           f"the LocationTableEntry created at line {st_.lineno} is not put into the table by a store (or the name is not rebound "
                           "to what the table kept): the packet's position vector goes to an object the table does not hold, the station stays "
                           "absent / keeps its stale entry", f"{m.module.rel}:{st_.lineno}")
    if n_new < 6:
        raise AnalysisError(f"C08: only {n_new} entry creations found in LocationTable (confirmed: 8)")
    ctx.floor("C08.pv-update", 8)

    # ---- expiry predicate (inline in refresh_table, or in a helper the table methods share)
    lt = P.cls(LT)
    pred_fns = []
    for m in lt.methods.values():
        for nn in ast.walk(m.node):
            if isinstance(nn, ast.Compare) and any(isinstance(x, ast.Attribute) and x.attr == "itsGnLifetimeLocTE" for x in ast.walk(nn)):
                pred_fns.append((m, nn))
    if not pred_fns:
        raise AnalysisError("C08: no comparison against itsGnLifetimeLocTE found in LocationTable (expiry predicate vanished)")
    rt = P.func(f"{LT}.refresh_table")
    pred_names = {m.name for m, _ in pred_fns}
    preds = {m.name: m for m, _ in pred_fns}
    ok_f, why_f = _refresh_filters(ctx, P, rt, preds)
    ctx.ob("C08.expiry", rt.short(), "filters-by-predicate", ok_f,
           f"refresh_table filters the table by the lifetime predicate ({sorted(pred_names)})" if ok_f else
           f"refresh_table does not keep exactly the entries for which the lifetime predicate holds: {why_f}", rt.loc)
    for m, cmp_ in pred_fns:
        fl = ctx.flows.get(m)
        st = fl.state_at(cmp_)
        x = fl.expand(cmp_, st)
        subs = [nn for nn in ast.walk(x) if isinstance(nn, ast.BinOp) and isinstance(nn.op, ast.Sub)]
        loc = f"{m.module.rel}:{cmp_.lineno}"

        def _entry_pv_tst(e):
            return isinstance(e, ast.Attribute) and e.attr == "tst" and isinstance(e.value, ast.Attribute) \
                and e.value.attr == "position_vector" and isinstance(e.value.value, ast.Name) and any(
                    isinstance(t, str) and t.endswith(".LocationTableEntry") for t in P.expr_types(m, e.value.value))
        subs = [sb for sb in subs if _entry_pv_tst(sb.right)] or subs
        ok_ts = bool(subs) and _entry_pv_tst(subs[0].right)
        ctx.ob("C08.expiry", m.short(), "uses-pv-timestamp", ok_ts,
               f"expiry predicate `{pretty(unparse(x))[:110]}` " + ("ages the entry by its position-vector timestamp" if ok_ts else
                                                                    "does not age the entry by entry.position_vector.tst (the entry "
                                                                    "and its duplicate-packet list are purged/kept by an unrelated clock)"),
               loc)
        # age <= lifetime (seconds -> ms): canonical comparison, lifetime side compared as a polynomial
        ok_life = False
        if subs and isinstance(x, ast.Compare) and len(x.ops) == 1:
            want_l = to_poly(P, m.module, ast.parse("self.mib.itsGnLifetimeLocTE * 1000", mode="eval").body)
            for big, small, op in ((x.comparators[0], x.left, x.ops[0]), (x.left, x.comparators[0], x.ops[0])):
                le = isinstance(op, ast.LtE) if big is x.comparators[0] else isinstance(op, ast.GtE)
                if le and sem.cx(small) == sem.cx(subs[0]) and to_poly(P, m.module, big) == want_l:
                    ok_life = True
        ctx.ob("C08.expiry", m.short(), "lifetime", ok_life,
               "kept while age <= itsGnLifetimeLocTE seconds (in ms)", loc)
        # ahead-of-clock: the modular difference is only taken when the timestamp is NOT ahead of the clock, and an
        # entry that is ahead counts as alive
        now_x = subs[0].left if subs else ast.Constant(None)
        tst_x = subs[0].right if subs else ast.Constant(None)
        now_name = norm(pretty(unparse(now_x)))
        not_ahead = set(sem.atoms(ast.Compare(left=tst_x, ops=[ast.Gt()], comparators=[now_x]), False)) | \
            set(sem.atoms(ast.Compare(left=tst_x, ops=[ast.GtE()], comparators=[now_x]), False))
        is_ahead = set(sem.atoms(ast.Compare(left=tst_x, ops=[ast.Gt()], comparators=[now_x]), True)) | \
            set(sem.atoms(ast.Compare(left=tst_x, ops=[ast.GtE()], comparators=[now_x]), True))
        guarded = bool(_xfacts(st) & not_ahead)
        # the comparison's value is the function's verdict: cmp (or ... or cmp) is what a `return` hands back
        top = cmp_
        while isinstance(fl.parent.get(id(top)), ast.BoolOp) and isinstance(fl.parent[id(top)].op, ast.Or):
            top = fl.parent[id(top)]
        ret = fl.parent.get(id(top))
        is_verdict = isinstance(ret, ast.Return) and ret.value is top
        ahead_alive = True
        for k, s2, st2 in fl.exits:
            if k == "return" and s2 is not ret and (_xfacts(st2) & is_ahead):
                if not (isinstance(s2.value, ast.Constant) and s2.value.value is True):
                    ahead_alive = False
        ahead = guarded and is_verdict and ahead_alive
        ctx.ob("C08.expiry", m.short(), "ahead-of-clock", ahead,
               "TST subtraction is modulo 2^32: for an entry whose timestamp is ahead of the clock `now - tst` wraps to ~2^32 ms "
               "and the entry is purged at once" + (" - covered by the `tst > now` alternative" if ahead else
                                                    "; the predicate has no `entry.position_vector.tst > now` alternative that keeps "
                                                    f"such an entry [difference guarded={guarded}, verdict returned={is_verdict}, "
                                                    f"ahead entries alive={ahead_alive}]"), loc)
        # the difference itself: TST - TST must be the distance modulo 2^32 (the predicate relies on it)
        if subs:
            both_tst = all(any(isinstance(t, str) and t == tst.qual for t in P.expr_types(m, e)) for e in (subs[0].left, subs[0].right))
            if both_tst:
                _tst_sub_table(ctx, P, tst)
            else:
                ctx.ob("C08.expiry", m.short(), "difference-operands", False,
                       f"`{pretty(unparse(subs[0]))}` is not a difference of two TST values", loc)
        # clock resolution: every value passed as `now` has millisecond resolution (or the ahead guard makes truncation harmless)
        resolved = []
        clock_nodes = []
        if now_name in m.params:
            for caller, call in P.callers_of(m):
                cfl = ctx.flows.get(caller)
                arg = (G.bind_args(m, call) or {}).get(now_name)
                if arg is not None:
                    clock_nodes.append((caller, cfl.expand(arg, cfl.state_at(call))))
        else:
            clock_nodes.append((m, now_x))
        final_nodes = []
        for owner, node in clock_nodes:
            # a clock helper of the table (`self._now()` / `LocationTable._now()`): look at what it returns
            tgt = None
            if isinstance(node, ast.Call) and isinstance(node.func, ast.Attribute) and not node.args and node.func.attr in lt.methods \
                    and sem.cx(node.func.value) in ("self", lt.name):
                tgt = lt.methods[node.func.attr]
            if tgt is not None:
                fl2 = ctx.flows.get(tgt)
                for k, s2, st2 in fl2.exits:
                    if k == "return" and s2.value is not None:
                        final_nodes.append((tgt, fl2.expand(s2.value, st2)))
            else:
                final_nodes.append((owner, node))
        ms_want = to_poly(P, lt.module, ast.parse("int(TimeService.time() * 1000)", mode="eval").body)
        ms_want2 = to_poly(P, lt.module, ast.parse("TimeService.time() * 1000", mode="eval").body)

        def _ms_clock(owner, node):
            if not (isinstance(node, ast.Call) and isinstance(node.func, ast.Attribute) and len(node.args) == 1 and not node.keywords):
                return False
            r = P.resolve_expr_entity(owner.module, node.func)
            if not (isinstance(r, FuncInfo) and r.cls is tst and r.name == "set_in_normal_timestamp_milliseconds"):
                return False
            got = to_poly(P, owner.module, node.args[0])
            # truncation comes after the scaling: `int(t) * 1000` is a whole-second clock in millisecond clothing
            for b_ in ast.walk(node.args[0]):
                if isinstance(b_, ast.BinOp) and isinstance(b_.op, ast.Mult):
                    for side, other in ((b_.left, b_.right), (b_.right, b_.left)):
                        k_ = P.try_fold(owner.module, other)
                        if isinstance(k_, (int, float)) and k_ > 1 and any(
                                isinstance(c_, ast.Call) and (dotted(c_.func) or "").split(".")[-1] in ("int", "floor", "trunc", "round")
                                for c_ in ast.walk(side)):
                            return False
            return got == ms_want or got == ms_want2
        resolved = [norm(pretty(unparse(nd))) for _, nd in final_nodes]
        ms = bool(final_nodes) and all(_ms_clock(o, nd) for o, nd in final_nodes)
        ctx.ob("C08.expiry", m.short(), "clock-resolution", ms,
               "the expiry clock " + ("has millisecond resolution" if ms else
                                      "is truncated to whole seconds while PV timestamps have millisecond resolution"
                                      + (": an entry stays visible for up to 999 ms after its lifetime ended" if ahead else
                                         ": every entry stamped later in the current second is 'ahead' and is purged")) +
               f" [{'; '.join(r[:70] for r in resolved)}]", loc)
    key_identity(ctx)
    ctx.floor("C08.key-identity", 2)
    # ---- purge on read
    for name in ("get_entry", "get_neighbours"):
        f = P.func(f"{LT}.{name}")
        ok, why = (True, "contains the predicate") if name in pred_names else _answers_only_alive(ctx, P, f, preds)
        ctx.ob("C08.purge-on-read", f.short(), "applies-expiry", ok,
               f"{name} " + ("applies the expiry predicate before answering" if ok else
                             f"returns entries without applying the expiry predicate ({why}): an expired station stays visible (and a "
                             "neighbour) until the next reception triggers refresh_table"), f.loc)


def _self_fields(cls: ClassInfo, fn: FuncInfo, seen=None) -> set:
    """First-level instance fields a method reads through its first parameter, followed through calls of methods of the
    same class on it (encode_to_int() reads what it reads)."""
    seen = set() if seen is None else seen
    if fn.qual in seen or not fn.params:
        return set()
    seen.add(fn.qual)
    me, out = fn.params[0], set()
    called = set()
    for n in ast.walk(fn.node):
        if isinstance(n, ast.Attribute) and isinstance(n.value, ast.Name) and n.value.id == me:
            m = cls.find_method(n.attr)
            if m is not None:
                called.add(n.attr)
                out |= _self_fields(cls, m, seen)
            else:
                out.add(n.attr)
    return out


def key_identity(ctx) -> None:
    """The location table (and the location-service buffers) are dictionaries keyed by GNAddress objects that are decoded
    anew from every packet.  `S is present with the most recent PV` then needs value equality on the key, and a hash that
    depends on nothing the equality ignores: otherwise two addresses the stack itself calls equal land in different
    buckets, the lookup for S misses and S gets a second, stale entry (or its buffered packets are never flushed)."""
    P = ctx.prog
    lt = P.cls(LT)
    init = lt.find_method("__init__")
    key_classes = []
    for n in ast.walk(init.node):
        if isinstance(n, ast.AnnAssign) and dotted(n.target) == "self.loc_t" and isinstance(n.annotation, ast.Subscript):
            sl = n.annotation.slice
            k = sl.elts[0] if isinstance(sl, ast.Tuple) and sl.elts else None
            r = P.resolve_expr_entity(lt.module, k) if k is not None else None
            if isinstance(r, ClassInfo):
                key_classes.append(r)
    if not key_classes:
        raise AnalysisError("C08: the key type of LocationTable.loc_t is no longer declared (dict[<class>, ...] annotation in __init__)")
    for kc in key_classes:
        eq, hs = kc.methods.get("__eq__"), kc.methods.get("__hash__")
        declared = set(kc.fields)
        kloc = f"{kc.module.rel}:{kc.node.lineno}"
        if eq is not None:
            other = eq.params[1] if len(eq.params) > 1 else None
            e_fields = _self_fields(kc, eq) & (declared or _self_fields(kc, eq))
            value_eq = bool(e_fields) and other is not None
            e_txt = "explicit __eq__ on {" + ", ".join(sorted(e_fields)) + "}"
        elif kc.dataclass:
            e_fields, value_eq, e_txt = set(declared), True, "dataclass equality on all fields"
        else:
            e_fields, value_eq, e_txt = set(), False, "identity (no __eq__)"
        if hs is not None:
            h_fields, hashable = _self_fields(kc, hs) & (declared or _self_fields(kc, hs)), True
            h_txt = "explicit __hash__ on {" + ", ".join(sorted(h_fields)) + "}"
        elif kc.dataclass and kc.frozen:
            h_fields, hashable, h_txt = set(declared), True, "generated dataclass hash on all fields {" + ", ".join(sorted(declared)) + "}"
        elif eq is None and not kc.dataclass:
            h_fields, hashable, h_txt = set(), True, "identity hash"
        else:
            h_fields, hashable, h_txt = set(), False, "no __hash__ (defining __eq__ without it makes the class unhashable)"
        ctx.ob("C08.key-identity", kc.qual[10:], "value-equality", value_eq,
               f"table keys compare by value: {e_txt}" if value_eq else
               f"table keys compare by {e_txt}: an address decoded from the next packet of the same station never equals the stored key", kloc)
        ok = hashable and h_fields <= e_fields if value_eq else hashable
        ctx.ob("C08.key-identity", kc.qual[10:], "hash-agrees-with-eq", ok,
               f"{h_txt} depends only on what the equality compares ({e_txt})" if ok else
               f"{h_txt}, but {e_txt}: two addresses of one station (same MID, different M / ST bits) are equal and hash differently, "
               "so the dictionary lookup for a known station misses - a second entry is created and the first keeps a stale position "
               "vector; the location-service buffers keyed the same way are never flushed", kloc)


def _disjuncts(node: ast.AST, pol: bool) -> list:
    """(node, polarity) members of the disjunction a fact stands for."""
    if isinstance(node, ast.UnaryOp) and isinstance(node.op, ast.Not):
        return _disjuncts(node.operand, not pol)
    if isinstance(node, ast.BoolOp) and ((isinstance(node.op, ast.And) and not pol) or (isinstance(node.op, ast.Or) and pol)):
        out = []
        for v in node.values:
            out += _disjuncts(v, pol)
        return out
    return [(node, pol)]


def _is_pred_call(e: ast.AST, preds: dict, entry_cx: str) -> bool:
    """e == self.<expiry predicate>(<entry>, ...) for the entry `entry_cx`."""
    if not (isinstance(e, ast.Call) and isinstance(e.func, ast.Attribute) and sem.cx(e.func.value) == "self"):
        return False
    m = preds.get(e.func.attr)
    if m is None or len(m.params) < 2:
        return False
    amap = G.bind_args(m, e) or {}
    return m.params[1] in amap and sem.cx(amap[m.params[1]]) == entry_cx


def _kept_alive(facts, preds: dict, entry_cx: str, entry_node: ast.AST, allow_none: bool) -> bool:
    """Some guard fact states: the predicate holds for the entry (or, when allowed, there is no entry)."""
    none_atoms = sem.atoms(ast.Compare(left=entry_node, ops=[ast.Is()], comparators=[ast.Constant(None)]), True)
    for f in facts:
        if f.kind != "cond":
            continue
        kinds = []
        for n, p in _disjuncts(f.xnode, f.pol):
            if p and _is_pred_call(n, preds, entry_cx):
                kinds.append("alive")
            elif allow_none and sem.atoms(n, p) == none_atoms:
                kinds.append("none")
            else:
                kinds.append("?")
        if "alive" in kinds and "?" not in kinds:
            return True
    return False


def _paths_keep_alive(f: FuncInfo, ret: ast.Return, preds: dict, allow_none: bool) -> bool:
    """Path-wise variant of _kept_alive for a `return <local>`: on every syntactic path to the return either the local was
    found None (when allowed) or the expiry predicate was evaluated true on it.  Needed when the two cases are separated
    by nested ifs: the must-facts at the merge point no longer carry the disjunction."""
    v = ret.value
    if not isinstance(v, ast.Name):
        return False
    name = v.id
    pcs = sem.path_conditions(f.node, ret)
    if not pcs:
        return False
    for pc in pcs:
        none = allow_none and (f"is(None,{name})" in pc or f"!truthy({name})" in pc)
        alive = any(a.startswith("truthy(") and any(f".{pn}(" in a for pn in preds) and (f"({name}," in a or f"({name})" in a or f",{name}" in a) for a in pc)
        if not (none or alive):
            return False
    return True


def _refresh_filters(ctx, P, rt: FuncInfo, preds: dict) -> tuple:
    """refresh_table re-binds the table to {k: v for k, v in <table>.items() if <predicate>(v, now)}."""
    fl = ctx.flows.get(rt)
    stores = [n for n in ast.walk(rt.node) if isinstance(n, ast.Assign) and len(n.targets) == 1
              and isinstance(n.targets[0], ast.Attribute) and sem.cx(n.targets[0].value) == "self" and n.targets[0].attr == "loc_t"]
    if len(stores) != 1:
        return False, f"{len(stores)} re-bindings of the table"
    dc = stores[0].value
    if not (isinstance(dc, ast.DictComp) and len(dc.generators) == 1):
        return False, "the table is not rebuilt by one dict comprehension"
    g = dc.generators[0]
    if not (isinstance(g.iter, ast.Call) and isinstance(g.iter.func, ast.Attribute) and g.iter.func.attr == "items"
            and sem.cx(g.iter.func.value) == "self.loc_t" and isinstance(g.target, ast.Tuple) and len(g.target.elts) == 2
            and all(isinstance(e, ast.Name) for e in g.target.elts)):
        return False, "the comprehension does not iterate over the table's items"
    k, v = g.target.elts
    if not (isinstance(dc.key, ast.Name) and dc.key.id == k.id and isinstance(dc.value, ast.Name) and dc.value.id == v.id):
        return False, "keys / entries are not carried over unchanged"
    if len(g.ifs) != 1:
        return False, f"{len(g.ifs)} filter conditions"
    cond = g.ifs[0]
    if rt.name in preds and any(isinstance(x, ast.Attribute) and x.attr == "itsGnLifetimeLocTE" for x in ast.walk(cond)):
        return True, ""
    dj = _disjuncts(cond, True)
    if len(dj) == 1 and dj[0][1] and _is_pred_call(dj[0][0], preds, v.id):
        return True, ""
    return False, f"the filter `{unparse(cond)[:60]}` is not the lifetime predicate of the iterated entry"


def _answers_only_alive(ctx, P, f: FuncInfo, preds: dict) -> tuple:
    """Every entry a reader hands out satisfied the expiry predicate (get_entry: or there is no entry)."""
    fl = ctx.flows.get(f)
    n = 0
    for k, s, st in fl.exits:
        if k != "return" or s.value is None:
            continue
        if isinstance(s.value, ast.ListComp):
            elt = s.value.elt
            est = fl.state_at(elt)
            n += 1
            if not _kept_alive(est.facts, preds, sem.cx(elt), elt, False):
                return False, "list elements are not filtered by the predicate"
            continue
        for alt in fl.alternatives(s.value, st):
            if isinstance(alt, ast.Constant) and alt.value is None:
                continue
            if isinstance(alt, ast.Call) and isinstance(alt.func, ast.Attribute) and alt.func.attr in ("get", "pop") \
                    and sem.cx(alt.func.value) == "self.loc_t":
                n += 1
                if not _kept_alive(st.facts, preds, sem.cx(alt), alt, True) and not _paths_keep_alive(f, s, preds, True):
                    return False, f"`{pretty(unparse(alt))[:50]}` is returned without the predicate"
    # entries collected into a result list
    for c in P.calls_in(f):
        if isinstance(c.func, ast.Attribute) and c.func.attr in ("append", "add") and len(c.args) == 1 and \
                isinstance(c.func.value, ast.Name):
            cst = fl.state_at(c)
            x = fl.expand(c.args[0], cst)
            n += 1
            if not _kept_alive(cst.facts, preds, sem.cx(x), x, False):
                return False, f"`{pretty(unparse(x))[:50]}` is collected without the predicate"
    if n == 0:
        return False, "no answered entry recognised"
    return True, ""


def _entry_roots(P, fi: FuncInfo, depth: int = 6) -> set:
    """Names of the top-most in-class callers (LocationTable API methods) that can reach fi."""
    roots, todo, seen = set(), [fi], set()
    while todo:
        f = todo.pop()
        if f.qual in seen:
            continue
        seen.add(f.qual)
        callers = [c for c, _ in P.callers_of(f) if c.cls is not None and c.cls.name in ("LocationTable", "LocationTableEntry")]
        if not callers:
            roots.add(f.qual)
        todo.extend(callers)
    return roots


# --------------------------------------------------------------------------------------------
# helpers
# --------------------------------------------------------------------------------------------
def _attr(v, name):
    return ast.Attribute(value=v, attr=name, ctx=ast.Load())


def _xfacts(st) -> set:
    """Canonical atoms of the guard facts of a state, locals expanded."""
    out = set()
    for f in st.facts:
        if f.kind == "cond":
            out.update(sem.atoms(f.xnode, f.pol))
    return out


def _split_top(s: str, sep: str) -> list:
    out, depth, cur = [], 0, ""
    for ch in s:
        if ch in "([{":
            depth += 1
        elif ch in ")]}":
            depth -= 1
        if ch == sep and depth == 0:
            out.append(cur)
            cur = ""
        else:
            cur += ch
    out.append(cur)
    return out


def _implied(facts: set, alternatives: list) -> bool:
    """The facts imply the disjunction of `alternatives` (each a list of atoms, read as a conjunction): one alternative
    holds outright, or a disjunctive fact `or(m1|m2|...)` has every member implying some alternative."""
    def conj_implies(atoms_: set) -> bool:
        return any(all(a in atoms_ for a in alt) for alt in alternatives)
    if conj_implies(set(facts)):
        return True
    for f in facts:
        if f.startswith("or(") and f.endswith(")"):
            members = _split_top(f[3:-1], "|")
            if members and all(conj_implies(set(facts) | set(_split_top(m, "&"))) for m in members):
                return True
    return False


def _lookup_key(P, fi: FuncInfo, x: ast.AST):
    """x == self.get_entry(K) / self.loc_t.get(K[, None]) inside a LocationTable method: returns K."""
    if not (isinstance(x, ast.Call) and isinstance(x.func, ast.Attribute) and x.args and not x.keywords):
        return None
    if fi.cls is None or fi.cls.name != "LocationTable":
        return None
    f = x.func
    if f.attr == "get_entry" and sem.cx(f.value) == "self" and len(x.args) == 1 and "get_entry" in fi.cls.methods:
        return x.args[0]
    if f.attr == "get" and isinstance(f.value, ast.Attribute) and sem.cx(f.value.value) == "self" and \
            any(isinstance(t, tuple) and t[0] == "map" for t in P.attr_type(fi.cls.qual, f.value.attr)) and \
            (len(x.args) == 1 or (len(x.args) == 2 and isinstance(x.args[1], ast.Constant) and x.args[1].value is None)):
        return x.args[0]
    return None


def _source_key(P, fi: FuncInfo, k: ast.AST) -> bool:
    """k is the source address of the received packet: <header parameter>.so_pv.gn_addr or <PV parameter>.gn_addr."""
    if not (isinstance(k, ast.Attribute) and k.attr == "gn_addr"):
        return False
    v = k.value
    if isinstance(v, ast.Attribute) and v.attr == "so_pv":
        v = v.value
    return isinstance(v, ast.Name) and v.id in fi.params[1:]


def _was_absent(P, fi, fl, st, recv: ast.AST, cond_atoms_) -> tuple:
    """`cond_atoms_` state exactly that the table lookup which produced `recv` found nothing."""
    alts = fl.alternatives(recv, st)
    looks = [a for a in alts if _lookup_key(P, fi, a) is not None]
    if not looks:
        return False, f"`{unparse(recv)}` is not the result of a location-table lookup"
    for l in looks:
        if not _source_key(P, fi, _lookup_key(P, fi, l)):
            continue
        # "the station is new" must be decided on a lookup that hides EXPIRED entries (get_entry applies the expiry
        # predicate: C08.purge-on-read): a raw table access also finds an entry whose lifetime is over but that was not
        # purged yet, and such an entry would be revived with its old neighbour flag
        if not (isinstance(l.func, ast.Attribute) and l.func.attr == "get_entry"):
            return False, (f"whether the source is new is decided by the raw table access `{unparse(l)[:50]}`, which also returns "
                           "expired entries: an expired neighbour heard again through a relay keeps its neighbour flag")
        want = sem.atoms(ast.Compare(left=l, ops=[ast.Is()], comparators=[ast.Constant(None)]), True)
        if cond_atoms_ is None:
            return True, want
        if sorted(cond_atoms_) == sorted(want):
            return True, want
    return False, "the condition is not `<lookup of the packet's source address> is None`"


def _only_for_new_entry(ctx, P, la, a, fl, st) -> tuple:
    """The store `R.is_neighbour = False` executes only when R was created for this packet (the lookup returned None)."""
    recv = a.node.value
    facts = _xfacts(st)
    if not (isinstance(recv, ast.Name) and recv.id == a.fi.params[0] and a.fi.cls is not None and a.fi.cls.name == "LocationTableEntry"):
        ok, want = _was_absent(P, a.fi, fl, st, recv, None)
        if not ok:
            return False, want
        return (all(w in facts for w in want), "no guard `entry looked up is None`")
    # inside an entry method: guarded by a parameter; the parameter must be `lookup is None` at every call site
    params = [p for p in a.fi.params[1:] if f"truthy({p})" in facts]
    if not params:
        return False, "not guarded by a 'new entry' parameter"
    sites = P.callers_of(a.fi)
    if not sites:
        return False, "no call site"
    for caller, call in sites:
        amap = G.bind_args(a.fi, call) or {}
        cfl = la.flow(caller)
        cst = cfl.state_at(call)
        good = False
        for p in params:
            if p not in amap or not isinstance(call.func, ast.Attribute):
                continue
            arg = cfl.expand(amap[p], cst)
            ok, _ = _was_absent(P, caller, cfl, cst, call.func.value, sem.atoms(arg, True))
            good = good or ok
        if not good:
            return False, (f"{caller.name} passes `{pretty(unparse(cfl.expand(amap.get(params[0], ast.Constant(None)), cst)))[:60]}` "
                           f"as {params[0]}, which is not `<looked-up entry> is None`")
    return True, ""


def _must_set_neighbour(ctx, fi: FuncInfo, recv, depth: int = 0) -> bool:
    """Every normal exit of fi has stored True into <recv>.is_neighbour (recv None: into the entry of some callee)."""
    if depth > 4:
        return False
    P = ctx.prog
    fl = ctx.flows.get(fi)
    normal = [st for k, s, st in fl.exits if k in ("return", "fall")]
    if not normal:
        return False
    for st in normal:
        ok = False
        if recv is not None:
            ds = st.defs.get(f"{recv}.is_neighbour")
            if ds and all(isinstance(fl.defs[d].value, ast.Constant) and fl.defs[d].value.value is True for d in ds):
                ok = True
        if not ok:
            for f in st.facts:
                if f.kind != "call" or not isinstance(f.node, ast.Call) or not isinstance(f.node.func, ast.Attribute):
                    continue
                r = f.node.func.value
                if recv is not None and sem.cx(r) != recv:
                    continue
                for tq in f.targets:
                    t = P.funcs.get(tq)
                    if t is not None and t.cls is not None and t.cls.name in ("LocationTable", "LocationTableEntry") \
                            and t.kind == "method" and t.qual != fi.qual and _must_set_neighbour(ctx, t, t.params[0], depth + 1):
                        ok = True
        if not ok:
            return False
    return True


_SUB_REPS = {
    "d<-H": lambda H, M: (0, H + 5), "d=-H": lambda H, M: (0, H), "-H<d<0": lambda H, M: (100, 1000),
    "-H<d<0 (near -H)": lambda H, M: (1, H), "d=-1": lambda H, M: (7, 8), "d=0": lambda H, M: (12345, 12345),
    "d=1": lambda H, M: (8, 7), "0<d<H": lambda H, M: (1000, 100), "0<d<H (near H)": lambda H, M: (H, 1),
    "d=H": lambda H, M: (H, 0), "d>H": lambda H, M: (H + 5, 0), "d=M-1": lambda H, M: (M - 1, 0),
    "d=-(M-1)": lambda H, M: (0, M - 1),
}


def _tst_sub_table(ctx, P, tst: ClassInfo):
    """TST.__sub__(a, b) == (a.msec - b.msec) mod 2^32 on every cell of d = a - b.

    The method may only add/subtract, compare against 0 / +-2^32 and reduce modulo 2^32: then it is affine on d < 0 and
    on d >= 0, and agreement on three non-collinear representatives per cell is agreement everywhere."""
    if any(o.rule == "C08.expiry" and o.disc.startswith("sub:") for o in ctx.obs):
        return
    M, H = 1 << 32, 1 << 31
    fi = tst.methods.get("__sub__")
    if fi is None:
        ctx.ob("C08.expiry", tst.qual.split("flexstack.")[-1], "sub:defined", False, "TST has no __sub__", "")
        return
    con = fi.short()
    bad = []

    def walk(e):
        c = P.try_fold(fi.module, e, default="<nc>") if isinstance(e, ast.expr) else "<nc>"
        if c != "<nc>" and isinstance(c, (int, float)) and not isinstance(c, bool):
            return
        if isinstance(e, ast.Compare):
            for part in [e.left] + e.comparators:
                v = P.try_fold(fi.module, part, default="<nc>")
                if v != "<nc>" and isinstance(v, (int, float)) and not isinstance(v, bool) and v not in (0, M, -M):
                    bad.append(f"comparison with {v}")
        if isinstance(e, ast.BinOp):
            if isinstance(e.op, ast.Mod):
                if P.try_fold(fi.module, e.right) != M:
                    bad.append(f"`{unparse(e)[:40]}`: modulus is not 2^32")
            elif not isinstance(e.op, (ast.Add, ast.Sub)):
                bad.append(f"operator {type(e.op).__name__} in `{unparse(e)[:40]}`")
        if isinstance(e, ast.AugAssign) and not isinstance(e.op, (ast.Add, ast.Sub)):
            bad.append(f"augmented {type(e.op).__name__}")
        for c_ in ast.iter_child_nodes(e):
            walk(c_)
    for b in fi.node.body:
        walk(b)
    ctx.ob("C08.expiry", con, "sub:cells-exact", not bad,
           "TST.__sub__ only adds/subtracts, compares with 0 / 2^32 and reduces modulo 2^32 (so it is affine on d < 0 and d >= 0)"
           if not bad else f"TST.__sub__ uses {bad}: the finite cell decomposition of d = a - b is not exact", fi.loc)
    for reg, mk in _SUB_REPS.items():
        a, b = mk(H, M)
        try:
            got = _run_dunder(P, tst, fi, "msec", a, b)
        except AnalysisError as e:
            got = f"<{str(e)[:60]}>"
        want = (a - b) % M
        ctx.ob("C08.expiry", con, f"sub:{reg}", got == want and not isinstance(got, bool),
               f"TST({a}) - TST({b}) evaluates to {got}; the difference modulo 2^32 is {want}" +
               ("" if got == want else " (the expiry predicate compares this value with the lifetime: a negative difference keeps "
                                       "entries stamped ahead of a wrapped clock forever, any other value purges live entries)"), fi.loc)
