"""C11 - facility messages faithfully encode the sensor input they were built from.

Decides: (a) schema: every value the builders put into a CAM / VAM / DENM dictionary - white templates, subscript
stores, builder return values, lists grown element by element, names selected from constant tables, and dictionaries
that reach a message by reference through a request object (the DENM event position; each hop of that alias flow is
re-established on every run) - fits the ASN.1 type at that position: shape (dict / (name, value) tuple / (bytes, bits)
pair / enumerator string), member and alternative names, enumerators, mandatory members, and no member of a literal in the
message modules is a module-level mutable constant (one object shared by all messages, written in place); range: for INTEGERs the range
reachable from the quantifier's input ranges (interval interpretation with guard refinement; a value computed from the
inputs with no bound at all fails); (b) unit: the scaling coefficient of position / speed / heading values, also for stores into
a dictionary that reaches the message by reference and through pure one-argument helpers, which are interpreted on
representatives of the report field's input box and must return value x coefficient on all of it; (c) what the
readers of decoded messages subscript exists in the type (schema); (d) that a measured value can never land on an
element's `unavailable` code point (range, `codepoint` instances); (e) gdt: the receiver-side reconstruction as a
formula identity (whole cycles of the reception time; same cycle exactly when not later than it, else one cycle
earlier; both returned), anchored at every call site (CAM and VAM reception) at the wall clock scaled to milliseconds
BEFORE truncation; GenerationDeltaTime.__sub__ = (a - b) mod 65536, and no sender code ordering two
generationDeltaTime values other than through that difference; (f) report-keys: in the CAM / VAM transmission modules every report['k']
read is dominated by a presence test of that key, so a report lacking an optional field cannot raise KeyError, and no
numeric report field is tested for truthiness (a measured 0 is a measurement, not a missing value), and a value taken from the
report is stored under presence tests of its own field(s) only (a present field is mapped whatever else is missing).
(a)-(d), (f) are the conditions under which the encoder or builder raises, wraps or silently drops a value.
Does not decide bit-exact UPER output, truncation vs rounding of int(), nor "no report stalls generation" beyond (f)
and the re-arming rule of C10.
"""
from __future__ import annotations

import ast
import re

import copy

from ..prog import AnalysisError, FuncInfo, dotted, unparse
from .. import sem
from ..absint import to_poly, Poly
from ..flow import cond_atoms
from ..match import pretty
from . import msgutil as MU

PROP = "C11"
CAMM = "facilities.ca_basic_service.cam_transmission_management"
VAMM = "facilities.vru_awareness_service.vam_transmission_management"


def norm(s):
    return re.sub(r"\s+", "", s)


# data elements carrying a measured quantity: path suffix of the position -> (key of the position report, coefficient)
UNITS = {
    ("latitude",): ("lat", 10000000), ("longitude",): ("lon", 10000000), ("altitudeValue",): ("altHAE", 100),
    ("speedValue",): ("speed", 100), ("headingValue",): ("track", 10), ("heading", "value"): ("track", 10),
}
_INT_CONVERSIONS = ("int", "round", "trunc", "math.trunc", "floor", "math.floor")


def unit_of(path: list):
    for suffix, u in UNITS.items():
        if len(path) >= len(suffix) and tuple(path[-len(suffix):]) == suffix:
            return u
    return None


def _branches(e: ast.AST) -> list:
    """Value alternatives of a conditional expression."""
    if isinstance(e, ast.IfExp):
        return _branches(e.body) + _branches(e.orelse)
    return [e]


def _measured(P, mod, e: ast.AST) -> ast.AST:
    """Peel integer conversions and clamps by constants: int(x), round(x), min(x, C), max(C, x), ... -> x."""
    while isinstance(e, ast.Call) and not e.keywords:
        fn = dotted(e.func) or ""
        if fn in _INT_CONVERSIONS and len(e.args) == 1:
            e = e.args[0]
            continue
        if fn in ("min", "max") and len(e.args) >= 2:
            var = [a for a in e.args if P.try_fold(mod, a, default="<nc>") == "<nc>"]
            if len(var) == 1:
                e = var[0]
                continue
        break
    return e


class _GetAsSubscript(ast.NodeTransformer):
    """report.get('k') reads the same entry as report['k']"""
    def visit_Call(self, n):
        self.generic_visit(n)
        if isinstance(n.func, ast.Attribute) and n.func.attr == "get" and len(n.args) == 1 and not n.keywords \
                and isinstance(n.args[0], ast.Constant):
            return ast.Subscript(value=n.func.value, slice=n.args[0], ctx=ast.Load())
        return n


def _helper_verdict(ctx, fi, e, params, key, coef):
    """`H(report[key])` with H a pure helper of the repository (static method / function of one parameter): H is interpreted
    (absint.MiniExec - nothing of the repository runs) on representatives of the report field's input box, boundaries and
    interior points on both sides of every constant H compares with; on each of them it must return int(v * coef) (+-1 for
    rounding).  -> (ok, text), or None when `e` is not such a call or H is outside the interpreted subset."""
    P = ctx.prog
    if not (isinstance(e, ast.Call) and len(e.args) == 1 and not e.keywords):
        return None
    tg = [t for t in P.call_targets(fi, e, count=False)]
    if len(tg) != 1 or not isinstance(tg[0], FuncInfo) or tg[0].kind not in ("function", "staticmethod") or len(tg[0].params) != 1:
        return None
    a = e.args[0]
    src = None
    for p_ in params:
        if sem.same(a, f"{p_}[{key!r}]"):
            src = f"{p_}[{key!r}]"
    if src is None:
        return False, f"the helper {tg[0].short()} is fed `{sem.cx(a)[:50]}`, not <position report>[{key!r}]"
    box = MU.INPUTS.get(f"tpv[{key!r}]")
    if box is None:
        return None
    lo, hi = box
    if key == "lon":
        lo = lo + 1e-6          # -180 and +180 are one meridian; reports are normalised to (-180, 180]
    pts = {lo, hi, (lo + hi) / 2, lo + (hi - lo) / 1000, hi - (hi - lo) / 1000}
    for n_ in ast.walk(tg[0].node):                          # both sides of every constant the helper compares with
        if isinstance(n_, ast.Compare):
            for c_ in [n_.left] + n_.comparators:
                v_ = P.try_fold(tg[0].module, c_)
                if isinstance(v_, (int, float)) and not isinstance(v_, bool):
                    for cand in (v_ / coef, v_ / coef - 1e-5 * max(1.0, abs(hi)), v_ / coef + 1e-5 * max(1.0, abs(hi)), float(v_)):
                        if lo <= cand <= hi:
                            pts.add(cand)
    from .c10 import Exec
    bad = []
    for v in sorted(pts):
        try:
            got = Exec(P, tg[0], {tg[0].params[0]: v}).run()
        except AnalysisError:
            return None
        except (TypeError, ValueError, ZeroDivisionError) as ex:
            got = f"<{type(ex).__name__}>"
        if not (isinstance(got, (int, float)) and abs(got - v * coef) <= 1):
            bad.append(f"{tg[0].name}({v:g}) = {got}, the data element needs {int(v * coef)}")
    if bad:
        return False, (f"{src} ranges over [{lo:g}, {hi:g}] and goes through {tg[0].short()}, which does not return value x {coef} on all of it: "
                       + "; ".join(bad[:2]))
    return True, f"{src} x {coef} through {tg[0].short()} (interpreted on {len(pts)} points of [{lo:g}, {hi:g}])"


def units(ctx, M, kind):
    """Every computed value stored into a unit-carrying data element is <the matching entry of the position report> x
    <unit coefficient> (integer conversion and clamping by constants aside); constants are the element's code points."""
    P = ctx.prog
    n = 0
    # stores into a dictionary that reaches the message by reference (the EVA event position) carry the same units
    alias_stores = []
    for al in MU.ALIASES:
        if al["kind"] != kind:
            continue
        for fi_ in P.cls(al["owner"]).methods.values():
            fl_ = ctx.flows.get(fi_)
            for a_ in ast.walk(fi_.node):
                if not (isinstance(a_, ast.Assign) and len(a_.targets) == 1 and id(a_) in fl_.before):
                    continue
                keys, cur = [], a_.targets[0]
                while isinstance(cur, ast.Subscript):
                    k_ = P.try_fold(fi_.module, cur.slice, default=None)
                    keys.append(k_)
                    cur = cur.value
                if keys and None not in keys and dotted(cur) == f"self.{al['attr']}":
                    alias_stores.append(MU.Store(kind, fi_, a_, list(al["path"]) + keys[::-1], a_.value))
    for s in list(M.stores(kind)) + alias_stores:
        u = unit_of([k for k in s.path])
        if u is None:
            continue
        key, coef = u
        leaf = s.path[-1]
        fl = ctx.flows.get(s.fi)
        st = fl.before[id(s.stmt)]
        params = [p for p in s.fi.params if p not in ("self", "cls")]
        for alt in fl.alternatives(s.value, st):
            for x in _branches(alt):
                if P.try_fold(s.fi.module, x, default="<nc>") != "<nc>":
                    continue          # out-of-range / unavailable code point
                n += 1
                inner = _GetAsSubscript().visit(_measured(P, s.fi.module, x))
                hv = _helper_verdict(ctx, s.fi, inner, params, key, coef)
                if hv is not None:
                    ok_h, why_h = hv
                    ctx.ob("C11.unit", s.fi.short(), f"{kind}.{leaf}", ok_h,
                           f"{kind} {leaf} := `{pretty(unparse(x))[:60]}`: {why_h}", f"{s.fi.module.rel}:{s.stmt.lineno}")
                    continue
                got = to_poly(P, s.fi.module, inner)
                wants = [to_poly(P, s.fi.module, ast.parse(f"{p}[{key!r}] * {coef}", mode="eval").body) for p in params]
                ok = any(got == w for w in wants)
                ctx.ob("C11.unit", s.fi.short(), f"{kind}.{leaf}", ok,
                       f"{kind} {leaf} := `{pretty(unparse(x))[:60]}`; the data element's unit needs <position report>[{key!r}] x {coef}",
                       f"{s.fi.module.rel}:{s.stmt.lineno}")
    return n


GDT = "facilities.ca_basic_service.cam_transmission_management.GenerationDeltaTime"


_TRUNCS = ("trunc", "math.trunc", "int", "math.floor", "floor")
_CYCLES = "__whole_cycles__"


class _Paths:
    """Path-wise symbolic execution of a small loop-free function body (assignments to locals, if, return): every path
    is (conditions [(test with locals substituted, polarity)], returned expression with locals substituted)."""

    def __init__(self, fi):
        self.fi = fi
        self.paths = []
        self.problem = None
        self._run(fi.node.body, {}, [])

    def _subst(self, e, env):
        class S(ast.NodeTransformer):
            def visit_Name(s2, n):
                return copy.deepcopy(env[n.id]) if isinstance(n.ctx, ast.Load) and n.id in env else n
        return S().visit(copy.deepcopy(e))

    def _run(self, stmts, env, conds):
        """-> True when the block can fall through (env updated in place)"""
        for i, s in enumerate(stmts):
            if isinstance(s, ast.Expr) and isinstance(s.value, ast.Constant):
                continue
            if isinstance(s, ast.Pass):
                continue
            if isinstance(s, ast.Assign) and len(s.targets) == 1 and isinstance(s.targets[0], ast.Name):
                env[s.targets[0].id] = self._subst(s.value, env)
            elif isinstance(s, ast.AnnAssign) and isinstance(s.target, ast.Name) and s.value is not None:
                env[s.target.id] = self._subst(s.value, env)
            elif isinstance(s, ast.AugAssign) and isinstance(s.target, ast.Name):
                env[s.target.id] = self._subst(ast.BinOp(left=ast.Name(id=s.target.id, ctx=ast.Load()), op=s.op, right=s.value), env)
            elif isinstance(s, ast.Return):
                self.paths.append((list(conds), self._subst(s.value, env) if s.value is not None else ast.Constant(None)))
                return False
            elif isinstance(s, ast.Raise):
                return False
            elif isinstance(s, ast.If):
                test = self._subst(s.test, env)
                rest = stmts[i + 1:]
                for pol, blk in ((True, s.body), (False, s.orelse)):
                    e2 = dict(env)
                    c2 = conds + [(test, pol)]
                    if self._run(blk, e2, c2):
                        self._run(rest, e2, c2) and self.paths.append((c2, ast.Constant(None)))
                return False
            else:
                self.problem = f"statement `{unparse(s)[:40]}` (line {s.lineno}) is outside the forms understood"
                return False
        return True


def _sign_of(P, mod, conds, D):
    """What the path conditions say about the sign of the quantity with polynomial D: 'neg' (D < 0), 'nonneg' (D >= 0) or None."""
    out = None
    for test, pol in conds:
        for node, p in cond_atoms(test, pol):
            if not p or not isinstance(node, ast.Compare) or len(node.ops) != 1 or not isinstance(node.ops[0], (ast.Gt, ast.GtE)):
                continue
            diff = to_poly(P, mod, node.left) - to_poly(P, mod, node.comparators[0])
            if isinstance(node.ops[0], ast.Gt) and diff == -D:
                out = "neg"
            elif diff == D:
                out = "nonneg"
    return out


def gdt_rules(ctx):
    """generationDeltaTime: receiver-side reconstruction as a formula identity, and wrap-aware use on the sender side."""
    P = ctx.prog
    g = P.cls(GDT)
    fi = g.methods.get("as_timestamp_in_certain_point")
    if fi is None:
        raise AnalysisError("C11: GenerationDeltaTime.as_timestamp_in_certain_point vanished")
    fl = ctx.flows.get(fi)
    R = fi.params[1]
    mod = fi.module
    loc = fi.loc
    px = lambda src: to_poly(P, mod, ast.parse(src, mode="eval").body)
    its_ms = px(f"{R} - ITS_EPOCH_MS + ELAPSED_MILLISECONDS")          # reception time in ITS milliseconds
    its_cycles = px(f"({R} - ITS_EPOCH_MS + ELAPSED_MILLISECONDS) / 65536")
    seen_cycles, bad_cycles = [], []

    class Cycles(ast.NodeTransformer):
        """replace  trunc(<ITS ms> / 65536)  /  <ITS ms> // 65536  by one symbol"""
        def visit_Call(s2, n):
            if dotted(n.func) in _TRUNCS and len(n.args) == 1 and not n.keywords:
                inner = n.args[0]
                if to_poly(P, mod, inner) == its_cycles:
                    seen_cycles.append(n)
                    return ast.Name(id=_CYCLES, ctx=ast.Load())
                if isinstance(inner, ast.BinOp) and isinstance(inner.op, (ast.Div, ast.FloorDiv)):
                    bad_cycles.append(n)
            return s2.generic_visit(n)

        def visit_BinOp(s2, n):
            if isinstance(n.op, ast.FloorDiv) and P.try_fold(mod, n.right) == 65536 and to_poly(P, mod, n.left) == its_ms:
                seen_cycles.append(n)
                return ast.Name(id=_CYCLES, ctx=ast.Load())
            return s2.generic_visit(n)

    sym = lambda e: to_poly(P, mod, Cycles().visit(copy.deepcopy(e)))
    want_c = px(f"self.msec + 65536 * {_CYCLES} + ITS_EPOCH_MS - ELAPSED_MILLISECONDS")
    rets = [(k, s_, st) for k, s_, st in fl.exits if k == "return" and s_.value is not None]
    if len(rets) != 2:
        raise AnalysisError(f"C11: as_timestamp_in_certain_point has {len(rets)} returns (2 expected: same cycle / previous cycle)")
    seen_same, seen_prev = False, False
    results = []
    for k, s_, st in rets:
        got = sym(fl.expand(s_.value, st))
        diffs = []       # (strict?, polynomial of left - right) of every order fact in force
        for f in st.facts:
            if f.kind == "cond" and f.pol and isinstance(f.xnode, ast.Compare) and len(f.xnode.ops) == 1 \
                    and isinstance(f.xnode.ops[0], (ast.Gt, ast.GtE)):
                diffs.append((isinstance(f.xnode.ops[0], ast.Gt), sym(f.xnode.left) - sym(f.xnode.comparators[0])))
        results.append((s_, got, diffs, sorted(pretty(f.xkey)[:60] for f in st.facts if f.kind == "cond")))
    ok_cycles = bool(seen_cycles) and not bad_cycles
    ctx.ob("C11.gdt", fi.short(), "cycles", ok_cycles, "number of whole 65536 ms cycles = trunc((reception time in ITS ms) / 65536)", loc)
    for s_, got, diffs, shown in results:
        rloc = f"{fi.module.rel}:{s_.lineno}"
        if got == want_c:
            seen_same = True
            okg = any(not strict and d == px(R) - want_c for strict, d in diffs)
            ctx.ob("C11.gdt", fi.short(), "same-cycle", okg,
                   f"candidate in the reception cycle is returned exactly when it is not later than the reception time (guards {shown})", rloc)
        elif got == want_c - Poly.const(65536):
            seen_prev = True
            okg = any(strict and d == want_c - px(R) for strict, d in diffs)
            ctx.ob("C11.gdt", fi.short(), "previous-cycle", okg,
                   f"otherwise the candidate one full cycle (65536 ms) earlier is returned (guards {shown})", rloc)
        else:
            ctx.ob("C11.gdt", fi.short(), f"return:{norm(unparse(s_.value))[:30]}", False,
                   f"returned value `{got!r}` is neither msec + 65536*n + EPOCH - ELAPSED nor that minus 65536: the reconstructed time is not congruent "
                   "to generationDeltaTime modulo 65536 / not within the last 65536 ms", rloc)
    ctx.ob("C11.gdt", fi.short(), "both-cycles", seen_same and seen_prev, "both the same-cycle and the previous-cycle case are returned", loc)
    # wrap-aware subtraction: on every path for two GenerationDeltaTime operands the result is (a - b) mod 65536 -
    # written with `%`, or as a - b where a - b >= 0 is known and a - b + 65536 where a - b < 0 is known
    sub = g.methods.get("__sub__")
    if sub is None:
        raise AnalysisError("C11: GenerationDeltaTime.__sub__ vanished")
    other = sub.params[1]
    D = to_poly(P, sub.module, ast.parse(f"self.msec - {other}.msec", mode="eval").body)
    pp = _Paths(sub)
    okw, how, n_val = pp.problem is None, pp.problem or "", 0
    for conds, val in pp.paths:
        if dotted(val) == "NotImplemented" or (isinstance(val, ast.Constant) and val.value is None):
            # only for operands of another type
            foreign = any(not pol and isinstance(t, ast.Call) and dotted(t.func) == "isinstance" for t, pol in conds)
            if not foreign:
                okw, how = False, "a path for two GenerationDeltaTime operands returns no number"
            continue
        n_val += 1
        v = val
        while isinstance(v, ast.Call) and dotted(v.func) in ("int", "round") and len(v.args) == 1:
            v = v.args[0]
        if isinstance(v, ast.BinOp) and isinstance(v.op, ast.Mod) and P.try_fold(sub.module, v.right) == 65536 \
                and to_poly(P, sub.module, v.left) - D in (Poly.const(0), Poly.const(65536)):
            how = how or "(a - b) % 65536"
            continue
        got = to_poly(P, sub.module, v)
        sign = _sign_of(P, sub.module, conds, D)
        if got == D + Poly.const(65536) and sign == "neg":
            how = how or "a - b, plus 65536 when negative"
            continue
        if got == D and sign == "nonneg":
            continue
        okw = False
        how = f"on the path {[('' if pol else 'not ') + unparse(t)[:40] for t, pol in conds]} the result is `{unparse(v)[:50]}`"
    okw = okw and n_val > 0
    ctx.ob("C11.gdt", g.qual[10:] + ".__sub__", "wrap-aware", okw,
           f"GenerationDeltaTime difference is (a - b) mod 65536 [{how}]" if okw else f"GenerationDeltaTime.__sub__ is not (a - b) mod 65536: {how}", sub.loc)
    # sender side: generationDeltaTime objects are ordered only through the wrap-aware difference
    n_sub = 0
    for f2 in P.iter_funcs():
        if "facilities" not in f2.module.name or f2.cls is g:
            continue
        if "GenerationDeltaTime" not in f2.module.src:
            continue
        for n in ast.walk(f2.node):
            if isinstance(n, ast.BinOp) and isinstance(n.op, ast.Sub):
                tl = {t for t in P.expr_types(f2, n.left) if isinstance(t, str)}
                if GDT in tl or any(t.endswith(".GenerationDeltaTime") for t in tl):
                    n_sub += 1
            if isinstance(n, ast.Compare) and any(isinstance(o, (ast.Lt, ast.LtE, ast.Gt, ast.GtE)) for o in n.ops):
                for side in [n.left] + list(n.comparators):
                    ts = {t for t in P.expr_types(f2, side) if isinstance(t, str)}
                    if any(t.endswith(".GenerationDeltaTime") for t in ts):
                        ctx.ob("C11.gdt", f2.short(), f"ordered-compare:{norm(unparse(n))[:50]}", False,
                               f"`{unparse(n)[:80]}` orders two generationDeltaTime values without the modulo-65536 difference: after the 16-bit "
                               "counter wraps every fresh report looks older and generation stalls for up to 65 s", f"{f2.module.rel}:{n.lineno}")
                        break
    ctx.ob("C11.gdt", "facilities", "typed-differences-seen", n_sub >= 1, f"{n_sub} wrap-aware differences of GenerationDeltaTime objects found (type inference sees them)", loc)


def reception_clock(ctx):
    """The receiver reconstructs the generation time relative to NOW in milliseconds: the argument handed to
    as_timestamp_in_certain_point is the wall clock scaled to ms before any truncation (int(t * 1000), not int(t) * 1000 -
    a clock truncated to whole seconds makes a message generated within the running second look like it lies in the future,
    and the reconstruction falls back one full 65.536 s cycle)."""
    P = ctx.prog
    n = 0
    for fi in P.iter_funcs():
        if "facilities" not in fi.module.name:
            continue
        for c in P.calls_in(fi):
            if not (isinstance(c.func, ast.Attribute) and c.func.attr == "as_timestamp_in_certain_point" and c.args):
                continue
            n += 1
            fl = ctx.flows.get(fi)
            x = fl.expand(c.args[0], fl.state_at(c))
            inner = x.args[0] if isinstance(x, ast.Call) and dotted(x.func) in ("int", "round") and len(x.args) == 1 else x
            ren = lambda q: pretty(q)
            got = to_poly(P, fi.module, inner, ren)
            ok = len(got.t) == 1 and list(got.t.values())[0] == 1000 and all(("time" in a.lower()) and "int(" not in a for k in got.t for a in k) \
                and all(len(k) == 1 for k in got.t)
            ctx.ob("C11.gdt", fi.short(), "reception-time-in-ms", ok,
                   f"reconstruction is anchored at `{pretty(unparse(x))[:70]}` = the clock in milliseconds" if ok else
                   f"reconstruction is anchored at `{pretty(unparse(x))[:70]}`, which is not the wall clock scaled to milliseconds before "
                   "truncation: messages generated within the running second are reconstructed 65 536 ms early", f"{fi.module.rel}:{c.lineno}")
    if n < 2:
        raise AnalysisError(f"C11: only {n} call sites of as_timestamp_in_certain_point found (confirmed: CAM and VAM reception)")


NON_NUMERIC_REPORT_KEYS = {"time", "device", "class", "mode", "status"}      # strings / enumerations of the gpsd report


def report_keys(ctx):
    """A position report may lack any optional field (no fix yet, standstill, accuracy unknown): every `report['k']` read on
    the transmission paths must be dominated by a presence test of that key (`'k' in report`), as the CA service does
    throughout - otherwise such a report raises KeyError and the message is not generated."""
    P = ctx.prog
    n = 0
    for modname in (CAMM, VAMM):
        m = P.module(modname)
        for fi in P.iter_funcs():
            if fi.module is not m:
                continue
            reports = [p_ for p_ in fi.params if p_ in ("tpv", "current_tpv")]
            if not reports:
                continue
            fl = ctx.flows.get(fi)
            bad = []
            for node in ast.walk(fi.node):
                if isinstance(node, ast.Subscript) and isinstance(node.ctx, ast.Load) and isinstance(node.value, ast.Name) \
                        and node.value.id in reports and isinstance(node.slice, ast.Constant) and isinstance(node.slice.value, str):
                    k = node.slice.value
                    n += 1
                    try:
                        fs = sem.facts(fl, node, expanded=False)
                    except AnalysisError:
                        continue
                    r = node.value.id
                    present = {f"in('{k}',{r})", f"in('{k}',{r}.keys())", f"!is(None,{r}.get('{k}'))", f"truthy({r}.get('{k}'))"}
                    if not (fs & present):
                        bad.append((k, node.lineno))
            # a measured 0 is a measurement: no decision of these functions tests a numeric report field for truthiness
            # (`speed = tpv.get('speed'); if speed:` reports a VRU at standstill as `speed unavailable`)
            falsy = []
            for node in ast.walk(fi.node):
                test = node.test if isinstance(node, (ast.If, ast.IfExp, ast.While)) else None
                if test is None or id(node) not in getattr(fl, "before", {}) and not isinstance(node, ast.IfExp):
                    continue
                try:
                    st = fl.state_at(node)
                    xt = fl.expand(test, st)
                except Exception:  # noqa
                    continue
                for a_ in sem.atoms(xt, True):
                    for r in reports:
                        m_ = re.fullmatch(r"!?truthy\(" + re.escape(r) + r"(?:\['(\w+)'\]|\.get\('(\w+)'(?:,[^)]*)?\))\)", a_)
                        if m_ and (m_.group(1) or m_.group(2)) not in NON_NUMERIC_REPORT_KEYS:
                            falsy.append((m_.group(1) or m_.group(2), node.lineno))
            if reports and (falsy or any(isinstance(x, (ast.If, ast.IfExp)) for x in ast.walk(fi.node))):
                ctx.ob("C11.report-keys", fi.short(), "zero-is-a-measurement", not falsy,
                       "no numeric field of the report is tested for truthiness" if not falsy else
                       f"the numeric report field(s) {sorted({k for k, _ in falsy})} are tested for truthiness (line {falsy[0][1]}): a measured 0 "
                       "(standstill, heading north, the equator / the prime meridian) is treated as a missing value and the message "
                       "carries `unavailable` or the previous value instead of the measurement", fi.loc)
            # a field that IS in the report is mapped: the store of a value derived from report field(s) K stands under presence
            # tests of keys of K only (a `no track or no speed -> return` shortcut leaves a present speed at `unavailable`)
            foreign = []
            for a_ in ast.walk(fi.node):
                if not (isinstance(a_, ast.Assign) and isinstance(a_.targets[0], ast.Subscript) and id(a_) in fl.before):
                    continue
                vx = sem.cx(fl.expand(a_.value, fl.before[id(a_)]))
                used = set()
                for r in reports:
                    used |= set(re.findall(re.escape(r) + r"\['(\w+)'\]", vx)) | set(re.findall(re.escape(r) + r"\.get\('(\w+)'", vx))
                if not used:
                    continue
                try:
                    fs_ = sem.facts(fl, a_, expanded=False)
                except AnalysisError:
                    continue
                tested = set()
                for r in reports:
                    for f_ in fs_:
                        tested |= set(re.findall(r"in\('(\w+)'," + re.escape(r) + r"(?:\.keys\(\))?\)", f_)) if not f_.startswith("!") else set()
                extra = tested - used
                if extra:
                    foreign.append((sorted(used), sorted(extra), a_.lineno))
            if reports:
                ctx.ob("C11.report-keys", fi.short(), "mapped-whenever-present", not foreign,
                       "a value taken from the report is stored whenever its own field is present" if not foreign else
                       f"the value of report field(s) {foreign[0][0]} is stored only when {foreign[0][1]} are present too (line {foreign[0][2]}): a report "
                       "that carries the field but lacks the other one leaves the data element at `unavailable` although it was measured", fi.loc)
            if reports:
                keys = sorted({k for k, _ in bad})
                ctx.ob("C11.report-keys", fi.short(), "presence-tested", not bad,
                       "every field of the report is read only after its presence was tested" if not bad else
                       f"the report fields {keys} are read without a presence test (first at line {bad[0][1]}): a report lacking one of them "
                       "(no fix yet, standstill without speed/track) raises KeyError and no message is generated", fi.loc)
    ctx.extra["report_field_reads"] = n
    if n < 20:
        raise AnalysisError(f"C11: only {n} report field reads found (confirmed: > 30)")


def fresh_literals(ctx):
    """A message dictionary is mutated in place by the fullfill_* methods.  Every container that a builder puts into a
    message (member of a dict / tuple / list literal in the CAM, VAM, DENM and clustering modules) is therefore built afresh
    by that call: a member that is a module-level mutable constant (`"altitude": _ALTITUDE_UNAVAILABLE` with the constant a
    dict) is ONE object shared by every message of the process - a value written for one report shows up in the next message
    built from a report that lacks the field."""
    P = ctx.prog
    n = 0
    DENMM = "facilities.decentralized_environmental_notification_service.denm_transmission_management"
    CLU = "facilities.vru_awareness_service.vru_clustering"
    for modname in (CAMM, VAMM, DENMM, CLU):
        m = P.module(modname)
        for fi in P.iter_funcs():
            if fi.module is not m:
                continue
            shared = []
            for lit in [x for x in ast.walk(fi.node) if isinstance(x, (ast.Dict, ast.Tuple, ast.List))]:
                members = list(lit.values) if isinstance(lit, ast.Dict) else list(lit.elts)
                for v in members:
                    if not isinstance(v, (ast.Name, ast.Attribute)) or not isinstance(getattr(v, "ctx", None), ast.Load):
                        continue
                    n += 1
                    r = P.resolve_name(fi.module, v.id) if isinstance(v, ast.Name) else P.resolve_expr_entity(fi.module, v)
                    if isinstance(r, tuple) and r[0] == "const" and isinstance(r[2], (ast.Dict, ast.List, ast.Set, ast.DictComp, ast.ListComp)):
                        if isinstance(v, ast.Name) and v.id in {a.arg for a in fi.node.args.args} | \
                                {x.id for x in ast.walk(fi.node) if isinstance(x, ast.Name) and isinstance(x.ctx, ast.Store)}:
                            continue                  # a local of that name shadows the constant
                        shared.append((dotted(v), v.lineno))
            if shared:
                ctx.ob("C11.schema", fi.short(), f"fresh-container:{shared[0][0]}", False,
                       f"the module-level mutable constant `{shared[0][0]}` is put into a message value by reference (line {shared[0][1]}): the "
                       "fullfill_* methods write into message dictionaries in place, so every message of the process shares this object and a "
                       "value stored for one report leaks into messages built from reports that lack the field", fi.loc)
    ctx.extra["literal_members_by_name"] = n
    ctx.ob("C11.schema", "message builders", "fresh-containers", True,
           f"{n} name-valued members of dict / tuple / list literals in the message modules examined: none is a module-level mutable constant", "")


def run(ctx):
    ctx.explanation = (
        "Schema conformance (K9) and interval interpretation (K10). The ASN.1 modules the repository ships as string constants "
        "are folded from source and parsed (asn1tools.parser only) into a type tree. Every dict / tuple literal and every "
        "subscript store that flows into a CAM, VAM or DENM dictionary - white templates, fullfill_* methods, container "
        "builders incl. the clustering manager's (callee return values are followed) - is checked against the type at that "
        "position; computed INTEGERs are bounded by interval arithmetic from the quantifier's input box with refinement by "
        "the guard facts at the store, and compared with the ASN.1 constraint; scaling expressions are compared with the "
        "unit of the data element as polynomial identities; every subscript the readers apply to a decoded message must exist "
        "in the type. One evaluation covers the whole input box.")
    ctx.declined = ["bit-exact UPER output", "truncation vs rounding of int()",
                    "'no report stalls generation' beyond the re-arming rule of C10"]
    M = MU.Messages(ctx)
    tot_vals = 0
    for kind in ("CAM", "VAM", "DENM"):
        ck = MU.check_template(ctx, M, kind, "C11.schema", "C11.range")
        tot_vals += ck.n_values
        n = MU.check_stores(ctx, M, kind, "C11.schema", "C11.range")
        ctx.extra[f"{kind}_stores"] = n
        ctx.extra[f"{kind}_alias_sites"] = MU.check_aliases(ctx, M, kind, "C11.schema", "C11.range")
        units(ctx, M, kind)
    # readers of decoded messages
    nr = 0
    nr += MU.check_reads(ctx, M, "CAM", "C11.schema", [
        ("facilities.ca_basic_service.cam_reception_management.CAMReceptionManagement.reception_callback", "cam")])
    nr += MU.check_reads(ctx, M, "VAM", "C11.schema", [
        ("facilities.vru_awareness_service.vam_reception_management.VAMReceptionManagement.reception_callback", "vam"),
        ("facilities.vru_awareness_service.vru_clustering.VBSClusteringManager._process_received_vam", "vam")])
    nr += MU.check_reads(ctx, M, "DENM", "C11.schema", [
        ("facilities.decentralized_environmental_notification_service.denm_reception_management.DENMReceptionManagement.feed_ldm", "denm"),
        ("facilities.decentralized_environmental_notification_service.denm_reception_management.DENMReceptionManagement.reception_callback", "denm")])
    ctx.extra["reader_paths"] = nr
    gdt_rules(ctx)
    reception_clock(ctx)
    report_keys(ctx)
    fresh_literals(ctx)
    ctx.floor("C11.gdt", 6)
    ctx.floor("C11.schema", 325, "typed positions")
    ctx.floor("C11.range", 120, "computed integers")
    ctx.floor("C11.unit", 8)
