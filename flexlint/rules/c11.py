"""C11 - facility messages faithfully encode the sensor input they were built from.

Decides: (a) every value the builders put into a CAM / VAM / DENM dictionary fits the ASN.1 type at that position -
shape (dict / (name, value) tuple / (bytes, bits) pair / enumerator string), member and alternative names, enumerators,
mandatory members of the white templates, and for INTEGERs the range reachable from the quantifier's input ranges
(interval interpretation with guard refinement); (b) the scaling coefficient of position / speed / heading values;
(c) what the readers of decoded messages subscript.  These are exactly the conditions under which the encoder raises,
wraps or silently drops a value.
Does not decide bit-exact UPER output, truncation vs rounding, reconstruction arithmetic of generationDeltaTime.
"""
from __future__ import annotations

import ast
import re

from ..prog import AnalysisError, dotted, unparse
from ..absint import to_poly, Poly
from ..match import pretty
from . import msgutil as MU

PROP = "C11"
CAMM = "facilities.ca_basic_service.cam_transmission_management"
VAMM = "facilities.vru_awareness_service.vam_transmission_management"


def norm(s):
    return re.sub(r"\s+", "", s)


UNITS = {   # leaf key -> (input expression, coefficient)
    "latitude": ("tpv['lat']", 10000000), "longitude": ("tpv['lon']", 10000000), "altitudeValue": ("tpv['altHAE']", 100),
    "speedValue": ("tpv['speed']", 100), "headingValue": ("tpv['track']", 10), "value": ("tpv['track']", 10),
}


def units(ctx, M, kind):
    """The stored expression is int(<input> * <unit coefficient>)."""
    P = ctx.prog
    n = 0
    for s in M.stores(kind):
        leaf = s.path[-1] if s.path else None
        if leaf not in UNITS or not isinstance(leaf, str):
            continue
        fl = ctx.flows.get(s.fi)
        st = fl.before[id(s.stmt)]
        x = fl.expand(s.value, st)
        if P.try_fold(s.fi.module, x, default="<nc>") != "<nc>":
            continue          # out-of-range / unavailable code point
        inp, coef = UNITS[leaf]
        t = norm(pretty(unparse(x)))
        if norm(inp) not in t:
            continue
        n += 1
        inner = x.args[0] if isinstance(x, ast.Call) and dotted(x.func) in ("int", "round") and x.args else x
        got = to_poly(P, s.fi.module, inner, lambda q: pretty(q))
        want = to_poly(P, s.fi.module, ast.parse(f"{inp} * {coef}", mode="eval").body, lambda q: pretty(q))
        ctx.ob("C11.unit", s.fi.short(), f"{kind}.{leaf}", repr(got) == repr(want),
               f"{kind} {leaf} := `{pretty(unparse(x))[:60]}`; the data element's unit needs {inp} x {coef}",
               f"{s.fi.module.rel}:{s.stmt.lineno}")
    return n


GDT = "facilities.ca_basic_service.cam_transmission_management.GenerationDeltaTime"


def gdt_rules(ctx):
    """generationDeltaTime: receiver-side reconstruction as a formula identity, and wrap-aware use on the sender side."""
    P = ctx.prog
    g = P.cls(GDT)
    fi = g.methods.get("as_timestamp_in_certain_point")
    if fi is None:
        raise AnalysisError("C11: GenerationDeltaTime.as_timestamp_in_certain_point vanished")
    fl = ctx.flows.get(fi)
    R = fi.params[1]
    ren = lambda q: pretty(q)
    # n := trunc((R - EPOCH + ELAPSED) / 65536)
    defs = {}
    for n in ast.walk(fi.node):
        if isinstance(n, ast.Assign) and isinstance(n.targets[0], ast.Name):
            defs[n.targets[0].id] = n.value
    loc = fi.loc
    ncy = defs.get("number_of_cycles")
    ok = isinstance(ncy, ast.Call) and dotted(ncy.func) in ("trunc", "math.trunc", "int", "math.floor", "floor") and len(ncy.args) == 1
    if ok:
        got = to_poly(P, fi.module, ncy.args[0], ren)
        want = to_poly(P, fi.module, ast.parse(f"({R} - ITS_EPOCH_MS + ELAPSED_MILLISECONDS) / 65536", mode="eval").body, ren)
        ok = repr(got) == repr(want)
    ctx.ob("C11.gdt", fi.short(), "cycles", ok, "number of whole 65536 ms cycles = trunc((reception time in ITS ms) / 65536)", loc)
    want_c = to_poly(P, fi.module, ast.parse("self.msec + 65536 * number_of_cycles + ITS_EPOCH_MS - ELAPSED_MILLISECONDS", mode="eval").body, ren)
    rets = [(k, s_, st) for k, s_, st in fl.exits if k == "return" and s_.value is not None]
    if len(rets) != 2:
        raise AnalysisError(f"C11: as_timestamp_in_certain_point has {len(rets)} returns (2 expected: same cycle / previous cycle)")
    seen_same, seen_prev = False, False
    for k, s_, st in rets:
        x = fl.expand(s_.value, st)
        # keep number_of_cycles symbolic
        x2 = s_.value
        if isinstance(x2, ast.Name) and x2.id in defs:
            x2 = defs[x2.id]
        got = to_poly(P, fi.module, x2, ren)
        guards = sorted(("" if f.pol else "not ") + norm(pretty(f.key)) for f in st.facts if f.kind == "cond")
        if repr(got) == repr(want_c):
            seen_same = True
            okg = f"{R}>=transformed_timestamp" in guards
            ctx.ob("C11.gdt", fi.short(), "same-cycle", okg,
                   f"candidate in the reception cycle is returned exactly when it is not later than the reception time (guards {guards})", f"{fi.module.rel}:{s_.lineno}")
        elif repr(got) == repr(want_c - Poly.const(65536)):
            seen_prev = True
            okg = f"transformed_timestamp>{R}" in guards
            ctx.ob("C11.gdt", fi.short(), "previous-cycle", okg,
                   f"otherwise the candidate one full cycle (65536 ms) earlier is returned (guards {guards})", f"{fi.module.rel}:{s_.lineno}")
        else:
            ctx.ob("C11.gdt", fi.short(), f"return:{norm(unparse(s_.value))[:30]}", False,
                   f"returned value `{got!r}` is neither msec + 65536*n + EPOCH - ELAPSED nor that minus 65536: the reconstructed time is not congruent "
                   "to generationDeltaTime modulo 65536 / not within the last 65536 ms", f"{fi.module.rel}:{s_.lineno}")
    ctx.ob("C11.gdt", fi.short(), "both-cycles", seen_same and seen_prev, "both the same-cycle and the previous-cycle case are returned", loc)
    # wrap-aware subtraction: (a - b) mod 65536, either with `%` or as `d = a - b; if d < 0: d += 65536`
    sub = g.methods.get("__sub__")
    if sub is None:
        raise AnalysisError("C11: GenerationDeltaTime.__sub__ vanished")
    other = sub.params[1]
    sfl = ctx.flows.get(sub)
    want_d = to_poly(P, sub.module, ast.parse(f"self.msec - {other}.msec", mode="eval").body, ren)
    okw, how = False, "unrecognised form"
    srets = [(s_, st) for k, s_, st in sfl.exits if k == "return" and s_.value is not None and dotted(s_.value) != "NotImplemented"]
    mods = [n for n in ast.walk(sub.node) if isinstance(n, ast.BinOp) and isinstance(n.op, ast.Mod)]
    if mods:
        okw = all(P.try_fold(sub.module, m.right) == 65536 and repr(to_poly(P, sub.module, m.left, ren)) == repr(want_d) for m in mods) and len(srets) == 1
        how = "(self.msec - other.msec) % 65536"
    else:
        first = [n for n in sub.node.body[-2:] + list(ast.walk(sub.node)) if isinstance(n, ast.Assign) and isinstance(n.targets[0], ast.Name)]
        var = first[0].targets[0].id if first else None
        base_ok = bool(first) and repr(to_poly(P, sub.module, first[0].value, ren)) == repr(want_d)
        fix = [n for n in ast.walk(sub.node) if isinstance(n, ast.If) and isinstance(n.test, ast.Compare)]
        fix_ok = False
        for n in fix:
            t = norm(unparse(n.test))
            if t in (f"{var}<0", f"0>{var}") and len(n.body) == 1 and not n.orelse:
                b0 = n.body[0]
                if isinstance(b0, ast.Assign) and dotted(b0.targets[0]) == var and repr(to_poly(P, sub.module, b0.value, ren)) == repr(to_poly(P, sub.module, ast.parse(f"{var} + 65536", mode="eval").body, ren)):
                    fix_ok = True
                if isinstance(b0, ast.AugAssign) and dotted(b0.target) == var and isinstance(b0.op, ast.Add) and P.try_fold(sub.module, b0.value) == 65536:
                    fix_ok = True
        ret_ok = len(srets) == 1 and norm(unparse(srets[0][0].value)) in (var, f"int({var})")
        okw = base_ok and fix_ok and ret_ok
        how = f"{var} = self.msec - other.msec; if {var} < 0: {var} += 65536"
    ctx.ob("C11.gdt", g.qual[10:] + ".__sub__", "wrap-aware", okw,
           f"GenerationDeltaTime difference is (a - b) mod 65536 [{how}]" if okw else "GenerationDeltaTime.__sub__ is not (a - b) mod 65536", sub.loc)
    # sender side: generationDeltaTime objects are ordered only through the wrap-aware difference
    n_sub = 0
    for f2 in P.iter_funcs():
        if "facilities" not in f2.module.name or f2.cls is g:
            continue
        if "GenerationDeltaTime" not in f2.module.src:
            continue
        for n in ast.walk(f2.node):
            if isinstance(n, ast.BinOp) and isinstance(n.op, ast.Sub):
                tl = {t for t in P.expr_types(f2, n.left) if isinstance(t, str)}
                if GDT in tl or any(t.endswith(".GenerationDeltaTime") for t in tl):
                    n_sub += 1
            if isinstance(n, ast.Compare) and any(isinstance(o, (ast.Lt, ast.LtE, ast.Gt, ast.GtE)) for o in n.ops):
                for side in [n.left] + list(n.comparators):
                    ts = {t for t in P.expr_types(f2, side) if isinstance(t, str)}
                    if any(t.endswith(".GenerationDeltaTime") for t in ts):
                        ctx.ob("C11.gdt", f2.short(), f"ordered-compare:{norm(unparse(n))[:50]}", False,
                               f"`{unparse(n)[:80]}` orders two generationDeltaTime values without the modulo-65536 difference: after the 16-bit "
                               "counter wraps every fresh report looks older and generation stalls for up to 65 s", f"{f2.module.rel}:{n.lineno}")
                        break
    ctx.ob("C11.gdt", "facilities", "typed-differences-seen", n_sub >= 1, f"{n_sub} wrap-aware differences of GenerationDeltaTime objects found (type inference sees them)", loc)


def run(ctx):
    ctx.explanation = (
        "Schema conformance (K9) and interval interpretation (K10). The ASN.1 modules the repository ships as string constants "
        "are folded from source and parsed (asn1tools.parser only) into a type tree. Every dict / tuple literal and every "
        "subscript store that flows into a CAM, VAM or DENM dictionary - white templates, fullfill_* methods, container "
        "builders incl. the clustering manager's (callee return values are followed) - is checked against the type at that "
        "position; computed INTEGERs are bounded by interval arithmetic from the quantifier's input box with refinement by "
        "the guard facts at the store, and compared with the ASN.1 constraint; scaling expressions are compared with the "
        "unit of the data element as polynomial identities; every subscript the readers apply to a decoded message must exist "
        "in the type. One evaluation covers the whole input box.")
    ctx.declined = ["bit-exact UPER output", "truncation vs rounding of int()",
                    "'no report stalls generation' beyond the re-arming rule of C10"]
    M = MU.Messages(ctx)
    tot_vals = 0
    for kind in ("CAM", "VAM", "DENM"):
        ck = MU.check_template(ctx, M, kind, "C11.schema", "C11.range")
        tot_vals += ck.n_values
        n = MU.check_stores(ctx, M, kind, "C11.schema", "C11.range")
        ctx.extra[f"{kind}_stores"] = n
        ctx.extra[f"{kind}_alias_sites"] = MU.check_aliases(ctx, M, kind, "C11.schema", "C11.range")
        units(ctx, M, kind)
    # readers of decoded messages
    nr = 0
    nr += MU.check_reads(ctx, M, "CAM", "C11.schema", [
        ("facilities.ca_basic_service.cam_reception_management.CAMReceptionManagement.reception_callback", "cam")])
    nr += MU.check_reads(ctx, M, "VAM", "C11.schema", [
        ("facilities.vru_awareness_service.vam_reception_management.VAMReceptionManagement.reception_callback", "vam"),
        ("facilities.vru_awareness_service.vru_clustering.VBSClusteringManager._process_received_vam", "vam")])
    nr += MU.check_reads(ctx, M, "DENM", "C11.schema", [
        ("facilities.decentralized_environmental_notification_service.denm_reception_management.DENMReceptionManagement.feed_ldm", "denm"),
        ("facilities.decentralized_environmental_notification_service.denm_reception_management.DENMReceptionManagement.reception_callback", "denm")])
    ctx.extra["reader_paths"] = nr
    gdt_rules(ctx)
    ctx.floor("C11.gdt", 6)
    ctx.floor("C11.schema", 150, "typed positions")
    ctx.floor("C11.range", 12, "computed integers")
    ctx.floor("C11.unit", 8)
