"""C11 - facility messages faithfully encode the sensor input they were built from.

Decides: (a) every value the builders put into a CAM / VAM / DENM dictionary fits the ASN.1 type at that position -
shape (dict / (name, value) tuple / (bytes, bits) pair / enumerator string), member and alternative names, enumerators,
mandatory members of the white templates, and for INTEGERs the range reachable from the quantifier's input ranges
(interval interpretation with guard refinement); (b) the scaling coefficient of position / speed / heading values;
(c) what the readers of decoded messages subscript.  These are exactly the conditions under which the encoder raises,
wraps or silently drops a value.
Does not decide bit-exact UPER output, truncation vs rounding, reconstruction arithmetic of generationDeltaTime.
"""
from __future__ import annotations

import ast
import re

from ..prog import AnalysisError, dotted, unparse
from ..absint import to_poly
from ..match import pretty
from . import msgutil as MU

PROP = "C11"
CAMM = "facilities.ca_basic_service.cam_transmission_management"
VAMM = "facilities.vru_awareness_service.vam_transmission_management"


def norm(s):
    return re.sub(r"\s+", "", s)


UNITS = {   # leaf key -> (input expression, coefficient)
    "latitude": ("tpv['lat']", 10000000), "longitude": ("tpv['lon']", 10000000), "altitudeValue": ("tpv['altHAE']", 100),
    "speedValue": ("tpv['speed']", 100), "headingValue": ("tpv['track']", 10), "value": ("tpv['track']", 10),
}


def units(ctx, M, kind):
    """The stored expression is int(<input> * <unit coefficient>)."""
    P = ctx.prog
    n = 0
    for s in M.stores(kind):
        leaf = s.path[-1] if s.path else None
        if leaf not in UNITS or not isinstance(leaf, str):
            continue
        fl = ctx.flows.get(s.fi)
        st = fl.before[id(s.stmt)]
        x = fl.expand(s.value, st)
        if P.try_fold(s.fi.module, x, default="<nc>") != "<nc>":
            continue          # out-of-range / unavailable code point
        inp, coef = UNITS[leaf]
        t = norm(pretty(unparse(x)))
        if norm(inp) not in t:
            continue
        n += 1
        inner = x.args[0] if isinstance(x, ast.Call) and dotted(x.func) in ("int", "round") and x.args else x
        got = to_poly(P, s.fi.module, inner, lambda q: pretty(q))
        want = to_poly(P, s.fi.module, ast.parse(f"{inp} * {coef}", mode="eval").body, lambda q: pretty(q))
        ctx.ob("C11.unit", s.fi.short(), f"{kind}.{leaf}", repr(got) == repr(want),
               f"{kind} {leaf} := `{pretty(unparse(x))[:60]}`; the data element's unit needs {inp} x {coef}",
               f"{s.fi.module.rel}:{s.stmt.lineno}")
    return n


def run(ctx):
    ctx.explanation = (
        "Schema conformance (K9) and interval interpretation (K10). The ASN.1 modules the repository ships as string constants "
        "are folded from source and parsed (asn1tools.parser only) into a type tree. Every dict / tuple literal and every "
        "subscript store that flows into a CAM, VAM or DENM dictionary - white templates, fullfill_* methods, container "
        "builders incl. the clustering manager's (callee return values are followed) - is checked against the type at that "
        "position; computed INTEGERs are bounded by interval arithmetic from the quantifier's input box with refinement by "
        "the guard facts at the store, and compared with the ASN.1 constraint; scaling expressions are compared with the "
        "unit of the data element as polynomial identities; every subscript the readers apply to a decoded message must exist "
        "in the type. One evaluation covers the whole input box.")
    ctx.declined = ["bit-exact UPER output", "truncation vs rounding of int()", "receiver-side reconstruction arithmetic of generationDeltaTime",
                    "'no report stalls generation' beyond the re-arming rule of C10"]
    M = MU.Messages(ctx)
    tot_vals = 0
    for kind in ("CAM", "VAM", "DENM"):
        ck = MU.check_template(ctx, M, kind, "C11.schema", "C11.range")
        tot_vals += ck.n_values
        n = MU.check_stores(ctx, M, kind, "C11.schema", "C11.range")
        ctx.extra[f"{kind}_stores"] = n
        units(ctx, M, kind)
    # readers of decoded messages
    nr = 0
    nr += MU.check_reads(ctx, M, "CAM", "C11.schema", [
        ("facilities.ca_basic_service.cam_reception_management.CAMReceptionManagement.reception_callback", "cam")])
    nr += MU.check_reads(ctx, M, "VAM", "C11.schema", [
        ("facilities.vru_awareness_service.vam_reception_management.VAMReceptionManagement.reception_callback", "vam"),
        ("facilities.vru_awareness_service.vru_clustering.VBSClusteringManager._process_received_vam", "vam")])
    nr += MU.check_reads(ctx, M, "DENM", "C11.schema", [
        ("facilities.decentralized_environmental_notification_service.denm_reception_management.DENMReceptionManagement.feed_ldm", "denm"),
        ("facilities.decentralized_environmental_notification_service.denm_reception_management.DENMReceptionManagement.reception_callback", "denm")])
    ctx.extra["reader_paths"] = nr
    ctx.floor("C11.schema", 150, "typed positions")
    ctx.floor("C11.range", 12, "computed integers")
    ctx.floor("C11.unit", 8)
