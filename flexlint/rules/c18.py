"""C18 - VRU clustering state machine stays consistent and never silences a VRU for good.

Decides (a) by finite typestate abstract interpretation of VBSClusteringManager - every public method interpreted over
the abstraction {enum member, None, non-None} of its state fields, unknown tests going both ways, least fixpoint over
all call sequences, exception exits included - that on every reachable state: leader <=> own cluster present, passive
<=> joined id, leader id and an armed leader-lost timer present, every join / leave phase has its start time set, no assert can fail (state), and should_transmit_vam()
is False only while passive or idle and changes no state (gate); (b) by guard / provenance rules: the five timer
constants = TS 103 300-3 Table 14; which constant ends which phase - each time-driven transition sits under its
sub-state test and `now - <its stamp> >= <its constant>`, established at the block head or on every path to it, and
depends on no unrelated sub-state; every phase entry stamps its timer with a clock reading in the same block; update()
hands the clock to the handler of exactly the current state (timers); only VAMs of the joined cluster's leader refresh
the leader-lost timer, update() can take passive to stand-alone, _do_leave_to_standalone is straight-line and ends
stand-alone, a break-up received while passive leads there (unless reason = reception of CPM) and the own leader's is
accepted (recovery); cluster id drawn from randint within 1..255 and taken from the generator only when not None,
cardinality lower bound >= 1 at every store, augmented store, construction and default (state); (c) that the service
drives the machine (wiring): every path to a transmission site passes `no manager` or `should_transmit_vam() true`,
that gate being the only clustering-dependent early exit; update() on every generation cycle before the gate;
on_received_vam for every decoded VAM, processed under the manager's lock; the two cluster containers attached under their
VAM keys, when not None, to the dictionary that is encoded; (d) the cluster containers against the VAM ASN.1 module,
writer and reader side, leave / break-up reason enumerators and profile bit masks (coder, shared engine with C11); (e) a
field copied into another one (`_leave_cluster_id <- _joined_cluster_id`) has not been cleared earlier in the same method
(state, copies-live-field).
Does not decide durations as elapsed time nor multi-station closed-loop behaviour through the real coder.
"""
from __future__ import annotations

import ast
import re

from ..prog import AnalysisError, FuncInfo, dotted, unparse
from ..match import pretty
from ..typestate import Machine, N, S, T, E
from .. import sem
from . import msgutil as MU

PROP = "C18"
VRU = "facilities.vru_awareness_service"
MGR = f"{VRU}.vru_clustering.VBSClusteringManager"
TXM = f"{VRU}.vam_transmission_management.VAMTransmissionManagement"
RXM = f"{VRU}.vam_reception_management.VAMReceptionManagement"

SPEC_TIMES = {   # TS 103 300-3 V2.3.1 Table 14 (seconds)
    "TIME_CLUSTER_BREAKUP_WARNING": 3.0, "TIME_CLUSTER_JOIN_NOTIFICATION": 3.0, "TIME_CLUSTER_JOIN_SUCCESS": 0.5,
    "TIME_CLUSTER_CONTINUITY": 2.0, "TIME_CLUSTER_LEAVE_NOTIFICATION": 1.0,
}


def norm(s):
    return re.sub(r"\s+", "", s)


def guards_of(fl, node) -> list:
    """Normalised texts of the guard facts in force at `node` (negative ones prefixed with 'not ')."""
    st = fl.state_at(node)
    out = []
    for f in st.facts:
        if f.kind != "cond":
            continue
        out.append(("" if f.pol else "not ") + norm(f.key))
    return sorted(out)


def block_head(fi, node):
    """First statement of the innermost statement list that contains `node` (or the statement holding it)."""
    best = None
    for blk in ast.walk(fi.node):
        for fld in ("body", "orelse", "finalbody"):
            lst = getattr(blk, fld, None)
            if isinstance(lst, list) and lst and isinstance(lst[0], ast.stmt):
                for st in lst:
                    if st is node or any(x is node for x in ast.walk(st)):
                        if best is None or (best[1].lineno <= lst[0].lineno):
                            best = (st, lst[0])
    return best[1] if best else node


def run(ctx):
    P = ctx.prog
    ctx.explanation = (
        "Typestate abstract interpretation (finite domain, least fixpoint over all sequences of public calls - nothing is "
        "executed) for the consistency invariants and the transmission gate; guard-fact and provenance rules for timers, "
        "heartbeat and recovery; must-call rules for the wiring into the VAM transmission and reception managers; ASN.1 schema "
        "conformance for the cluster containers. The reachable abstract set covers every history of commands, received VAMs "
        "and clock values because every test on a forgotten quantity is taken both ways.")
    ctx.declined = ["durations as elapsed wall-clock time", "two- and three-station closed loops through the real coder (run property)"]
    mgr = P.cls(MGR)
    cstate = P.cls(f"{VRU}.vru_clustering._ClusterState")
    M = Machine(P, mgr, sub_objects={"_cluster": cstate})
    need = {"_state", "_cluster", "_joined_cluster_id", "_leader_station_id", "_last_leader_vam_time", "_join_substate", "_leave_substate",
            "_join_started", "_join_leave_started", "_leave_started", "_cluster.breakup_started"}
    missing = need - set(M.fields)
    if missing:
        raise AnalysisError(f"C18: state fields no longer found in VBSClusteringManager.__init__: {sorted(missing)}")
    reach = M.reachable()
    ctx.extra["abstract_states"] = len(reach)
    ctx.extra["states"] = len(reach)
    ctx.extra["transitions"] = len(M.transitions)
    ctx.extra["exhaustive"] = True      # the reachable abstract set is computed completely (least fixpoint reached)
    ctx.extra["abstract_transitions"] = len(M.transitions)
    ctx.extra["tracked_fields"] = sorted(M.fields)
    ctx.extra["events"] = [m.name for m in M.public_methods()]
    if len(reach) < 8:
        raise AnalysisError(f"C18: only {len(reach)} abstract states reachable - the interpretation lost the machine")

    LEADER, PASSIVE = E("VBSState.VRU_ACTIVE_CLUSTER_LEADER"), E("VBSState.VRU_PASSIVE")
    IDLE, ALONE = E("VBSState.VRU_IDLE"), E("VBSState.VRU_ACTIVE_STANDALONE")

    def show(st):
        return ", ".join(f"{k}={v[1].split('.')[-1] if isinstance(v, tuple) else v}" for k, v in sorted(st.items())
                         if k in need)

    def witness(pred):
        for k, st in reach.items():
            if pred(st):
                # find a shortest event path from an initial state (BFS over recorded transitions)
                return st
        return None

    def path_to(target_key):
        init = {M.freeze(s) for s in M.initial()}
        prev = {k: None for k in init}
        queue = list(init)
        adj = {}
        for name, a, b, kind, val in M.transitions:
            adj.setdefault(a, []).append((name, b, kind))
        while queue:
            k = queue.pop(0)
            if k == target_key:
                break
            for name, b, kind in adj.get(k, []):
                if b not in prev:
                    prev[b] = (k, name + ("!" if kind == "raise" else ""))
                    queue.append(b)
        seq, k = [], target_key
        while prev.get(k):
            k, name = prev[k]
            seq.append(name)
        return " -> ".join(reversed(seq)) or "<initial>"

    def inv(name, pred, text):
        bad = [st for st in reach.values() if not pred(st)]
        detail = text
        if bad:
            detail = f"{text}; violated in reachable state [{show(bad[0])}] after events: {path_to(M.freeze(bad[0]))}"
        ctx.ob("C18.state", mgr.qual[10:], name, not bad, detail, f"{mgr.module.rel}:{mgr.node.lineno}")

    inv("leader=>cluster", lambda s: s["_state"] != LEADER or isinstance(s["_cluster"], tuple), "leader state implies an own cluster object")
    inv("cluster=>leader", lambda s: not isinstance(s["_cluster"], tuple) or s["_state"] == LEADER, "an own cluster exists only in leader state")
    for f in ("_joined_cluster_id", "_leader_station_id", "_last_leader_vam_time"):
        inv(f"passive=>{f}", lambda s, f=f: s["_state"] != PASSIVE or s[f] == S, f"passive implies {f} is set"
            + (" (armed leader-lost timer: without it the station is silent for good)" if f == "_last_leader_vam_time" else ""))
        inv(f"{f}=>passive", lambda s, f=f: s[f] != S or s["_state"] == PASSIVE, f"{f} is set only while passive")
    inv("phase-timers-armed", lambda s: (s["_join_substate"] not in (E("_JoinSubstate.NOTIFY"), E("_JoinSubstate.WAITING")) or s["_join_started"] == S)
        and (s["_join_substate"] not in (E("_JoinSubstate.CANCELLED"), E("_JoinSubstate.FAILED")) or s["_join_leave_started"] == S)
        and (s["_leave_substate"] != E("_LeaveSubstate.NOTIFY") or s["_leave_started"] == S),
        "every join / leave notification phase has its start time set (otherwise it never ends)")
    af = {(fn.name, s.lineno) for fn, s, st in M.assert_failures}
    ctx.ob("C18.state", mgr.qual[10:], "no-assert-reachable", not af,
           "no assert of the manager can fail in a reachable state" if not af else f"assert can fail at {sorted(af)}", f"{mgr.module.rel}:{mgr.node.lineno}")
    # every public method leaves a consistent state also when it raises: covered, raise exits are members of `reach`
    n_raise = sum(1 for t in M.transitions if t[3] == "raise")
    ctx.extra["exception_exits_considered"] = n_raise

    # ------------------------------------------------------------------ gate
    gate = mgr.methods["should_transmit_vam"]
    n_gate = 0
    for k, st in reach.items():
        res = {val for post, kind, val in M.step(gate, st) if kind == "return"}
        posts = {M.freeze(post) for post, kind, val in M.step(gate, st)}
        n_gate += 1
        okf = ("B", False) not in res or st["_state"] in (IDLE, PASSIVE)
        okt = st["_state"] not in (ALONE, LEADER) or res == {("B", True)}
        if not (okf and okt):
            ctx.ob("C18.gate", gate.short(), f"suppress-only-passive-or-idle:{show(st)}", False,
                   f"should_transmit_vam() can return {sorted(str(r) for r in res)} in reachable state [{show(st)}] (events: {path_to(k)}): "
                   "individual VAMs are suppressed outside passive / idle", gate.loc)
        if posts != {k}:
            ctx.ob("C18.gate", gate.short(), f"gate-is-pure:{show(st)}", False, "should_transmit_vam() changes the clustering state", gate.loc)
    ctx.ob("C18.gate", gate.short(), "suppress-only-passive-or-idle", True,
           f"evaluated abstractly in all {n_gate} reachable states: False only while passive or idle, True whenever stand-alone or leader", gate.loc)
    # passive + leaving => transmits (leave notification must be sendable)
    lv = [st for st in reach.values() if st["_state"] == PASSIVE and st["_leave_substate"] == E("_LeaveSubstate.NOTIFY")]
    ctx.extra["passive_leaving_states"] = len(lv)

    # ------------------------------------------------------------------ recovery (time driven + break-up)
    consts = P.module(f"{VRU}.vam_constants")
    for cname, want in SPEC_TIMES.items():
        got = P.try_fold(consts, consts.consts.get(cname)) if cname in consts.consts else None
        ctx.ob("C18.timers", "vam_constants", cname, got == want, f"{cname} = {got} s (TS 103 300-3 Table 14: {want} s)", f"{consts.rel}:1")

    def head_facts(fi, fl, n) -> set:
        """Canonical guard atoms at the head of the block enclosing n (before any store of the block kills them)."""
        return sem.facts(fl, block_head(fi, n))

    def timer_rule(fn_name, what, select, must: str, must_not=()):
        fi = mgr.methods[fn_name]
        fl = ctx.flows.get(fi)
        nodes = [n for n in ast.walk(fi.node) if select(n, fi, fl)]
        if not nodes:
            ctx.ob("C18.timers", fi.short(), what, False, f"{what}: the transition is no longer made in {fn_name}", fi.loc)
            return
        # the named constant and its value are one spelling (the loader reads module constants as their values)
        def by_value(mt):
            return repr(P.try_fold(consts, consts.consts[mt.group(1)])) if mt.group(1) in consts.consts else mt.group(0)
        musts = {must, re.sub(re.escape(C) + r"\.([A-Z_0-9]+)", by_value, must)}
        for n in nodes:
            g = head_facts(fi, fl, n)
            ok_must = any(sem.holds(g, m_) for m_ in musts)
            if not ok_must:
                # the transition may follow its guard at a distance (guard as an early return, stores in between): every
                # syntactic path to the transition must have taken the decision under the required tests
                pcs = sem.path_conditions(fi.node, n, kill_rebound=False)
                if pcs and any(all(sem.holds(pc, m_) for pc in pcs) for m_ in musts):
                    ok_must = True
                    g = set().union(*pcs) if pcs else g
            extra = sorted(x for x in g if any(b in x for b in must_not))
            ok = ok_must and not extra
            ctx.ob("C18.timers", fi.short(), what, ok,
                   f"{what}: happens under `{must}`" if ok else
                   f"{what}: needs `{must}`" + (f" and must not depend on {list(must_not)}" if must_not else "") + f"; guards in force {sorted(g)}",
                   f"{fi.module.rel}:{n.lineno}")

    def store_of(attr, valsrc):
        def sel(n, fi, fl):
            if not (isinstance(n, ast.Assign) and dotted(n.targets[0]) == f"self.{attr}" and id(n) in fl.before):
                return False
            return sem.same(fl.expand(n.value, fl.before[id(n)]), valsrc)
        return sel

    def call_of(name):
        return lambda n, fi, fl: isinstance(n, ast.Call) and dotted(n.func) == f"self.{name}"

    C = "vam_constants"
    timer_rule("_update_standalone", "join-notify->waiting", store_of("_join_substate", "_JoinSubstate.WAITING"),
               f"self._join_substate is _JoinSubstate.NOTIFY and now - self._join_started >= {C}.TIME_CLUSTER_JOIN_NOTIFICATION")
    timer_rule("_update_standalone", "join-waiting->failed", call_of("confirm_join_failed"),
               f"self._join_substate is _JoinSubstate.WAITING and now - self._join_started >= {C}.TIME_CLUSTER_JOIN_SUCCESS")
    timer_rule("_update_standalone", "join-leave-notify-ends", store_of("_join_substate", "_JoinSubstate.NONE"),
               f"now - self._join_leave_started >= {C}.TIME_CLUSTER_LEAVE_NOTIFICATION")
    timer_rule("_update_standalone", "leave-notify-ends", store_of("_leave_substate", "_LeaveSubstate.NONE"),
               f"self._leave_substate is _LeaveSubstate.NOTIFY and now - self._leave_started >= {C}.TIME_CLUSTER_LEAVE_NOTIFICATION",
               must_not=("_join_substate",))
    timer_rule("_update_passive", "leave-notify-ends", store_of("_leave_substate", "_LeaveSubstate.NONE"),
               f"self._leave_substate is _LeaveSubstate.NOTIFY and now - self._leave_started >= {C}.TIME_CLUSTER_LEAVE_NOTIFICATION")
    timer_rule("_update_leader", "breakup-warning-ends", store_of("_state", "VBSState.VRU_ACTIVE_STANDALONE"),
               f"now - self._cluster.breakup_started >= {C}.TIME_CLUSTER_BREAKUP_WARNING")
    timer_rule("_update_passive", "leader-lost", call_of("_do_leave_to_standalone"),
               f"now - self._last_leader_vam_time >= {C}.TIME_CLUSTER_CONTINUITY", must_not=("_leave_substate", "_join_substate"))

    def is_now(fi, fl, value, st) -> bool:
        """The value is a reading of the clock: self._time_fn() (possibly through a local) or the `now` handed in by update()."""
        x = fl.expand(value, st)
        if isinstance(x, ast.Call) and dotted(x.func) == "self._time_fn" and not x.args:
            return True
        return isinstance(x, ast.Name) and x.id == "now" and "now" in fi.params

    # phase start stamps: the statement list that enters a phase also stamps its timer with the current time
    def stamped(fn_name, sub_attr, sub_val, stamp_attr):
        fi = mgr.methods[fn_name]
        fl = ctx.flows.get(fi)
        hit = False
        for blk in ast.walk(fi.node):
            for fld in ("body", "orelse", "finalbody"):
                lst = getattr(blk, fld, None)
                if not (isinstance(lst, list) and lst and isinstance(lst[0], ast.stmt)):
                    continue
                enters = [x for x in lst if isinstance(x, ast.Assign) and dotted(x.targets[0]) == f"self.{sub_attr}" and id(x) in fl.before
                          and sem.same(fl.expand(x.value, fl.before[id(x)]), sub_val)]
                if not enters:
                    continue
                hit = True
                ok = any(isinstance(x, ast.Assign) and dotted(x.targets[0]) == f"self.{stamp_attr}" and id(x) in fl.before and
                         is_now(fi, fl, x.value, fl.before[id(x)]) for x in lst)
                ctx.ob("C18.timers", fi.short(), f"stamp:{sub_val}", ok,
                       f"entering {sub_val} stamps {stamp_attr} with the current time" if ok else
                       f"{sub_val} is entered without stamping {stamp_attr} with the current time: the phase's duration is measured from a stale instant",
                       f"{fi.module.rel}:{enters[0].lineno}")
        if not hit:
            ctx.ob("C18.timers", fi.short(), f"stamp:{sub_val}", False, f"{fn_name} no longer enters {sub_val}", fi.loc)

    stamped("initiate_join", "_join_substate", "_JoinSubstate.NOTIFY", "_join_started")
    stamped("_update_standalone", "_join_substate", "_JoinSubstate.WAITING", "_join_started")
    stamped("cancel_join", "_join_substate", "_JoinSubstate.CANCELLED", "_join_leave_started")
    stamped("confirm_join_failed", "_join_substate", "_JoinSubstate.FAILED", "_join_leave_started")
    stamped("_do_leave_to_standalone", "_leave_substate", "_LeaveSubstate.NOTIFY", "_leave_started")
    stamped("_complete_join", "_state", "VBSState.VRU_PASSIVE", "_last_leader_vam_time")
    tb = mgr.methods["trigger_breakup_cluster"]
    tfl = ctx.flows.get(tb)
    bs = [n for n in ast.walk(tb.node) if isinstance(n, ast.Assign) and dotted(n.targets[0]) == "self._cluster.breakup_started" and id(n) in tfl.before]
    ctx.ob("C18.timers", tb.short(), "stamp:breakup", bool(bs) and all(is_now(tb, tfl, n.value, tfl.before[id(n)]) for n in bs),
           "starting the break-up warning stamps breakup_started with the current time", tb.loc)
    up = mgr.methods["update"]
    ufl = ctx.flows.get(up)
    hcalls = [c for c in P.calls_in(up) if (dotted(c.func) or "") in ("self._update_passive", "self._update_standalone", "self._update_leader")]
    okc = len({dotted(c.func) for c in hcalls}) == 3
    for c in hcalls:
        x = ufl.expand(c.args[0], ufl.state_at(c)) if c.args else None
        okc = okc and isinstance(x, ast.Call) and dotted(x.func) == "self._time_fn"
    ctx.ob("C18.timers", up.short(), "clock", okc, "update() hands a reading of the clock to each of the three per-state handlers", up.loc)
    for hname, stname in (("_update_passive", "VRU_PASSIVE"), ("_update_standalone", "VRU_ACTIVE_STANDALONE"), ("_update_leader", "VRU_ACTIVE_CLUSTER_LEADER")):
        cs = [c for c in hcalls if dotted(c.func) == f"self.{hname}"]
        okd = bool(cs) and all(sem.holds(sem.facts(ufl, c), f"self._state is VBSState.{stname}") for c in cs)
        ctx.ob("C18.timers", up.short(), f"dispatch:{hname}", okd, f"{hname} runs exactly for state {stname}", up.loc)
        # ... and on EVERY call of update() made in that state: nothing but the state tests stands between the entry of
        # update() and the handler (a pacing / early-return condition starves every timer the handler drives)
        extra = sorted({a_ for c in cs for a_ in sem.facts(ufl, c) if "self._state" not in a_})
        ctx.ob("C18.timers", up.short(), f"dispatch-unconditional:{hname}", bool(cs) and not extra,
               f"every update() in state {stname} reaches {hname}" if cs and not extra else
               f"{hname} is reached only under {extra[:3]}: calls of update() that fail this test evaluate no clustering timer "
               "(join notification, leader-lost, leave / break-up periods never end)", up.loc)
    # dispatch: via the typestate machine - update() from a passive state can reach stand-alone
    up_tr = [(a, b) for name, a, b, kind, val in M.transitions if name == "update"]
    p2a = any(dict(a)["_state"] == PASSIVE and dict(b)["_state"] == ALONE for a, b in up_tr)
    ctx.ob("C18.recovery", up.short(), "passive->standalone-possible", p2a, "update() has a path from passive to stand-alone (leader lost)", up.loc)
    dl = mgr.methods["_do_leave_to_standalone"]
    dfl = ctx.flows.get(dl)
    st_stores = [n for n in dl.node.body if isinstance(n, ast.Assign) and dotted(n.targets[0]) == "self._state"]
    straight = not any(isinstance(n, (ast.If, ast.Return, ast.Try, ast.While, ast.For, ast.Raise)) for n in ast.walk(dl.node))
    ctx.ob("C18.recovery", dl.short(), "unconditional", straight and bool(st_stores) and sem.same(st_stores[-1].value, "VBSState.VRU_ACTIVE_STANDALONE"),
           "_do_leave_to_standalone always ends stand-alone (straight-line code, last state store)", dl.loc)

    # heartbeat provenance: only the leader's VAMs (or the join completion) refresh the leader-lost timer
    pr = mgr.methods["_process_received_vam"]
    prf = ctx.flows.get(pr)
    sender = None
    for n in ast.walk(pr.node):
        if isinstance(n, (ast.Assign, ast.AnnAssign)) and n.value is not None:
            t = n.targets[0] if isinstance(n, ast.Assign) else n.target
            if isinstance(t, ast.Name) and sem.cx(n.value).endswith("['stationId']"):
                sender = sem.cx(prf.expand(ast.Name(id=t.id, ctx=ast.Load()), prf.after.get(id(n), prf.before[id(n)]))) if id(n) in prf.before else t.id
                sender_name = t.id
    if sender is None:
        raise AnalysisError("C18: the sender's station id is no longer read from the VAM header in _process_received_vam")
    n_hb = 0
    for m in mgr.methods.values():
        fl = ctx.flows.get(m)
        for n in ast.walk(m.node):
            if isinstance(n, ast.Assign) and dotted(n.targets[0]) == "self._last_leader_vam_time" and not (isinstance(n.value, ast.Constant) and n.value.value is None):
                if m.name == "_complete_join":
                    continue
                n_hb += 1
                g = sem.facts(fl, n, expanded=False)
                pos = {x for x in g if not x.startswith("!")}
                want_l = set(sem.want(f"self._leader_station_id == {sender_name}")) | set(sem.want("self._state is VBSState.VRU_PASSIVE"))
                ok = pos == want_l
                ctx.ob("C18.recovery", m.short(), "heartbeat-only-from-leader", ok,
                       "the leader-lost timer is refreshed only by a VAM whose sender is the joined cluster's leader" if ok else
                       f"the leader-lost timer is refreshed under {sorted(pos)}: VAMs of other stations keep a passive station silent after its leader is gone",
                       f"{m.module.rel}:{n.lineno}")
    if n_hb == 0:
        ctx.ob("C18.recovery", pr.short(), "heartbeat-only-from-leader", False, "the leader's VAMs no longer refresh the leader-lost timer", pr.loc)
    # break-up from the leader
    calls = [n for n in ast.walk(pr.node) if isinstance(n, ast.Call) and dotted(n.func) == "self._do_leave_to_standalone"]
    okb, okl = False, False
    for c in calls:
        g = sem.facts(prf, c, expanded=False)
        if sem.holds(g, "self._state is VBSState.VRU_PASSIVE") and any("breakup" in x.lower() and x.startswith("truthy(") for x in g):
            negs = [x for x in g if x.startswith("!")]
            poss = [x for x in g if not x.startswith("!")]
            # every reason except reception-of-CPM leads to stand-alone: the only reason-dependent guard is `reason != CPM`
            okb = all("RECEPTION_OF_CPM_CONTAINING_CLUSTER" in x and x.startswith("!eq(") for x in negs if "reason" in x.lower() or "RECEPTION" in x) \
                and not any("reason" in x.lower() for x in poss) and not [x for x in negs if "RECEPTION" not in x and "reason" not in x.lower()]
            leader_atom = sem.want(f"self._leader_station_id == {sender_name}")[0]
            okl = any(x == leader_atom or (x.startswith("or(") and leader_atom in x) for x in poss)
    ctx.ob("C18.recovery", pr.short(), "breakup-leads-to-standalone", okb,
           "a break-up announced while passive leads to stand-alone unless the reason is reception-of-CPM" if okb else
           "no path from a received break-up (passive) to _do_leave_to_standalone that depends on nothing but `reason != reception-of-CPM`", pr.loc)
    ctx.ob("C18.recovery", pr.short(), "breakup-from-leader-accepted", okl, "the break-up of the own leader (sender == leader) is accepted", pr.loc)

    # cluster id / cardinality provenance
    gen = mgr.methods["_generate_unique_cluster_id"]
    gfl = ctx.flows.get(gen)
    rnd = [n for n in ast.walk(gen.node) if isinstance(n, ast.Call) and dotted(n.func) == "random.randint"]
    ok = bool(rnd) and all(isinstance(P.try_fold(gen.module, n.args[0]), int) and P.try_fold(gen.module, n.args[0]) >= 1 and
                           isinstance(P.try_fold(gen.module, n.args[1]), int) and P.try_fold(gen.module, n.args[1]) <= 255 for n in rnd)
    for k, s_, st in gfl.exits:
        if k == "return" and s_.value is not None and not (isinstance(s_.value, ast.Constant) and s_.value.value is None):
            x = gfl.expand(s_.value, st)
            ok = ok and isinstance(x, ast.Call) and dotted(x.func) == "random.randint"
    # a field copied into another one still holds what it is supposed to carry over: `self._leave_cluster_id =
    # self._joined_cluster_id` after `self._joined_cluster_id = None` in the same block announces leaving cluster None/0
    n_cp = 0
    for m in mgr.methods.values():
        flm = ctx.flows.get(m)
        for n_ in ast.walk(m.node):
            if not (isinstance(n_, ast.Assign) and len(n_.targets) == 1 and id(n_) in flm.before):
                continue
            src_ = dotted(n_.value) if isinstance(n_.value, ast.Attribute) else None
            dst_ = dotted(n_.targets[0])
            if not (src_ and dst_ and src_.startswith("self.") and dst_.startswith("self.") and src_.count(".") == 1):
                continue
            n_cp += 1
            ds = flm.reaching(src_, flm.before[id(n_)])
            cleared = bool(ds) and all(isinstance(d.value, ast.Constant) and d.value.value is None for d in ds)
            ctx.ob("C18.state", m.short(), f"copies-live-field:{dst_[5:]}<-{src_[5:]}", not cleared,
                   f"{dst_} takes over {src_} while it still holds its value" if not cleared else
                   f"{dst_} = {src_} is executed after {src_} was set to None in the same method (line "
                   f"{getattr(ds[0].stmt, 'lineno', '?')}): the copy is always None - the leave notification names no / the wrong cluster",
                   f"{m.module.rel}:{n_.lineno}")
    if n_cp < 1:
        raise AnalysisError("C18: no field-to-field copy left in the clustering manager (confirmed: _leave_cluster_id <- _joined_cluster_id)")
    ctx.ob("C18.state", gen.short(), "cluster-id-1..255", ok, "every non-None identifier returned is a draw from randint(lo >= 1, hi <= 255)", gen.loc)
    tc = mgr.methods["try_create_cluster"]
    tcf = ctx.flows.get(tc)
    cons = [n for n in ast.walk(tc.node) if isinstance(n, ast.Call) and dotted(n.func) == "_ClusterState"]
    okg = bool(cons)
    for n in cons:
        kw = {k.arg: k.value for k in n.keywords}
        v = kw.get("cluster_id", n.args[0] if n.args else None)
        st = tcf.state_at(n)
        x = tcf.expand(v, st) if v is not None else None
        from_gen = isinstance(x, ast.Call) and dotted(x.func) == "self._generate_unique_cluster_id"
        g = sem.facts(tcf, n)
        not_none = v is not None and (sem.holds(g, f"{unparse(v)} is not None") or (x is not None and sem.holds(g, f"{unparse(x)} is not None")))
        okg = okg and from_gen and not_none
    ctx.ob("C18.state", tc.short(), "cluster-id-from-generator", okg, "the own cluster takes its id from the generator, and only when that is not None", tc.loc)
    minsz = P.try_fold(consts, consts.consts.get("MIN_CLUSTER_SIZE"))
    from ..match import int_lower_bound

    def lower(fi, e):
        """A sound lower bound of an int expression, or None (constants, len(), max(), +, non-negative products)."""
        v = P.try_fold(fi.module, e)
        if isinstance(v, (int, float)) and not isinstance(v, bool):
            return v
        if isinstance(e, ast.Call) and dotted(e.func) == "len":
            return 0
        if isinstance(e, ast.Call) and dotted(e.func) == "max":
            bs = [lower(fi, x) for x in e.args]
            bs = [x for x in bs if x is not None]
            return max(bs) if bs else None
        if isinstance(e, ast.Call) and dotted(e.func) == "min":
            bs = [lower(fi, x) for x in e.args]
            return min(bs) if bs and all(x is not None for x in bs) else None
        if isinstance(e, ast.BinOp) and isinstance(e.op, ast.Add):
            l, r = lower(fi, e.left), lower(fi, e.right)
            return l + r if l is not None and r is not None else None
        if isinstance(e, ast.Call) and dotted(e.func) == "int" and e.args:
            return lower(fi, e.args[0])
        return None

    n_card = 0
    for m in mgr.methods.values():
        mfl = None
        for n in ast.walk(m.node):
            if isinstance(n, ast.Assign) and dotted(n.targets[0]) == "self._cluster.cardinality":
                n_card += 1
                lb = lower(m, n.value)
                ok = lb is not None and lb >= 1
                ctx.ob("C18.state", m.short(), f"cardinality>=1:{norm(unparse(n.value))[:40]}", ok,
                       f"cardinality := `{norm(unparse(n.value))[:70]}` has lower bound {lb}" + ("" if ok else " - the leader's cardinality can fall below 1"),
                       f"{m.module.rel}:{n.lineno}")
            if isinstance(n, ast.AugAssign) and dotted(n.target) == "self._cluster.cardinality":
                n_card += 1
                mfl = mfl or ctx.flows.get(m)
                d = P.try_fold(m.module, n.value)
                ok = False
                why = "augmented by a non-constant"
                if isinstance(d, int) and isinstance(n.op, ast.Add) and d >= 0:
                    ok, why = True, f"+= {d} keeps the lower bound"
                elif isinstance(d, int) and isinstance(n.op, ast.Sub):
                    stt = mfl.before[id(n)] if id(n) in mfl.before else mfl.state_at(n)
                    lb = int_lower_bound(P, m.module, stt.facts, "self._cluster.cardinality")
                    ok = lb is not None and lb - d >= 1
                    why = f"-= {d} under a guard that gives cardinality >= {lb}"
                ctx.ob("C18.state", m.short(), f"cardinality>=1:aug{n.lineno - m.node.lineno}", ok,
                       f"cardinality {why}" + ("" if ok else " - the leader's cardinality can fall below 1"), f"{m.module.rel}:{n.lineno}")
            if isinstance(n, ast.Call) and dotted(n.func) == "_ClusterState":
                for kw in n.keywords:
                    if kw.arg == "cardinality":
                        n_card += 1
                        lb = lower(m, kw.value)
                        ctx.ob("C18.state", m.short(), "cardinality>=1:init", lb is not None and lb >= 1,
                               f"new cluster cardinality := `{norm(unparse(kw.value))}` (lower bound {lb})", f"{m.module.rel}:{n.lineno}")
    dflt = [n for n in cstate.node.body if isinstance(n, ast.AnnAssign) and dotted(n.target) == "cardinality"]
    if dflt and dflt[0].value is not None:
        lb = lower(mgr.methods["__init__"], dflt[0].value)
        ctx.ob("C18.state", "_ClusterState", "cardinality>=1:default", lb is not None and lb >= 1, f"dataclass default cardinality has lower bound {lb}",
               f"{cstate.module.rel}:{dflt[0].lineno}")
    if n_card < 3:
        raise AnalysisError("C18: cardinality stores not found")

    # ------------------------------------------------------------------ wiring into the service
    tx = P.cls(TXM)
    cb = tx.methods["location_service_callback"]
    cfl = ctx.flows.get(cb)
    MGR_NOT_NONE = set(sem.want("self.clustering_manager is not None"))

    def mgr_call(fl, c, method) -> bool:
        """c is <clustering manager>.<method>(...), the receiver possibly a local bound to self.clustering_manager."""
        if not (isinstance(c, ast.Call) and isinstance(c.func, ast.Attribute) and c.func.attr == method):
            return False
        try:
            x = fl.expand(c.func.value, fl.state_at(c))
        except AnalysisError:
            return False
        return dotted(x) == "self.clustering_manager"

    def only_manager_guard(fl, node) -> bool:
        g = sem.facts(fl, node)
        g = {x for x in g if "clustering_manager" in x or True}
        return g == MGR_NOT_NONE or g == (MGR_NOT_NONE | set(sem.want("self.clustering_manager")))

    allg = [n for n in ast.walk(cb.node) if mgr_call(cfl, n, "should_transmit_vam")]
    gifs = [n for n in ast.walk(cb.node) if isinstance(n, ast.If) and any(x in allg for x in ast.walk(n.test))]
    # the gate: a test over should_transmit_vam() whose failing side leaves the function without sending
    sends = [n for n in ast.walk(cb.node) if isinstance(n, ast.Call) and dotted(n.func) == "self.send_next_vam"]
    if not sends:
        raise AnalysisError("C18: location_service_callback no longer sends VAMs")
    if not allg:
        ctx.ob("C18.wiring", cb.short(), "gate-form", False, "the transmission path no longer consults should_transmit_vam()", cb.loc)
    gate_ok = bool(allg)
    suppress = set(sem.want("not self.clustering_manager.should_transmit_vam()"))
    aliases = {n.targets[0].id for n in ast.walk(cb.node) if isinstance(n, ast.Assign) and isinstance(n.targets[0], ast.Name)
               and dotted(n.value) == "self.clustering_manager"}

    def unalias(a: str) -> str:
        for al in aliases:
            a = re.sub(rf"(?<![\w.]){al}(?![\w])", "self.clustering_manager", a)
        return a
    n_paths = 0
    for snd in sends:
        # every syntactic path to a transmission site passed `no manager` or `manager allowed transmission`
        for pc in sem.path_conditions(cb.node, snd):
            pc = {unalias(a) for a in pc}
            n_paths += 1
            fine = {"is(None,self.clustering_manager)", "truthy(self.clustering_manager.should_transmit_vam())", "!truthy(self.clustering_manager)"}
            passed = bool(pc & fine) or any(a.startswith("or(") and set(a[3:-1].split("|")) <= fine for a in pc)
            if not passed:
                gate_ok = False
    ctx.extra["gate_paths_examined"] = n_paths
    ctx.ob("C18.wiring", cb.short(), "gate-precedes-sends", gate_ok and n_paths > 0,
           f"all {n_paths} syntactic paths to the {len(sends)} transmission sites pass `no manager` or `should_transmit_vam() true`" if gate_ok and n_paths else
           "a transmission site can be reached on a path that never consulted the clustering manager's should_transmit_vam() "
           "(individual VAMs are not suppressed while passive / idle)", cb.loc)
    # suppression happens for no other clustering reason: every early exit that depends on the manager is exactly the gate
    extra_exits = []
    for k, s_, st in cfl.exits:
        if k != "return":
            continue
        g = sem.facts_of_state(st, True, False)
        dep = {x for x in g if "clustering_manager" in x and not x.startswith("or(")}
        if dep and not (dep <= (MGR_NOT_NONE | suppress | set(sem.want("self.clustering_manager.should_transmit_vam()")))):
            extra_exits.append((s_.lineno, sorted(dep)))
    ctx.ob("C18.wiring", cb.short(), "gate-form", not extra_exits and bool(gifs),
           "the only clustering-dependent early exit is `manager present and should_transmit_vam() false`" if not extra_exits else
           f"early exits depending on the clustering manager in another way: {extra_exits}", cb.loc)
    upd = [n for n in ast.walk(cb.node) if mgr_call(cfl, n, "update")]
    first_gate_line = min([n.lineno for n in allg] or [10 ** 9])
    ok = bool(upd) and any(u.lineno < first_gate_line and sem.facts(cfl, u, True, False) <= (MGR_NOT_NONE | set(sem.want("self.clustering_manager"))) and
                           bool(sem.facts(cfl, u, True, False) & (MGR_NOT_NONE | set(sem.want("self.clustering_manager")))) for u in upd)
    ctx.ob("C18.wiring", cb.short(), "update-every-cycle-before-gate", ok,
           "every generation cycle advances the clustering timers (update()) before the gate is consulted" if ok else
           "VBSClusteringManager.update() is not called on every generation cycle before the gate (whenever a manager exists): its timers never "
           "fire and a passive station whose leader is gone stays silent for good", f"{cb.module.rel}:{first_gate_line if allg else cb.node.lineno}")
    sn = tx.methods["send_next_vam"]
    sfl = ctx.flows.get(sn)
    encs = [c for c in P.calls_in(sn) if isinstance(c.func, ast.Attribute) and c.func.attr == "encode"]
    enc_line = min([c.lineno for c in encs] or [0])
    for key, getter, tag in (("vruClusterInformationContainer", "get_cluster_information_container", "info-container-attached"),
                             ("vruClusterOperationContainer", "get_cluster_operation_container", "operation-container-attached")):
        okk, why = False, "no store under that key"
        for n in ast.walk(sn.node):
            if isinstance(n, ast.Assign) and isinstance(n.targets[0], ast.Subscript) and P.try_fold(sn.module, n.targets[0].slice) == key and id(n) in sfl.before:
                st = sfl.before[id(n)]
                base = sem.cx(sfl.expand(n.targets[0].value, st))
                val = sfl.expand(n.value, st)
                from_getter = isinstance(val, ast.Call) and isinstance(val.func, ast.Attribute) and val.func.attr == getter and \
                    dotted(val.func.value) == "self.clustering_manager" and not val.args
                g = sem.facts(sfl, n, True, False)
                gl = {x for x in g}
                vtxt = sem.cx(val)
                allowed = MGR_NOT_NONE | set(sem.want("self.clustering_manager")) | {f"!is(None,{vtxt})", f"truthy({vtxt})", f"!is(None,{sem.cx(n.value)})", f"truthy({sem.cx(n.value)})"}
                okk = base == "vam.vam['vam']['vamParameters']" and from_getter and gl <= allowed and n.lineno < enc_line
                why = f"store base `{base}`, value `{vtxt[:60]}`, guards {sorted(gl)}"
        ctx.ob("C18.wiring", sn.short(), tag, okk,
               f"the manager's {getter}() result is attached under '{key}' of the dictionary that is encoded, before encoding, whenever it is not None" if okk else
               f"'{key}' is not attached from {getter}() into vam.vam['vam']['vamParameters'] before encoding under the plain not-None guards ({why})", sn.loc)
    ctx.ob("C18.wiring", sn.short(), "attached-before-encoding", bool(encs) and all(sem.cx(sfl.expand(c.args[0], sfl.state_at(c))) == "vam.vam" for c in encs if c.args),
           "the dictionary that received the containers is the one handed to the coder", sn.loc)
    rx = P.cls(RXM)
    rc = rx.methods["reception_callback"]
    rfl = ctx.flows.get(rc)
    fw = [c for c in ast.walk(rc.node) if mgr_call(rfl, c, "on_received_vam")]
    okf = bool(fw)
    for c in fw:
        arg = c.args[0] if c.args else None
        srcs = [d.value for d in rfl.reaching(arg.id, rfl.state_at(c))] if isinstance(arg, ast.Name) else [arg]
        dec = all(isinstance(v, ast.Call) and isinstance(v.func, ast.Attribute) and v.func.attr == "decode" and v.args and
                  sem.cx(v.args[0]) == f"{rc.params[1]}.data" for v in srcs) and bool(srcs)
        okf = okf and dec and sem.facts(rfl, c, True, False) <= (MGR_NOT_NONE | set(sem.want("self.clustering_manager"))) and bool(sem.facts(rfl, c, True, False))
    ctx.ob("C18.wiring", rc.short(), "received-vam-forwarded", okf,
           "every decoded VAM is handed to the clustering manager (whenever one exists)" if okf else
           "not every decoded VAM reaches VBSClusteringManager.on_received_vam (missing call, extra guard, or another object passed)", rc.loc)
    orv = mgr.methods["on_received_vam"]
    ofl = ctx.flows.get(orv)
    pc = [c for c in P.calls_in(orv) if dotted(c.func) == "self._process_received_vam"]
    okp = bool(pc) and all(any(l.endswith("._lock") for l in ofl.state_at(c).locks) and not sem.facts(ofl, c) and
                           c.args and sem.cx(c.args[0]) == orv.params[1] for c in pc)
    ctx.ob("C18.wiring", orv.short(), "processing-under-lock", okp, "received VAMs are processed unconditionally under the manager's lock", orv.loc)

    # ------------------------------------------------------------------ coder agreement (cluster containers only)
    Mm = MU.Messages(ctx)
    MU.check_stores(ctx, Mm, "VAM", "C18.coder", "C18.coder", only=lambda s: any(isinstance(k, str) and k.startswith("vruCluster") for k in s.path))
    MU.check_reads(ctx, Mm, "VAM", "C18.coder", [(f"{MGR}._process_received_vam", "vam")])
    # enumerators of the leave / break-up reasons and the profile bit names agree with the ASN.1 module
    sch = Mm.schemas["VAM"] if hasattr(Mm, "schemas") else None
    if sch is not None:
        for cname, tname in (("ClusterLeaveReason", "ClusterLeaveReason"), ("ClusterBreakupReason", "ClusterBreakupReason")):
            ci = P.cls(f"{VRU}.vru_clustering.{cname}")
            vals = [P.try_fold(ci.module, n.value) for n in ci.node.body if isinstance(n, ast.Assign)]
            node = sch.resolve(tname)
            names = set(sch.enum_names(node))
            bad = [v for v in vals if v not in names]
            ctx.ob("C18.coder", ci.qual[10:], "enumerators", not bad and bool(vals),
                   f"{len(vals)} enumerators all exist in ASN.1 {tname}" if not bad else f"{bad} are not enumerators of ASN.1 {tname} ({sorted(names)})",
                   f"{ci.module.rel}:{ci.node.lineno}")
        ep = mgr.methods["_encode_cluster_profiles"]
        bits = sch.named_bits(sch.resolve("VruClusterProfiles"))
        table = {}
        for n in ast.walk(ep.node):
            if isinstance(n, ast.Dict) and n.keys and all(isinstance(k, ast.Constant) for k in n.keys):
                table = {k.value: P.try_fold(ep.module, v) for k, v in zip(n.keys, n.values)}
        low = {k.lower(): v for k, v in bits.items()}
        for name, mask in table.items():
            # the manager names profiles like the VruProfileAndSubprofile alternatives (bicyclistAndLightVruVehicle -> bit `bicyclist`)
            cands = [v for k, v in low.items() if name.lower().startswith(k)]
            pos = cands[0] if len(cands) == 1 else None
            ok = pos is not None and mask == (0x80 >> pos)
            ctx.ob("C18.coder", ep.short(), f"profile-bit:{name}", ok,
                   f"profile `{name}` -> mask {mask:#x}; ASN.1 VruClusterProfiles bit {pos}" if pos is not None else f"`{name}` is not a named bit of VruClusterProfiles ({sorted(bits)})",
                   ep.loc)
    ctx.floor("C18.state", 12)
    ctx.floor("C18.timers", 18)
    ctx.floor("C18.recovery", 5)
    ctx.floor("C18.wiring", 8)
    ctx.floor("C18.coder", 12)
