"""C18 - VRU clustering state machine stays consistent and never silences a VRU for good.

Decides (a) by finite typestate abstract interpretation of VBSClusteringManager - every public method interpreted over
the abstraction {enum member, None, non-None} of its state fields, unknown tests going both ways, least fixpoint over
all call sequences - that on every reachable state: leader <=> own cluster present, passive <=> joined id, leader id and
an armed leader-lost timer present, no assert can fail, and should_transmit_vam() is False only while passive or idle;
(b) by guard / provenance rules: which timer constant ends which phase, that every phase start stamps its timer, that
only the leader's VAMs refresh the leader-lost timer, that leader loss and a leader's break-up lead to stand-alone,
cluster id in 1..255 and cardinality >= 1 at every store; (c) that the service drives the machine: update() on every
generation cycle before the gate, on_received_vam for every decoded VAM, containers attached under their VAM keys;
(d) the cluster containers against the VAM ASN.1 module, writer and reader side (shared engine with C11).
Does not decide durations as elapsed time nor multi-station closed-loop behaviour.
"""
from __future__ import annotations

import ast
import re

from ..prog import AnalysisError, FuncInfo, dotted, unparse
from ..match import pretty
from ..typestate import Machine, N, S, T, E
from . import msgutil as MU

PROP = "C18"
VRU = "facilities.vru_awareness_service"
MGR = f"{VRU}.vru_clustering.VBSClusteringManager"
TXM = f"{VRU}.vam_transmission_management.VAMTransmissionManagement"
RXM = f"{VRU}.vam_reception_management.VAMReceptionManagement"

SPEC_TIMES = {   # TS 103 300-3 V2.3.1 Table 14 (seconds)
    "TIME_CLUSTER_BREAKUP_WARNING": 3.0, "TIME_CLUSTER_JOIN_NOTIFICATION": 3.0, "TIME_CLUSTER_JOIN_SUCCESS": 0.5,
    "TIME_CLUSTER_CONTINUITY": 2.0, "TIME_CLUSTER_LEAVE_NOTIFICATION": 1.0,
}


def norm(s):
    return re.sub(r"\s+", "", s)


def guards_of(fl, node) -> list:
    """Normalised texts of the guard facts in force at `node` (negative ones prefixed with 'not ')."""
    st = fl.state_at(node)
    out = []
    for f in st.facts:
        if f.kind != "cond":
            continue
        out.append(("" if f.pol else "not ") + norm(f.key))
    return sorted(out)


def block_head(fi, node):
    """First statement of the innermost statement list that contains `node` (or the statement holding it)."""
    best = None
    for blk in ast.walk(fi.node):
        for fld in ("body", "orelse", "finalbody"):
            lst = getattr(blk, fld, None)
            if isinstance(lst, list) and lst and isinstance(lst[0], ast.stmt):
                for st in lst:
                    if st is node or any(x is node for x in ast.walk(st)):
                        if best is None or (best[1].lineno <= lst[0].lineno):
                            best = (st, lst[0])
    return best[1] if best else node


def run(ctx):
    P = ctx.prog
    ctx.explanation = (
        "Typestate abstract interpretation (finite domain, least fixpoint over all sequences of public calls - nothing is "
        "executed) for the consistency invariants and the transmission gate; guard-fact and provenance rules for timers, "
        "heartbeat and recovery; must-call rules for the wiring into the VAM transmission and reception managers; ASN.1 schema "
        "conformance for the cluster containers. The reachable abstract set covers every history of commands, received VAMs "
        "and clock values because every test on a forgotten quantity is taken both ways.")
    ctx.declined = ["durations as elapsed wall-clock time", "two- and three-station closed loops through the real coder (run property)"]
    mgr = P.cls(MGR)
    cstate = P.cls(f"{VRU}.vru_clustering._ClusterState")
    M = Machine(P, mgr, sub_objects={"_cluster": cstate})
    need = {"_state", "_cluster", "_joined_cluster_id", "_leader_station_id", "_last_leader_vam_time", "_join_substate", "_leave_substate",
            "_join_started", "_join_leave_started", "_leave_started", "_cluster.breakup_started"}
    missing = need - set(M.fields)
    if missing:
        raise AnalysisError(f"C18: state fields no longer found in VBSClusteringManager.__init__: {sorted(missing)}")
    reach = M.reachable()
    ctx.extra["abstract_states"] = len(reach)
    ctx.extra["abstract_transitions"] = len(M.transitions)
    ctx.extra["tracked_fields"] = sorted(M.fields)
    ctx.extra["events"] = [m.name for m in M.public_methods()]
    if len(reach) < 8:
        raise AnalysisError(f"C18: only {len(reach)} abstract states reachable - the interpretation lost the machine")

    LEADER, PASSIVE = E("VBSState.VRU_ACTIVE_CLUSTER_LEADER"), E("VBSState.VRU_PASSIVE")
    IDLE, ALONE = E("VBSState.VRU_IDLE"), E("VBSState.VRU_ACTIVE_STANDALONE")

    def show(st):
        return ", ".join(f"{k}={v[1].split('.')[-1] if isinstance(v, tuple) else v}" for k, v in sorted(st.items())
                         if k in need)

    def witness(pred):
        for k, st in reach.items():
            if pred(st):
                # find a shortest event path from an initial state (BFS over recorded transitions)
                return st
        return None

    def path_to(target_key):
        init = {M.freeze(s) for s in M.initial()}
        prev = {k: None for k in init}
        queue = list(init)
        adj = {}
        for name, a, b, kind, val in M.transitions:
            adj.setdefault(a, []).append((name, b, kind))
        while queue:
            k = queue.pop(0)
            if k == target_key:
                break
            for name, b, kind in adj.get(k, []):
                if b not in prev:
                    prev[b] = (k, name + ("!" if kind == "raise" else ""))
                    queue.append(b)
        seq, k = [], target_key
        while prev.get(k):
            k, name = prev[k]
            seq.append(name)
        return " -> ".join(reversed(seq)) or "<initial>"

    def inv(name, pred, text):
        bad = [st for st in reach.values() if not pred(st)]
        detail = text
        if bad:
            detail = f"{text}; violated in reachable state [{show(bad[0])}] after events: {path_to(M.freeze(bad[0]))}"
        ctx.ob("C18.state", mgr.qual[10:], name, not bad, detail, f"{mgr.module.rel}:{mgr.node.lineno}")

    inv("leader=>cluster", lambda s: s["_state"] != LEADER or isinstance(s["_cluster"], tuple), "leader state implies an own cluster object")
    inv("cluster=>leader", lambda s: not isinstance(s["_cluster"], tuple) or s["_state"] == LEADER, "an own cluster exists only in leader state")
    for f in ("_joined_cluster_id", "_leader_station_id", "_last_leader_vam_time"):
        inv(f"passive=>{f}", lambda s, f=f: s["_state"] != PASSIVE or s[f] == S, f"passive implies {f} is set"
            + (" (armed leader-lost timer: without it the station is silent for good)" if f == "_last_leader_vam_time" else ""))
        inv(f"{f}=>passive", lambda s, f=f: s[f] != S or s["_state"] == PASSIVE, f"{f} is set only while passive")
    inv("phase-timers-armed", lambda s: (s["_join_substate"] not in (E("_JoinSubstate.NOTIFY"), E("_JoinSubstate.WAITING")) or s["_join_started"] == S)
        and (s["_join_substate"] not in (E("_JoinSubstate.CANCELLED"), E("_JoinSubstate.FAILED")) or s["_join_leave_started"] == S)
        and (s["_leave_substate"] != E("_LeaveSubstate.NOTIFY") or s["_leave_started"] == S),
        "every join / leave notification phase has its start time set (otherwise it never ends)")
    af = {(fn.name, s.lineno) for fn, s, st in M.assert_failures}
    ctx.ob("C18.state", mgr.qual[10:], "no-assert-reachable", not af,
           "no assert of the manager can fail in a reachable state" if not af else f"assert can fail at {sorted(af)}", f"{mgr.module.rel}:{mgr.node.lineno}")
    # every public method leaves a consistent state also when it raises: covered, raise exits are members of `reach`
    n_raise = sum(1 for t in M.transitions if t[3] == "raise")
    ctx.extra["exception_exits_considered"] = n_raise

    # ------------------------------------------------------------------ gate
    gate = mgr.methods["should_transmit_vam"]
    n_gate = 0
    for k, st in reach.items():
        res = {val for post, kind, val in M.step(gate, st) if kind == "return"}
        posts = {M.freeze(post) for post, kind, val in M.step(gate, st)}
        n_gate += 1
        okf = ("B", False) not in res or st["_state"] in (IDLE, PASSIVE)
        okt = st["_state"] not in (ALONE, LEADER) or res == {("B", True)}
        if not (okf and okt):
            ctx.ob("C18.gate", gate.short(), f"suppress-only-passive-or-idle:{show(st)}", False,
                   f"should_transmit_vam() can return {sorted(str(r) for r in res)} in reachable state [{show(st)}] (events: {path_to(k)}): "
                   "individual VAMs are suppressed outside passive / idle", gate.loc)
        if posts != {k}:
            ctx.ob("C18.gate", gate.short(), f"gate-is-pure:{show(st)}", False, "should_transmit_vam() changes the clustering state", gate.loc)
    ctx.ob("C18.gate", gate.short(), "suppress-only-passive-or-idle", True,
           f"evaluated abstractly in all {n_gate} reachable states: False only while passive or idle, True whenever stand-alone or leader", gate.loc)
    # passive + leaving => transmits (leave notification must be sendable)
    lv = [st for st in reach.values() if st["_state"] == PASSIVE and st["_leave_substate"] == E("_LeaveSubstate.NOTIFY")]
    ctx.extra["passive_leaving_states"] = len(lv)

    # ------------------------------------------------------------------ recovery (time driven + break-up)
    consts = P.module(f"{VRU}.vam_constants")
    for cname, want in SPEC_TIMES.items():
        got = P.try_fold(consts, consts.consts.get(cname)) if cname in consts.consts else None
        ctx.ob("C18.timers", "vam_constants", cname, got == want, f"{cname} = {got} s (TS 103 300-3 Table 14: {want} s)", f"{consts.rel}:1")

    def timer_rule(fn_name, what, select, must, must_not=()):
        fi = mgr.methods[fn_name]
        fl = ctx.flows.get(fi)
        nodes = [n for n in ast.walk(fi.node) if select(n)]
        if not nodes:
            raise AnalysisError(f"C18: {what} not found in {fn_name}")
        for n in nodes:
            g = guards_of(fl, block_head(fi, n))      # facts at the head of the enclosing block: before any store kills them
            miss = [m for m in must if m not in g]
            extra = [x for x in g if any(b in x for b in must_not)]
            ok = not miss and not extra
            ctx.ob("C18.timers", fi.short(), what, ok,
                   f"{what}: guarded by {must}" if ok else f"{what}: guards in force {g}; missing {miss}; must not depend on {extra}",
                   f"{fi.module.rel}:{n.lineno}")

    def store_of(attr, valtxt):
        return lambda n: isinstance(n, ast.Assign) and dotted(n.targets[0]) == f"self.{attr}" and norm(unparse(n.value)) == valtxt

    def call_of(name):
        return lambda n: isinstance(n, ast.Call) and dotted(n.func) == f"self.{name}"

    timer_rule("_update_standalone", "join-notify->waiting", store_of("_join_substate", "_JoinSubstate.WAITING"),
               ["self._join_substateis_JoinSubstate.NOTIFY", "now-self._join_started>=vam_constants.TIME_CLUSTER_JOIN_NOTIFICATION"])
    timer_rule("_update_standalone", "join-waiting->failed", call_of("confirm_join_failed"),
               ["self._join_substateis_JoinSubstate.WAITING", "now-self._join_started>=vam_constants.TIME_CLUSTER_JOIN_SUCCESS"])
    timer_rule("_update_standalone", "join-leave-notify-ends", store_of("_join_substate", "_JoinSubstate.NONE"),
               ["now-self._join_leave_started>=vam_constants.TIME_CLUSTER_LEAVE_NOTIFICATION"])
    timer_rule("_update_standalone", "leave-notify-ends", store_of("_leave_substate", "_LeaveSubstate.NONE"),
               ["self._leave_substateis_LeaveSubstate.NOTIFY", "now-self._leave_started>=vam_constants.TIME_CLUSTER_LEAVE_NOTIFICATION"],
               must_not=("_join_substate",))
    timer_rule("_update_passive", "leave-notify-ends", store_of("_leave_substate", "_LeaveSubstate.NONE"),
               ["self._leave_substateis_LeaveSubstate.NOTIFY", "now-self._leave_started>=vam_constants.TIME_CLUSTER_LEAVE_NOTIFICATION"])
    timer_rule("_update_leader", "breakup-warning-ends", store_of("_state", "VBSState.VRU_ACTIVE_STANDALONE"),
               ["now-self._cluster.breakup_started>=vam_constants.TIME_CLUSTER_BREAKUP_WARNING"])
    timer_rule("_update_passive", "leader-lost", call_of("_do_leave_to_standalone"),
               ["now-self._last_leader_vam_time>=vam_constants.TIME_CLUSTER_CONTINUITY"], must_not=("_leave_substate", "_join_substate"))

    # phase start stamps
    def stamped(fn_name, sub_attr, sub_val, stamp_attr):
        fi = mgr.methods[fn_name]
        hit = False
        for blk in ast.walk(fi.node):
            body = getattr(blk, "body", None)
            if not isinstance(body, list):
                continue
            for lst in (body, getattr(blk, "orelse", []) or []):
                names = [(dotted(s.targets[0]), norm(unparse(s.value))) for s in lst if isinstance(s, ast.Assign)]
                if (f"self.{sub_attr}", sub_val) in names:
                    hit = True
                    ok = any(t == f"self.{stamp_attr}" and v in ("self._time_fn()", "now") for t, v in names)
                    ctx.ob("C18.timers", fi.short(), f"stamp:{sub_val or sub_attr}", ok,
                           f"entering {sub_val} stamps {stamp_attr} with the current time in the same block", fi.loc)
        if not hit:
            raise AnalysisError(f"C18: store {sub_attr} = {sub_val} not found in {fn_name}")

    stamped("initiate_join", "_join_substate", "_JoinSubstate.NOTIFY", "_join_started")
    stamped("_update_standalone", "_join_substate", "_JoinSubstate.WAITING", "_join_started")
    stamped("cancel_join", "_join_substate", "_JoinSubstate.CANCELLED", "_join_leave_started")
    stamped("confirm_join_failed", "_join_substate", "_JoinSubstate.FAILED", "_join_leave_started")
    stamped("_do_leave_to_standalone", "_leave_substate", "_LeaveSubstate.NOTIFY", "_leave_started")
    stamped("_complete_join", "_state", "VBSState.VRU_PASSIVE", "_last_leader_vam_time")
    tb = mgr.methods["trigger_breakup_cluster"]
    ctx.ob("C18.timers", tb.short(), "stamp:breakup", "self._cluster.breakup_started=self._time_fn()" in norm(unparse(tb.node)),
           "starting the break-up warning stamps breakup_started", tb.loc)
    up = mgr.methods["update"]
    src = norm(unparse(up.node))
    ctx.ob("C18.timers", up.short(), "clock", "now=self._time_fn()" in src and "self._update_passive(now," in src and "self._update_standalone(now," in src
           and "self._update_leader(now," in src, "update() reads the clock once and hands it to the per-state handlers", up.loc)
    # dispatch: via the typestate machine - update() from a passive state can reach stand-alone, from nothing else to passive
    up_tr = [(a, b) for name, a, b, kind, val in M.transitions if name == "update"]
    p2a = any(dict(a)["_state"] == PASSIVE and dict(b)["_state"] == ALONE for a, b in up_tr)
    ctx.ob("C18.recovery", up.short(), "passive->standalone-possible", p2a, "update() has a path from passive to stand-alone (leader lost)", up.loc)
    dl = mgr.methods["_do_leave_to_standalone"]
    src = norm(unparse(dl.node))
    ctx.ob("C18.recovery", dl.short(), "unconditional", not any(isinstance(n, (ast.If, ast.Return, ast.Try, ast.While, ast.For)) for n in ast.walk(dl.node))
           and "self._state=VBSState.VRU_ACTIVE_STANDALONE" in src, "_do_leave_to_standalone always ends stand-alone (straight-line code)", dl.loc)

    # heartbeat provenance: only the leader's VAMs (or the join completion) refresh the leader-lost timer
    pr = mgr.methods["_process_received_vam"]
    prf = ctx.flows.get(pr)
    n_hb = 0
    for m in mgr.methods.values():
        fl = ctx.flows.get(m)
        for n in ast.walk(m.node):
            if isinstance(n, ast.Assign) and dotted(n.targets[0]) == "self._last_leader_vam_time" and not (isinstance(n.value, ast.Constant) and n.value.value is None):
                if m.name == "_complete_join":
                    continue
                n_hb += 1
                g = guards_of(fl, n)
                ok = "self._leader_station_id==sender_id" in g and "self._stateisVBSState.VRU_PASSIVE" in g and len([x for x in g if not x.startswith("not ")]) == 2
                ctx.ob("C18.recovery", m.short(), "heartbeat-only-from-leader", ok,
                       "the leader-lost timer is refreshed only by a VAM whose sender is the joined cluster's leader" if ok else
                       f"the leader-lost timer is refreshed under {g}: VAMs of other stations keep a passive station silent after its leader is gone",
                       f"{m.module.rel}:{n.lineno}")
    if n_hb == 0:
        raise AnalysisError("C18: no heartbeat refresh found")
    # break-up from the leader
    calls = [n for n in ast.walk(pr.node) if isinstance(n, ast.Call) and dotted(n.func) == "self._do_leave_to_standalone"]
    okb = False
    for c in calls:
        g = guards_of(prf, c)
        if "breakup_info" in g and "self._stateisVBSState.VRU_PASSIVE" in g:
            negs = [x for x in g if x.startswith("not ")]
            poss = [x for x in g if not x.startswith("not ")]
            # every reason except reception-of-CPM leads to stand-alone: the only reason-dependent guard is `reason != CPM`
            okb = all("RECEPTION_OF_CPM_CONTAINING_CLUSTER" in x and "==" in x for x in negs) and not any("reason" in x for x in poss)
            detail = f"guards: {g}"
    ctx.ob("C18.recovery", pr.short(), "breakup-leads-to-standalone", okb,
           "a break-up announced while passive leads to stand-alone unless the reason is reception-of-CPM" if okb else
           "no unconditional path from a received break-up (passive) to _do_leave_to_standalone", pr.loc)
    st = prf.state_at(calls[0]) if calls else None
    # the leader alternative is accepted
    bsrc = norm(unparse(pr.node))
    ctx.ob("C18.recovery", pr.short(), "breakup-from-leader-accepted", "self._stateisVBSState.VRU_PASSIVEand(self._leader_station_id==sender_idor" in bsrc,
           "the break-up of the own leader (sender == leader) is accepted", pr.loc)

    # cluster id / cardinality provenance
    gen = mgr.methods["_generate_unique_cluster_id"]
    rnd = [n for n in ast.walk(gen.node) if isinstance(n, ast.Call) and dotted(n.func) == "random.randint"]
    ok = bool(rnd) and all(P.try_fold(gen.module, n.args[0]) is not None and P.try_fold(gen.module, n.args[0]) >= 1 and P.try_fold(gen.module, n.args[1]) <= 255 for n in rnd)
    rets = [n for n in ast.walk(gen.node) if isinstance(n, ast.Return) and n.value is not None and not (isinstance(n.value, ast.Constant) and n.value.value is None)]
    ok = ok and all(isinstance(r.value, ast.Name) and r.value.id == "candidate" for r in rets)
    ctx.ob("C18.state", gen.short(), "cluster-id-1..255", ok, "cluster identifiers are drawn from randint(1, 255)", gen.loc)
    tc = mgr.methods["try_create_cluster"]
    src = norm(unparse(tc.node))
    ctx.ob("C18.state", tc.short(), "cluster-id-from-generator", "cluster_id=self._generate_unique_cluster_id(now)" in src and "_ClusterState(cluster_id=cluster_id," in src
           and "ifcluster_idisNone:" in src, "the own cluster takes its id from the generator, None refused", tc.loc)
    minsz = P.try_fold(consts, consts.consts.get("MIN_CLUSTER_SIZE"))
    from ..match import int_lower_bound

    def lower(fi, e):
        """A sound lower bound of an int expression, or None (constants, len(), max(), +, non-negative products)."""
        v = P.try_fold(fi.module, e)
        if isinstance(v, (int, float)) and not isinstance(v, bool):
            return v
        if isinstance(e, ast.Call) and dotted(e.func) == "len":
            return 0
        if isinstance(e, ast.Call) and dotted(e.func) == "max":
            bs = [lower(fi, x) for x in e.args]
            bs = [x for x in bs if x is not None]
            return max(bs) if bs else None
        if isinstance(e, ast.Call) and dotted(e.func) == "min":
            bs = [lower(fi, x) for x in e.args]
            return min(bs) if bs and all(x is not None for x in bs) else None
        if isinstance(e, ast.BinOp) and isinstance(e.op, ast.Add):
            l, r = lower(fi, e.left), lower(fi, e.right)
            return l + r if l is not None and r is not None else None
        if isinstance(e, ast.Call) and dotted(e.func) == "int" and e.args:
            return lower(fi, e.args[0])
        return None

    n_card = 0
    for m in mgr.methods.values():
        mfl = None
        for n in ast.walk(m.node):
            if isinstance(n, ast.Assign) and dotted(n.targets[0]) == "self._cluster.cardinality":
                n_card += 1
                lb = lower(m, n.value)
                ok = lb is not None and lb >= 1
                ctx.ob("C18.state", m.short(), f"cardinality>=1:{norm(unparse(n.value))[:40]}", ok,
                       f"cardinality := `{norm(unparse(n.value))[:70]}` has lower bound {lb}" + ("" if ok else " - the leader's cardinality can fall below 1"),
                       f"{m.module.rel}:{n.lineno}")
            if isinstance(n, ast.AugAssign) and dotted(n.target) == "self._cluster.cardinality":
                n_card += 1
                mfl = mfl or ctx.flows.get(m)
                d = P.try_fold(m.module, n.value)
                ok = False
                why = "augmented by a non-constant"
                if isinstance(d, int) and isinstance(n.op, ast.Add) and d >= 0:
                    ok, why = True, f"+= {d} keeps the lower bound"
                elif isinstance(d, int) and isinstance(n.op, ast.Sub):
                    stt = mfl.before[id(n)] if id(n) in mfl.before else mfl.state_at(n)
                    lb = int_lower_bound(P, m.module, stt.facts, "self._cluster.cardinality")
                    ok = lb is not None and lb - d >= 1
                    why = f"-= {d} under a guard that gives cardinality >= {lb}"
                ctx.ob("C18.state", m.short(), f"cardinality>=1:aug{n.lineno - m.node.lineno}", ok,
                       f"cardinality {why}" + ("" if ok else " - the leader's cardinality can fall below 1"), f"{m.module.rel}:{n.lineno}")
            if isinstance(n, ast.Call) and dotted(n.func) == "_ClusterState":
                for kw in n.keywords:
                    if kw.arg == "cardinality":
                        n_card += 1
                        lb = lower(m, kw.value)
                        ctx.ob("C18.state", m.short(), "cardinality>=1:init", lb is not None and lb >= 1,
                               f"new cluster cardinality := `{norm(unparse(kw.value))}` (lower bound {lb})", f"{m.module.rel}:{n.lineno}")
    dflt = [n for n in cstate.node.body if isinstance(n, ast.AnnAssign) and dotted(n.target) == "cardinality"]
    if dflt and dflt[0].value is not None:
        lb = lower(mgr.methods["__init__"], dflt[0].value)
        ctx.ob("C18.state", "_ClusterState", "cardinality>=1:default", lb is not None and lb >= 1, f"dataclass default cardinality has lower bound {lb}",
               f"{cstate.module.rel}:{dflt[0].lineno}")
    if n_card < 3:
        raise AnalysisError("C18: cardinality stores not found")

    # ------------------------------------------------------------------ wiring into the service
    tx = P.cls(TXM)
    cb = tx.methods["location_service_callback"]
    cfl = ctx.flows.get(cb)
    allg = [n for n in ast.walk(cb.node) if isinstance(n, ast.Call) and isinstance(n.func, ast.Attribute) and n.func.attr == "should_transmit_vam"]
    gifs = [n for n in ast.walk(cb.node) if isinstance(n, ast.If) and any(isinstance(b, ast.Return) for b in n.body)
            and any(x in allg for x in ast.walk(n.test))]
    if len(gifs) != 1:
        raise AnalysisError("C18: transmission gate (`if ... not should_transmit_vam(): return`) not found in location_service_callback")
    gates = [x for x in ast.walk(gifs[0].test) if x in allg]
    upd = [n for n in ast.walk(cb.node) if isinstance(n, ast.Call) and isinstance(n.func, ast.Attribute) and n.func.attr == "update"
           and dotted(n.func.value) == "self.clustering_manager"]
    ok = bool(upd) and all(u.lineno < gates[0].lineno for u in upd)
    if ok:
        g = guards_of(cfl, upd[0])
        ok = g == ["not self.clustering_managerisNone"]
    ctx.ob("C18.wiring", cb.short(), "update-every-cycle-before-gate", ok,
           "every generation cycle advances the clustering timers (update()) before the gate is consulted" if ok else
           "VBSClusteringManager.update() is not called on every generation cycle before the gate: its timers never fire and a passive "
           "station whose leader is gone stays silent for good", f"{cb.module.rel}:{gates[0].lineno}")
    # the gate is the only clustering-dependent early exit and precedes every send
    sends = [n for n in ast.walk(cb.node) if isinstance(n, ast.Call) and dotted(n.func) == "self.send_next_vam"]
    ctx.ob("C18.wiring", cb.short(), "gate-precedes-sends", bool(sends) and all(s.lineno > gates[0].lineno for s in sends),
           f"the gate precedes all {len(sends)} transmission sites", cb.loc)
    gif = [n for n in ast.walk(cb.node) if isinstance(n, ast.If) and gates[0] in list(ast.walk(n.test))]
    ok = len(gif) == 1 and norm(unparse(gif[0].test)).replace("(", "").replace(")", "") == "self.clustering_managerisnotNoneandnotself.clustering_manager.should_transmit_vam" \
        and len(gif[0].body) == 1 and isinstance(gif[0].body[0], ast.Return) and not gif[0].orelse
    ctx.ob("C18.wiring", cb.short(), "gate-form", ok, "suppression happens exactly when a manager exists and should_transmit_vam() is False", cb.loc)
    sn = tx.methods["send_next_vam"]
    src = norm(unparse(sn.node))
    ctx.ob("C18.wiring", sn.short(), "info-container-attached",
           "cluster_info=self.clustering_manager.get_cluster_information_container()" in src and
           "ifcluster_infoisnotNone:params['vruClusterInformationContainer']=cluster_info" in src, "cluster information container attached under its VAM key", sn.loc)
    ctx.ob("C18.wiring", sn.short(), "operation-container-attached",
           "cluster_op=self.clustering_manager.get_cluster_operation_container()" in src and
           "ifcluster_opisnotNone:params['vruClusterOperationContainer']=cluster_op" in src, "cluster operation container attached under its VAM key", sn.loc)
    enc = src.find("self.vam_coder.encode(vam.vam)")
    ctx.ob("C18.wiring", sn.short(), "attached-before-encoding", 0 < src.find("params['vruClusterOperationContainer']") < enc and "params=vam.vam['vam']['vamParameters']" in src,
           "containers are attached to the dictionary that is encoded, before encoding", sn.loc)
    rx = P.cls(RXM)
    rc = rx.methods["reception_callback"]
    src = norm(unparse(rc.node))
    ctx.ob("C18.wiring", rc.short(), "received-vam-forwarded", "vam=self.vam_coder.decode(btp_indication.data)" in src and
           "ifself.clustering_managerisnotNone:self.clustering_manager.on_received_vam(vam)" in src, "every decoded VAM is handed to the clustering manager", rc.loc)
    orv = mgr.methods["on_received_vam"]
    ctx.ob("C18.wiring", orv.short(), "processing-under-lock", "withself._lock:try:self._process_received_vam(vam)" in norm(unparse(orv.node)),
           "received VAMs are processed under the manager's lock", orv.loc)

    # ------------------------------------------------------------------ coder agreement (cluster containers only)
    Mm = MU.Messages(ctx)
    MU.check_stores(ctx, Mm, "VAM", "C18.coder", "C18.coder", only=lambda s: any(isinstance(k, str) and k.startswith("vruCluster") for k in s.path))
    MU.check_reads(ctx, Mm, "VAM", "C18.coder", [(f"{MGR}._process_received_vam", "vam")])
    # enumerators of the leave / break-up reasons and the profile bit names agree with the ASN.1 module
    sch = Mm.schemas["VAM"] if hasattr(Mm, "schemas") else None
    if sch is not None:
        for cname, tname in (("ClusterLeaveReason", "ClusterLeaveReason"), ("ClusterBreakupReason", "ClusterBreakupReason")):
            ci = P.cls(f"{VRU}.vru_clustering.{cname}")
            vals = [P.try_fold(ci.module, n.value) for n in ci.node.body if isinstance(n, ast.Assign)]
            node = sch.resolve(tname)
            names = set(sch.enum_names(node))
            bad = [v for v in vals if v not in names]
            ctx.ob("C18.coder", ci.qual[10:], "enumerators", not bad and bool(vals),
                   f"{len(vals)} enumerators all exist in ASN.1 {tname}" if not bad else f"{bad} are not enumerators of ASN.1 {tname} ({sorted(names)})",
                   f"{ci.module.rel}:{ci.node.lineno}")
        ep = mgr.methods["_encode_cluster_profiles"]
        bits = sch.named_bits(sch.resolve("VruClusterProfiles"))
        table = {}
        for n in ast.walk(ep.node):
            if isinstance(n, ast.Dict) and n.keys and all(isinstance(k, ast.Constant) for k in n.keys):
                table = {k.value: P.try_fold(ep.module, v) for k, v in zip(n.keys, n.values)}
        low = {k.lower(): v for k, v in bits.items()}
        for name, mask in table.items():
            # the manager names profiles like the VruProfileAndSubprofile alternatives (bicyclistAndLightVruVehicle -> bit `bicyclist`)
            cands = [v for k, v in low.items() if name.lower().startswith(k)]
            pos = cands[0] if len(cands) == 1 else None
            ok = pos is not None and mask == (0x80 >> pos)
            ctx.ob("C18.coder", ep.short(), f"profile-bit:{name}", ok,
                   f"profile `{name}` -> mask {mask:#x}; ASN.1 VruClusterProfiles bit {pos}" if pos is not None else f"`{name}` is not a named bit of VruClusterProfiles ({sorted(bits)})",
                   ep.loc)
    ctx.floor("C18.state", 12)
    ctx.floor("C18.timers", 18)
    ctx.floor("C18.recovery", 5)
    ctx.floor("C18.wiring", 8)
    ctx.floor("C18.coder", 12)
