"""Shared enumeration of facility-message writer / reader sites for the schema rules (C11, C17, C18)."""
from __future__ import annotations

import ast
import re
from dataclasses import dataclass
from typing import Optional

from ..prog import AnalysisError, ClassInfo, FuncInfo, dotted, unparse
from ..asn1schema import Schema
from ..shape import ShapeChecker, norm
from ..match import pretty

FAC = "facilities"
MESSAGES = {
    # kind: (message class, attribute, template method, asn1 module, constant, root type)
    "CAM": (f"{FAC}.ca_basic_service.cam_transmission_management.CooperativeAwarenessMessage", "cam", "generate_white_cam_static",
            f"{FAC}.ca_basic_service.cam_asn1", "CAM_ASN1_DESCRIPTIONS", "CAM"),
    "VAM": (f"{FAC}.vru_awareness_service.vam_transmission_management.VAMMessage", "vam", "generate_white_vam_static",
            f"{FAC}.vru_awareness_service.vam_asn1", "VAM_ASN1_DESCRIPTIONS", "VAM"),
    "DENM": (f"{FAC}.decentralized_environmental_notification_service.denm_transmission_management.DecentralizedEnvironmentalNotificationMessage",
             "denm", "generate_white_denm", f"{FAC}.decentralized_environmental_notification_service.asn1.denm_asn1",
             "DENM_ASN1_DESCRIPTIONS", "DENM"),
}

# input box of the C11 quantifier (position/time/velocity report of a GNSS daemon)
INPUTS = {
    "tpv['lat']": (-90.0, 90.0), "tpv['lon']": (-180.0, 180.0), "tpv['altHAE']": (-1000.0, 10000.0),
    "tpv['speed']": (0.0, 200.0), "tpv['track']": (0.0, 360.0),
    "tpv['epx']": (0.0, 500.0), "tpv['epy']": (0.0, 500.0), "tpv['epv']": (0.0, 500.0), "tpv['epd']": (0.0, 500.0),
    "current_tpv.get('lat')": (-90.0, 90.0), "current_tpv.get('lon')": (-180.0, 180.0),
    "self._cluster.radius": (0.0, 1000.0),
}


@dataclass
class Store:
    kind: str
    fi: FuncInfo
    stmt: ast.Assign
    path: list
    value: ast.AST


class Messages:
    def __init__(self, ctx):
        self.ctx = ctx
        self.P = ctx.prog
        self.schemas: dict = {}
        self.roots: dict = {}
        self.templates: dict = {}
        self.cls: dict = {}

    def load(self, kind: str):
        if kind in self.schemas:
            return
        cq, attr, tmpl, mod, const, root = MESSAGES[kind]
        P = self.P
        ci = P.cls(cq)
        sch = Schema(P, mod, const)
        rt = sch.resolve(root)
        if rt.get("type") != "SEQUENCE":
            raise AnalysisError(f"{kind}: root type {root} did not resolve to a SEQUENCE")
        tm = ci.methods.get(tmpl)
        if tm is None:
            raise AnalysisError(f"{kind}: template method {tmpl} vanished")
        lit = None
        for n in ast.walk(tm.node):
            if isinstance(n, ast.Return) and isinstance(n.value, ast.Dict):
                lit = n.value
            if isinstance(n, ast.Assign) and isinstance(n.value, ast.Dict) and lit is None:
                lit = n.value
        if lit is None:
            raise AnalysisError(f"{kind}: template literal not found in {tmpl}")
        self.schemas[kind], self.roots[kind], self.templates[kind], self.cls[kind] = sch, rt, (tm, lit), ci

    def checker(self, kind: str, rule_schema: str, rule_range: str) -> ShapeChecker:
        self.load(kind)
        return ShapeChecker(self.ctx, self.schemas[kind], rule_schema, rule_range, INPUTS)

    # ------------------------------------------------------------------ stores into a message
    def _root_path(self, kind: str, fi: FuncInfo, fl, st, target: ast.AST) -> Optional[list]:
        """Constant subscript path below <message obj>.<attr> for a Subscript expression, else None."""
        attr = MESSAGES[kind][1]
        ci = self.cls[kind]
        x = fl.expand(target, st) if st is not None else target
        path = []
        cur = x
        while True:
            if isinstance(cur, ast.Subscript):
                k = self.P.try_fold(fi.module, cur.slice, default="<nc>")
                path.append(k if k != "<nc>" else "?")
                cur = cur.value
            elif isinstance(cur, ast.Call) and isinstance(cur.func, ast.Attribute) and cur.func.attr == "get" and cur.args:
                k = self.P.try_fold(fi.module, cur.args[0], default="<nc>")
                path.append(k if k != "<nc>" else "?")
                cur = cur.func.value
            else:
                break
        path.reverse()
        if isinstance(cur, ast.Attribute) and cur.attr == attr:
            base_t = {t for t in self.P.expr_types(fi, cur.value) if isinstance(t, str)}
            d = dotted(cur.value) or ""
            if ci.qual in base_t or (d == "self" and fi.cls is ci):
                return path
            # versioned local names lose their type: accept constructor expansions of the message class
            if isinstance(cur.value, ast.Call) and ci.name in unparse(cur.value.func):
                return path
            nm = pretty(d)
            if nm and nm != d:
                try:
                    base_t = {t for t in self.P.expr_types(fi, ast.parse(nm, mode="eval").body) if isinstance(t, str)}
                    if ci.qual in base_t:
                        return path
                except SyntaxError:
                    pass
        return None

    def stores(self, kind: str) -> list:
        self.load(kind)
        P = self.P
        attr = MESSAGES[kind][1]
        out = []
        for fi in P.iter_funcs():
            src = fi.module.src
            if f".{attr}[" not in src and f"{attr}[" not in src and "params[" not in src:
                continue
            fl = None
            for n in ast.walk(fi.node):
                if isinstance(n, ast.Assign) and len(n.targets) == 1 and isinstance(n.targets[0], ast.Subscript):
                    if fl is None:
                        fl = self.ctx.flows.get(fi)
                    if id(n) not in fl.before:
                        continue
                    st = fl.before[id(n)]
                    p = self._root_path(kind, fi, fl, st, n.targets[0])
                    if p is not None:
                        out.append(Store(kind, fi, n, p, n.value))
        return out

    def local_dict_stores(self, fi: FuncInfo) -> dict:
        """local name -> [(key, value, stmt)] for `name["k"] = v` on locals defined by a dict literal in fi."""
        lits = {}
        for n in ast.walk(fi.node):
            if isinstance(n, (ast.Assign, ast.AnnAssign)) and n.value is not None and isinstance(n.value, ast.Dict):
                t = n.targets[0] if isinstance(n, ast.Assign) else n.target
                if isinstance(t, ast.Name):
                    lits[t.id] = n.value
        out = {}
        for n in ast.walk(fi.node):
            if isinstance(n, ast.Assign) and isinstance(n.targets[0], ast.Subscript) and isinstance(n.targets[0].value, ast.Name) \
                    and n.targets[0].value.id in lits and isinstance(n.targets[0].slice, ast.Constant):
                out.setdefault(n.targets[0].value.id, []).append((n.targets[0].slice.value, n.value, n))
        return {k: (lits[k], v) for k, v in out.items()}


def check_template(ctx, M: Messages, kind: str, rule_schema: str, rule_range: str):
    M.load(kind)
    tm, lit = M.templates[kind]
    ck = M.checker(kind, rule_schema, rule_range)
    fl = ctx.flows.get(tm)
    ck.check(lit, M.roots[kind], tm, fl, None, kind, {}, True)
    return ck


def check_stores(ctx, M: Messages, kind: str, rule_schema: str, rule_range: str, only=None) -> int:
    M.load(kind)
    ck = M.checker(kind, rule_schema, rule_range)
    tm, lit = M.templates[kind]
    n = 0
    for s in M.stores(kind):
        if only is not None and not only(s):
            continue
        n += 1
        fl = ctx.flows.get(s.fi)
        st = fl.before[id(s.stmt)]
        loc = f"{s.fi.module.rel}:{s.stmt.lineno}"
        pstr = kind + "".join(f".{k}" if isinstance(k, str) else f"[{k}]" for k in s.path)
        if "?" in s.path:
            ctx.note(f"{loc}: store with a non-constant key into {pstr} not analysed")
            continue
        t, why = ck.descend(M.roots[kind], s.path, lit)
        if t is None:
            ctx.ob(rule_schema, s.fi.short(), f"{pstr}:path", False, f"store into `{pstr}`: {why}", loc)
            continue
        ctx.ob(rule_schema, s.fi.short(), f"{pstr}:path", True, f"`{pstr}` is a {t.get('_name', t.get('type'))}", loc)
        val = fl.expand(s.value, st)
        ck.check(val, t, s.fi, fl, st, pstr, {}, True)
        # builder functions that extend a local dict after creating it
        _check_local_extensions(ctx, M, ck, s, t, pstr)
    return n


def _check_local_extensions(ctx, M, ck, s, t, pstr):
    """value = <call to builder> where the builder returns {..: local} and later writes local["k"] = v."""
    P = ctx.prog
    v = s.value
    calls = [v] if isinstance(v, ast.Call) else []
    fl = ctx.flows.get(s.fi)
    st = fl.before[id(s.stmt)]
    x = fl.expand(v, st)
    if isinstance(x, ast.Call):
        calls = [x]
    for c in calls:
        tg = [tt for tt in P.call_targets(s.fi, c, count=False, cha=False) if isinstance(tt, FuncInfo)]
        for callee in tg:
            ext = M.local_dict_stores(callee)
            if not ext:
                continue
            cfl = ctx.flows.get(callee)
            # where does the local sit inside the returned value?
            for k_, s_, cst in cfl.exits:
                if k_ != "return" or not isinstance(s_.value, ast.Dict):
                    continue
                for kk, vv in zip(s_.value.keys, s_.value.values):
                    if isinstance(vv, ast.Name) and vv.id in ext and isinstance(kk, ast.Constant):
                        sub, why = ck.descend(t, [kk.value], None)
                        if sub is None:
                            continue
                        for key, val, stmt in ext[vv.id][1]:
                            mt, why2 = ck.descend(sub, [key], None)
                            loc = f"{callee.module.rel}:{stmt.lineno}"
                            if mt is None:
                                ctx.ob(ck.rs, callee.short(), f"{pstr}.{kk.value}.{key}:path", False, why2, loc)
                                continue
                            ck.check(cfl.expand(val, cfl.before[id(stmt)]), mt, callee, cfl, cfl.before[id(stmt)],
                                     f"{pstr}.{kk.value}.{key}", {}, True)


def check_reads(ctx, M: Messages, kind: str, rule: str, readers: list) -> int:
    """readers: [(function suffix, parameter / local holding the decoded message)]"""
    M.load(kind)
    P = ctx.prog
    ck = M.checker(kind, rule, rule)
    n = 0
    for fsuffix, var in readers:
        fi = P.func(fsuffix)
        fl = ctx.flows.get(fi)
        seen = set()
        for node in ast.walk(fi.node):
            if not isinstance(node, (ast.Subscript, ast.Call)):
                continue
            if isinstance(node, ast.Call) and not (isinstance(node.func, ast.Attribute) and node.func.attr == "get" and node.args):
                continue
            if isinstance(node, ast.Subscript) and not isinstance(node.ctx, ast.Load):
                continue
            # only maximal chains
            par = fl.parent.get(id(node))
            if isinstance(par, ast.Subscript) and par.value is node:
                continue
            if isinstance(par, ast.Attribute) and par.attr == "get" and par.value is node:
                continue
            try:
                st = fl.state_at(node)
            except AnalysisError:
                continue
            x = fl.expand(node, st)
            path, cur = [], x
            while True:
                if isinstance(cur, ast.Subscript):
                    k = P.try_fold(fi.module, cur.slice, default="<nc>")
                    path.append(k if k != "<nc>" else "?")
                    cur = cur.value
                elif isinstance(cur, ast.Call) and isinstance(cur.func, ast.Attribute) and cur.func.attr == "get" and cur.args:
                    k = P.try_fold(fi.module, cur.args[0], default="<nc>")
                    path.append(k if k != "<nc>" else "?")
                    cur = cur.func.value
                else:
                    break
            path.reverse()
            if not (isinstance(cur, ast.Name) and pretty(cur.id) == var) or not path or "?" in path:
                continue
            key = tuple(path)
            if key in seen:
                continue
            seen.add(key)
            if path and path[0] in ("utc_timestamp",):
                continue
            n += 1
            pstr = kind + "".join(f".{k}" if isinstance(k, str) else f"[{k}]" for k in path)
            t, why = ck.descend(M.roots[kind], path, None)
            ok = t is not None
            if not ok and "alternative in force is unknown" in (why or ""):
                ok = True     # (name, value) indexing of a decoded CHOICE is the right shape
            ctx.ob(rule, fi.short(), f"read:{pstr}", ok,
                   f"read of `{pstr}` from a decoded {kind}" + ("" if ok else f": {why}"), f"{fi.module.rel}:{node.lineno}")
    return n


# ---------------------------------------------------------------------------------------------------------------------
# dictionaries that reach a message through a request object (confirmed flows; each hop is re-verified on every run)
# ---------------------------------------------------------------------------------------------------------------------
APP = "applications.road_hazard_signalling_service"
ALIASES = [
    # the EVA application keeps the DENM event position as a dict attribute and hands it on through DENRequest
    dict(kind="DENM", path=["denm", "management", "eventPosition"], owner=f"{APP}.emergency_vehicle_approaching_service.EmergencyVehicleApproachingService",
         attr="event_position",
         hops=[(f"{APP}.service_access_point.DENRequest.with_emergency_vehicle_approaching", "event_position=service.event_position"),
               (f"{FAC}.decentralized_environmental_notification_service.denm_transmission_management.DecentralizedEnvironmentalNotificationMessage.fullfill_with_denrequest",
                "self.denm['denm']['management']['eventPosition']=request.event_position")]),
]
RETURN_ALIASES = [
    # collision-risk warnings take the event position from ReferencePosition.to_dict()
    dict(kind="DENM", path=["denm", "management", "eventPosition"], func=f"{FAC}.local_dynamic_map.ldm_classes.ReferencePosition.to_dict",
         hops=[(f"{APP}.service_access_point.DENRequest.with_collision_risk_warning", "event_position=event_position.to_dict()"),
               (f"{FAC}.decentralized_environmental_notification_service.denm_transmission_management.DecentralizedEnvironmentalNotificationMessage.fullfill_with_collision_risk_warning",
                "self.denm['denm']['management']['eventPosition']=request.event_position")]),
]


def _verify_hops(ctx, hops):
    for fq, text in hops:
        fi = ctx.prog.func(fq)
        if text not in norm(unparse(fi.node)):
            raise AnalysisError(f"message flow changed: `{text}` no longer found in {fi.short()} (alias table in msgutil needs re-confirmation)")


def check_aliases(ctx, M: Messages, kind: str, rule_schema: str, rule_range: str) -> int:
    """Dict attributes / return values that become part of a message by reference: literal and later subscript stores."""
    M.load(kind)
    P = ctx.prog
    ck = M.checker(kind, rule_schema, rule_range)
    n = 0
    for al in ALIASES:
        if al["kind"] != kind:
            continue
        _verify_hops(ctx, al["hops"])
        ci = P.cls(al["owner"])
        t, _ = ck.descend(M.roots[kind], al["path"], None)
        if t is None:
            raise AnalysisError(f"alias path {al['path']} does not exist in {kind}")
        pbase = kind + "".join(f".{k}" for k in al["path"])
        for fi in ci.methods.values():
            fl = ctx.flows.get(fi)
            for s in ast.walk(fi.node):
                if not isinstance(s, ast.Assign) or len(s.targets) != 1 or id(s) not in fl.before:
                    continue
                tgt = s.targets[0]
                st = fl.before[id(s)]
                if dotted(tgt) == f"self.{al['attr']}":
                    n += 1
                    ck.check(s.value, t, fi, fl, st, pbase, {}, True)
                    continue
                # self.<attr>[k1][k2] = v
                path, cur = [], tgt
                while isinstance(cur, ast.Subscript):
                    k = P.try_fold(fi.module, cur.slice, default="<nc>")
                    path.append(k if k != "<nc>" else "?")
                    cur = cur.value
                path.reverse()
                if not path or dotted(cur) != f"self.{al['attr']}":
                    continue
                n += 1
                loc = f"{fi.module.rel}:{s.lineno}"
                pstr = pbase + "".join(f".{k}" for k in path)
                if "?" in path:
                    ctx.note(f"{loc}: store with a non-constant key into {pstr} not analysed")
                    continue
                mt, why = ck.descend(t, path, None)
                if mt is None:
                    ctx.ob(rule_schema, fi.short(), f"{pstr}:path", False, f"store into `{pstr}`: {why}", loc)
                    continue
                ctx.ob(rule_schema, fi.short(), f"{pstr}:path", True, f"`{pstr}` is a {mt.get('_name', mt.get('type'))}", loc)
                ck.check(fl.expand(s.value, st), mt, fi, fl, st, pstr, {}, True)
    for al in RETURN_ALIASES:
        if al["kind"] != kind:
            continue
        _verify_hops(ctx, al["hops"])
        fi = P.func(al["func"])
        fl = ctx.flows.get(fi)
        t, _ = ck.descend(M.roots[kind], al["path"], None)
        pbase = kind + "".join(f".{k}" for k in al["path"])
        for k_, s_, st_ in fl.exits:
            if k_ == "return" and s_.value is not None:
                n += 1
                ck.check(s_.value, t, fi, fl, st_, pbase, {}, True)
    return n
