"""Shared enumeration of facility-message writer / reader sites for the schema rules (C11, C17, C18)."""
from __future__ import annotations

import ast
import re
from dataclasses import dataclass
from typing import Optional

from ..prog import AnalysisError, ClassInfo, FuncInfo, dotted, unparse
from ..asn1schema import Schema
from ..shape import ShapeChecker, norm, INF
from ..match import pretty

FAC = "facilities"
MESSAGES = {
    # kind: (message class, attribute, template method, asn1 module, constant, root type)
    "CAM": (f"{FAC}.ca_basic_service.cam_transmission_management.CooperativeAwarenessMessage", "cam", "generate_white_cam_static",
            f"{FAC}.ca_basic_service.cam_asn1", "CAM_ASN1_DESCRIPTIONS", "CAM"),
    "VAM": (f"{FAC}.vru_awareness_service.vam_transmission_management.VAMMessage", "vam", "generate_white_vam_static",
            f"{FAC}.vru_awareness_service.vam_asn1", "VAM_ASN1_DESCRIPTIONS", "VAM"),
    "DENM": (f"{FAC}.decentralized_environmental_notification_service.denm_transmission_management.DecentralizedEnvironmentalNotificationMessage",
             "denm", "generate_white_denm", f"{FAC}.decentralized_environmental_notification_service.asn1.denm_asn1",
             "DENM_ASN1_DESCRIPTIONS", "DENM"),
}

# input box of the C11 quantifier (position/time/velocity report of a GNSS daemon)
INPUTS = {
    "tpv['lat']": (-90.0, 90.0), "tpv['lon']": (-180.0, 180.0), "tpv['altHAE']": (-1000.0, 10000.0),
    "tpv['speed']": (0.0, 200.0), "tpv['track']": (0.0, 360.0),
    "tpv['epx']": (0.0, 500.0), "tpv['epy']": (0.0, 500.0), "tpv['epv']": (0.0, 500.0), "tpv['epd']": (0.0, 500.0),
    "current_tpv.get('lat')": (-90.0, 90.0), "current_tpv.get('lon')": (-180.0, 180.0),
    "self._cluster.radius": (0.0, 1000.0),
}
# report.get('k') reads the same entry as report['k'] (and vice versa)
for _k, _v in list(INPUTS.items()):
    _m = re.fullmatch(r"(\w+)\['(\w+)'\]", _k)
    if _m:
        INPUTS.setdefault(f"{_m.group(1)}.get('{_m.group(2)}')", _v)
    _m = re.fullmatch(r"(\w+)\.get\('(\w+)'\)", _k)
    if _m:
        INPUTS.setdefault(f"{_m.group(1)}['{_m.group(2)}']", _v)


SCALAR_TAGS = {"builtin:bytes", "builtin:bytearray", "builtin:int", "builtin:str", "builtin:float", "builtin:bool"}
GROWERS = {"append": 0, "insert": 1, "appendleft": 0}     # list method -> index of the element argument


class Checker(ShapeChecker):
    """ShapeChecker plus five resolutions the engine class leaves opaque:

    * ENUMERATED positions fed from a constant container of names (``NAMES[i]``, ``TABLE[k]``, ``TABLE.get(k, d)`` on a
      module-level / class-level list, tuple or dict of strings): every name that can be selected must be an enumerator;
    * BIT STRING positions fed by an expression whose declared type is a scalar (bytes, int, ...): not a (bytes, bits) pair;
    * an INTEGER computed from the quantifier's inputs for which no bound at all can be derived fails (instead of being opaque);
    * both branches of a conditional expression are checked under the outcome of its test (guard refinement);
    * SEQUENCE OF positions fed by a local list that is grown element by element (``lst.append(v)``, ``insert``,
      ``extend``, ``+=``, ``lst[i] = v``) - in a callee that returns the list, or in the storing function itself: every
      element put into the list is checked against the element type under the guards in force where it is put in."""

    # ------------------------------------------------------------------ names selected from constant containers
    def _const_container(self, fi: FuncInfo, node: ast.AST):
        """(module, value node) of a module-level / class-level constant named by `node`, else None."""
        if isinstance(node, ast.Name):
            if node.id in fi.params or "@" in node.id:
                return None
            for n in ast.walk(fi.node):
                if isinstance(n, ast.Name) and n.id == node.id and isinstance(n.ctx, (ast.Store, ast.Del)):
                    return None       # a local of that name shadows the constant
        r = self.P.resolve_expr_entity(fi.module, node)
        if isinstance(r, tuple) and r[0] == "const":
            return r[1], r[2]
        if isinstance(r, tuple) and r[0] == "classattr":
            return r[1].module, r[1].fields[r[2]][1]
        return None

    def _selected_names(self, e: ast.AST, fi: FuncInfo) -> Optional[list]:
        """Strings `e` can evaluate to when it selects from a constant container of strings, else None."""
        P = self.P
        recv = key = None
        defaults = []
        if isinstance(e, ast.Subscript):
            recv, key = e.value, e.slice
        elif isinstance(e, ast.Call) and isinstance(e.func, ast.Attribute) and e.func.attr == "get" and 1 <= len(e.args) <= 2 \
                and not e.keywords:
            recv, key = e.func.value, e.args[0]
            if len(e.args) == 2:
                d = e.args[1]
                if isinstance(d, ast.Constant) and isinstance(d.value, str):
                    defaults = [d.value]
                elif not (isinstance(d, ast.Constant) and d.value is None):
                    return None
        if recv is None or isinstance(key, ast.Slice):
            return None
        cc = self._const_container(fi, recv)
        if cc is None:
            return None
        mod, val = cc
        k = P.try_fold(fi.module, key, default="<nc>")
        if isinstance(val, (ast.List, ast.Tuple)) and isinstance(e, ast.Subscript):
            items = [P.try_fold(mod, x, default="<nc>") for x in val.elts]
            if not items or not all(isinstance(x, str) for x in items):
                return None
            if isinstance(k, int) and not isinstance(k, bool) and -len(items) <= k < len(items):
                return [items[k]]
            return items
        if isinstance(val, ast.Dict):
            if any(kk is None for kk in val.keys):
                return None
            keys = [P.try_fold(mod, kk, default="<nc>") for kk in val.keys]
            items = [P.try_fold(mod, x, default="<nc>") for x in val.values]
            if not items or not all(isinstance(x, str) for x in items):
                return None
            if k != "<nc>" and k in keys and "<nc>" not in keys:
                return [items[keys.index(k)]]
            return items + defaults
        return None

    # ------------------------------------------------------------------ conformance
    def check(self, e, t, fi, fl, st, path, env=None, complete=False, depth=0):
        kind = t.get("type")
        if isinstance(e, ast.IfExp) and st is not None and fl is not None and depth <= 12:
            # each branch of a conditional expression is checked under the outcome of its test
            line = getattr(e, "lineno", 0)
            self.check(e.body, t, fi, fl, st.with_fact(*fl._mkfacts(e.test, True, st, line)), path, env, complete, depth + 1)
            self.check(e.orelse, t, fi, fl, st.with_fact(*fl._mkfacts(e.test, False, st, line)), path, env, complete, depth + 1)
            return
        if depth <= 12 and not (isinstance(e, ast.Name) and env and e.id in env):
            con = fi.short()
            loc = f"{fi.module.rel}:{getattr(e, 'lineno', fi.node.lineno)}"
            tname = t.get("_name", kind)
            if kind == "ENUMERATED":
                vals = self._selected_names(e, fi)
                if vals is not None:
                    self.n_values += 1
                    names = self.S.enum_names(t)
                    for v in dict.fromkeys(vals):
                        self.ctx.ob(self.rs, con, f"{path}:enum:{v}", v in names,
                                    f"`{v}` (selected from `{unparse(e)[:40]}`) " + ("is" if v in names else "is NOT") +
                                    f" an enumerator of {tname}" + ("" if v in names else f" ({names[:10]}...): encoding raises"), loc)
                    return
            if kind == "INTEGER" and not isinstance(e, (ast.Constant, ast.Dict, ast.Tuple, ast.List)) and self.S.int_range(t) is not None \
                    and not (isinstance(e, ast.Call) and self._repo_target(fi, e) is not None):
                # a value computed from the quantifier's inputs must be PROVEN in range: no bound at all is a failure, not an opaque value
                lo, hi = self.ival(e, fi, fl, st, env or {})
                used = sorted({norm(pretty(unparse(n))) for n in ast.walk(e) if isinstance(n, (ast.Subscript, ast.Call, ast.Attribute))
                               and norm(pretty(unparse(n))) in self.inputs})
                if lo == -INF and hi == INF and used:
                    rng = self.S.int_range(t)
                    self.n_values += 1
                    self.ctx.ob(self.rr, con, f"{path}:range", False,
                                f"`{pretty(unparse(e))[:60]}` is computed from {used} but nothing bounds it; {tname} allows [{rng[0]}, {rng[1]}] - "
                                "values outside make the encoder raise (or wrap)", loc)
                    return
            if kind == "BIT STRING" and isinstance(e, (ast.Attribute, ast.Name)) and "@" not in unparse(e):
                ts = self.P.expr_types(fi, e)
                if ts and all(isinstance(x, str) and x in SCALAR_TAGS for x in ts):
                    self.n_values += 1
                    self.ctx.ob(self.rs, con, f"{path}:shape", False,
                                f"{tname} is a BIT STRING: asn1tools needs a (bytes, number-of-bits) pair; `{unparse(e)[:50]}` is declared "
                                f"{sorted(x.split(':')[1] for x in ts)} - encoding raises", loc)
                    return
        return super().check(e, t, fi, fl, st, path, env, complete, depth)

    # ------------------------------------------------------------------ lists grown element by element
    def _bind(self, callee: FuncInfo, call: ast.Call, fi, fl, st, env) -> dict:
        params = callee.params
        off = 1 if callee.kind in ("method", "classmethod") and params else 0
        cenv = {}
        for i, a in enumerate(call.args):
            if i + off < len(params):
                cenv[params[i + off]] = (a, fi, fl, st, env)
        for kw in call.keywords:
            if kw.arg:
                cenv[kw.arg] = (kw.value, fi, fl, st, env)
        return cenv

    def _call_or_opaque(self, e, t, fi, fl, st, path, env, complete, depth):
        super()._call_or_opaque(e, t, fi, fl, st, path, env, complete, depth)
        if isinstance(e, ast.Call):
            callee = self._repo_target(fi, e)
            if callee is not None and self._inl < 6:
                cenv = self._bind(callee, e, fi, fl, st, env)
                cfl = self.ctx.flows.get(callee)
                self._inl += 1
                try:
                    for k, s, cst in cfl.exits:
                        if k == "return" and s.value is not None:
                            self.grown(s.value, t, callee, cfl, cst, path, cenv, depth + 1)
                finally:
                    self._inl -= 1

    def grown(self, v: ast.AST, t: dict, fi: FuncInfo, fl, st, path: str, env: dict = None, depth: int = 0, _seen=None):
        """Walk the UNEXPANDED value `v` along type `t`; wherever a local list sits at a SEQUENCE OF position, check every
        element the function puts into that list."""
        env = env or {}
        _seen = _seen if _seen is not None else set()
        if depth > 12 or v is None:
            return
        S = self.S
        kind = t.get("type")
        if isinstance(v, ast.IfExp):
            self.grown(v.body, t, fi, fl, st, path, env, depth + 1, _seen)
            self.grown(v.orelse, t, fi, fl, st, path, env, depth + 1, _seen)
            return
        if isinstance(v, ast.Name):
            if v.id in fi.params or st is None or v.id not in st.defs:
                return
            if kind in ("SEQUENCE OF", "SET OF") and ("grow", fi.qual, v.id, path) not in _seen:
                _seen.add(("grow", fi.qual, v.id, path))
                self._check_grow_sites(v.id, t, fi, fl, path, env, depth)
            for d in fl.reaching(v.id, st):
                if d.kind == "assign" and d.value is not None and id(d.stmt) in fl.before and (fi.qual, d.did) not in _seen:
                    _seen.add((fi.qual, d.did))
                    self.grown(d.value, t, fi, fl, fl.before[id(d.stmt)], path, env, depth + 1, _seen)
            return
        if isinstance(v, ast.Dict) and kind in ("SEQUENCE", "SET"):
            members = {m["name"]: m for m in S.members(t)}
            for k, vv in zip(v.keys, v.values):
                if isinstance(k, ast.Constant) and k.value in members:
                    self.grown(vv, S.resolve(members[k.value], t.get("_module")), fi, fl, st, f"{path}.{k.value}", env, depth + 1, _seen)
            return
        if isinstance(v, ast.Tuple) and kind == "CHOICE" and len(v.elts) == 2 and isinstance(v.elts[0], ast.Constant):
            alts = {m["name"]: m for m in S.members(t)}
            if v.elts[0].value in alts:
                self.grown(v.elts[1], S.resolve(alts[v.elts[0].value], t.get("_module")), fi, fl, st,
                           f"{path}.{v.elts[0].value}", env, depth + 1, _seen)
            return
        if isinstance(v, (ast.List, ast.Tuple)) and kind in ("SEQUENCE OF", "SET OF"):
            et = S.resolve(t.get("element", {}), t.get("_module"))
            for i, x in enumerate(v.elts):
                self.grown(x, et, fi, fl, st, f"{path}[{i}]", env, depth + 1, _seen)

    def _check_grow_sites(self, name: str, t: dict, fi: FuncInfo, fl, path: str, env: dict, depth: int):
        et = self.S.resolve(t.get("element", {}), t.get("_module"))
        epath = f"{path}[*]"

        def element(x, at):
            try:
                sst = fl.state_at(at)
            except AnalysisError:
                return
            self.check(fl.expand(x, sst), et, fi, fl, sst, epath, env, True, depth + 1)

        def many(x, at):
            if isinstance(x, (ast.List, ast.Tuple)):
                for y in x.elts:
                    element(y, at)
            elif isinstance(x, ast.Name) and x.id != name:
                try:
                    self.grown(x, t, fi, fl, fl.state_at(at), path, env, depth + 1)
                except AnalysisError:
                    pass
            else:
                self.n_opaque += 1
                self.ctx.note(f"{fi.module.rel}:{getattr(at, 'lineno', 0)}: elements added to `{name}` by `{unparse(x)[:40]}` not analysed")

        for n in ast.walk(fi.node):
            if isinstance(n, ast.Call) and isinstance(n.func, ast.Attribute) and isinstance(n.func.value, ast.Name) \
                    and n.func.value.id == name:
                if n.func.attr in GROWERS and len(n.args) > GROWERS[n.func.attr]:
                    element(n.args[GROWERS[n.func.attr]], n)
                elif n.func.attr in ("extend", "extendleft") and len(n.args) == 1:
                    many(n.args[0], n)
            elif isinstance(n, ast.AugAssign) and isinstance(n.target, ast.Name) and n.target.id == name and isinstance(n.op, ast.Add):
                many(n.value, n)
            elif isinstance(n, ast.Assign):
                for tg in n.targets:
                    if isinstance(tg, ast.Subscript) and isinstance(tg.value, ast.Name) and tg.value.id == name \
                            and not isinstance(tg.slice, ast.Slice):
                        element(n.value, n)


@dataclass
class Store:
    kind: str
    fi: FuncInfo
    stmt: ast.Assign
    path: list
    value: ast.AST


class Messages:
    def __init__(self, ctx):
        self.ctx = ctx
        self.P = ctx.prog
        self.schemas: dict = {}
        self.roots: dict = {}
        self.templates: dict = {}
        self.cls: dict = {}

    def load(self, kind: str):
        if kind in self.schemas:
            return
        cq, attr, tmpl, mod, const, root = MESSAGES[kind]
        P = self.P
        ci = P.cls(cq)
        sch = Schema(P, mod, const)
        rt = sch.resolve(root)
        if rt.get("type") != "SEQUENCE":
            raise AnalysisError(f"{kind}: root type {root} did not resolve to a SEQUENCE")
        tm = ci.methods.get(tmpl)
        if tm is None:
            raise AnalysisError(f"{kind}: template method {tmpl} vanished")
        lit = None
        for n in ast.walk(tm.node):
            if isinstance(n, ast.Return) and isinstance(n.value, ast.Dict):
                lit = n.value
            if isinstance(n, ast.Assign) and isinstance(n.value, ast.Dict) and lit is None:
                lit = n.value
        if lit is None:
            raise AnalysisError(f"{kind}: template literal not found in {tmpl}")
        self.schemas[kind], self.roots[kind], self.templates[kind], self.cls[kind] = sch, rt, (tm, lit), ci

    def checker(self, kind: str, rule_schema: str, rule_range: str) -> ShapeChecker:
        self.load(kind)
        return Checker(self.ctx, self.schemas[kind], rule_schema, rule_range, INPUTS)

    # ------------------------------------------------------------------ stores into a message
    def _root_path(self, kind: str, fi: FuncInfo, fl, st, target: ast.AST) -> Optional[list]:
        """Constant subscript path below <message obj>.<attr> for a Subscript expression, else None."""
        attr = MESSAGES[kind][1]
        ci = self.cls[kind]
        x = fl.expand(target, st) if st is not None else target
        path = []
        cur = x
        while True:
            if isinstance(cur, ast.Subscript):
                k = self.P.try_fold(fi.module, cur.slice, default="<nc>")
                path.append(k if k != "<nc>" else "?")
                cur = cur.value
            elif isinstance(cur, ast.Call) and isinstance(cur.func, ast.Attribute) and cur.func.attr == "get" and cur.args:
                k = self.P.try_fold(fi.module, cur.args[0], default="<nc>")
                path.append(k if k != "<nc>" else "?")
                cur = cur.func.value
            else:
                break
        path.reverse()
        if isinstance(cur, ast.Attribute) and cur.attr == attr:
            base_t = {t for t in self.P.expr_types(fi, cur.value) if isinstance(t, str)}
            d = dotted(cur.value) or ""
            if ci.qual in base_t or (d == "self" and fi.cls is ci):
                return path
            # versioned local names lose their type: accept constructor expansions of the message class
            if isinstance(cur.value, ast.Call) and ci.name in unparse(cur.value.func):
                return path
            nm = pretty(d)
            if nm and nm != d:
                try:
                    base_t = {t for t in self.P.expr_types(fi, ast.parse(nm, mode="eval").body) if isinstance(t, str)}
                    if ci.qual in base_t:
                        return path
                except SyntaxError:
                    pass
        return None

    def stores(self, kind: str) -> list:
        cache = self.__dict__.setdefault("_stores", {})
        if kind not in cache:
            cache[kind] = self._find_stores(kind)
        return list(cache[kind])

    def _find_stores(self, kind: str) -> list:
        self.load(kind)
        P = self.P
        attr = MESSAGES[kind][1]
        out = []
        for fi in P.iter_funcs():
            src = fi.module.src
            if attr not in src:
                continue          # cheap prefilter only: the module never mentions the message attribute
            fl = None
            for n in ast.walk(fi.node):
                if isinstance(n, ast.Assign) and len(n.targets) == 1 and isinstance(n.targets[0], ast.Subscript):
                    if fl is None:
                        fl = self.ctx.flows.get(fi)
                    if id(n) not in fl.before:
                        continue
                    st = fl.before[id(n)]
                    p = self._root_path(kind, fi, fl, st, n.targets[0])
                    if p is not None:
                        out.append(Store(kind, fi, n, p, n.value))
        return out

    def local_dict_stores(self, fi: FuncInfo) -> dict:
        """local name -> [(key, value, stmt)] for `name["k"] = v` on locals defined by a dict literal in fi."""
        lits = {}
        for n in ast.walk(fi.node):
            if isinstance(n, (ast.Assign, ast.AnnAssign)) and n.value is not None and isinstance(n.value, ast.Dict):
                t = n.targets[0] if isinstance(n, ast.Assign) else n.target
                if isinstance(t, ast.Name):
                    lits[t.id] = n.value
        out = {}
        for n in ast.walk(fi.node):
            if isinstance(n, ast.Assign) and isinstance(n.targets[0], ast.Subscript) and isinstance(n.targets[0].value, ast.Name) \
                    and n.targets[0].value.id in lits and isinstance(n.targets[0].slice, ast.Constant):
                out.setdefault(n.targets[0].value.id, []).append((n.targets[0].slice.value, n.value, n))
        return {k: (lits[k], v) for k, v in out.items()}


def check_template(ctx, M: Messages, kind: str, rule_schema: str, rule_range: str):
    M.load(kind)
    tm, lit = M.templates[kind]
    ck = M.checker(kind, rule_schema, rule_range)
    fl = ctx.flows.get(tm)
    ck.check(lit, M.roots[kind], tm, fl, None, kind, {}, True)
    return ck


def check_stores(ctx, M: Messages, kind: str, rule_schema: str, rule_range: str, only=None) -> int:
    M.load(kind)
    ck = M.checker(kind, rule_schema, rule_range)
    tm, lit = M.templates[kind]
    n = 0
    for s in M.stores(kind):
        if only is not None and not only(s):
            continue
        n += 1
        fl = ctx.flows.get(s.fi)
        st = fl.before[id(s.stmt)]
        loc = f"{s.fi.module.rel}:{s.stmt.lineno}"
        pstr = kind + "".join(f".{k}" if isinstance(k, str) else f"[{k}]" for k in s.path)
        if "?" in s.path:
            ctx.note(f"{loc}: store with a non-constant key into {pstr} not analysed")
            continue
        t, why = ck.descend(M.roots[kind], s.path, lit)
        if t is None:
            ctx.ob(rule_schema, s.fi.short(), f"{pstr}:path", False, f"store into `{pstr}`: {why}", loc)
            continue
        ctx.ob(rule_schema, s.fi.short(), f"{pstr}:path", True, f"`{pstr}` is a {t.get('_name', t.get('type'))}", loc)
        val = fl.expand(s.value, st)
        ck.check(val, t, s.fi, fl, st, pstr, {}, True)
        ck.grown(s.value, t, s.fi, fl, st, pstr, {})
        # builder functions that extend a local dict after creating it
        _check_local_extensions(ctx, M, ck, s, t, pstr)
    return n


def _check_local_extensions(ctx, M, ck, s, t, pstr):
    """value = <call to builder> where the builder returns {..: local} and later writes local["k"] = v."""
    P = ctx.prog
    v = s.value
    calls = [v] if isinstance(v, ast.Call) else []
    fl = ctx.flows.get(s.fi)
    st = fl.before[id(s.stmt)]
    x = fl.expand(v, st)
    if isinstance(x, ast.Call):
        calls = [x]
    for c in calls:
        tg = [tt for tt in P.call_targets(s.fi, c, count=False, cha=False) if isinstance(tt, FuncInfo)]
        for callee in tg:
            ext = M.local_dict_stores(callee)
            if not ext:
                continue
            cfl = ctx.flows.get(callee)
            # where does the local sit inside the returned value?
            for k_, s_, cst in cfl.exits:
                if k_ != "return" or not isinstance(s_.value, ast.Dict):
                    continue
                for kk, vv in zip(s_.value.keys, s_.value.values):
                    if isinstance(vv, ast.Name) and vv.id in ext and isinstance(kk, ast.Constant):
                        sub, why = ck.descend(t, [kk.value], None)
                        if sub is None:
                            continue
                        for key, val, stmt in ext[vv.id][1]:
                            mt, why2 = ck.descend(sub, [key], None)
                            loc = f"{callee.module.rel}:{stmt.lineno}"
                            if mt is None:
                                ctx.ob(ck.rs, callee.short(), f"{pstr}.{kk.value}.{key}:path", False, why2, loc)
                                continue
                            ck.check(cfl.expand(val, cfl.before[id(stmt)]), mt, callee, cfl, cfl.before[id(stmt)],
                                     f"{pstr}.{kk.value}.{key}", {}, True)


def check_reads(ctx, M: Messages, kind: str, rule: str, readers: list) -> int:
    """readers: [(function suffix, parameter / local holding the decoded message)]"""
    M.load(kind)
    P = ctx.prog
    ck = M.checker(kind, rule, rule)
    n = 0
    for fsuffix, var in readers:
        fi = P.func(fsuffix)
        fl = ctx.flows.get(fi)
        seen = set()
        for node in ast.walk(fi.node):
            if not isinstance(node, (ast.Subscript, ast.Call)):
                continue
            if isinstance(node, ast.Call) and not (isinstance(node.func, ast.Attribute) and node.func.attr == "get" and node.args):
                continue
            if isinstance(node, ast.Subscript) and not isinstance(node.ctx, ast.Load):
                continue
            # only maximal chains
            par = fl.parent.get(id(node))
            if isinstance(par, ast.Subscript) and par.value is node:
                continue
            if isinstance(par, ast.Attribute) and par.attr == "get" and par.value is node:
                continue
            try:
                st = fl.state_at(node)
            except AnalysisError:
                continue
            def chain(x_):
                path_, cur_ = [], x_
                while True:
                    if isinstance(cur_, ast.Subscript):
                        k = P.try_fold(fi.module, cur_.slice, default="<nc>")
                        path_.append(k if k != "<nc>" else "?")
                        cur_ = cur_.value
                    elif isinstance(cur_, ast.Call) and isinstance(cur_.func, ast.Attribute) and cur_.func.attr == "get" and cur_.args:
                        k = P.try_fold(fi.module, cur_.args[0], default="<nc>")
                        path_.append(k if k != "<nc>" else "?")
                        cur_ = cur_.func.value
                    else:
                        break
                path_.reverse()
                return path_, cur_
            # the decoded message may be a local bound to the decoder's result: read the chain as written first, expanded second
            x = node
            path, cur = chain(x)
            if not (isinstance(cur, ast.Name) and pretty(cur.id) == var):
                x = fl.expand(node, st)
                path, cur = chain(x)
            if not (isinstance(cur, ast.Name) and pretty(cur.id) == var) or not path or "?" in path:
                continue
            key = tuple(path)
            if key in seen:
                continue
            seen.add(key)
            if path and path[0] in ("utc_timestamp",):
                continue
            n += 1
            pstr = kind + "".join(f".{k}" if isinstance(k, str) else f"[{k}]" for k in path)
            t, why = ck.descend(M.roots[kind], path, None)
            ok = t is not None
            if not ok and "alternative in force is unknown" in (why or ""):
                ok = True     # (name, value) indexing of a decoded CHOICE is the right shape
            ctx.ob(rule, fi.short(), f"read:{pstr}", ok,
                   f"read of `{pstr}` from a decoded {kind}" + ("" if ok else f": {why}"), f"{fi.module.rel}:{node.lineno}")
            # a member declared OPTIONAL may be missing from a conforming message of another station: a plain subscript needs a
            # presence test of that key in front of it (a `.get` step does not)
            if ok and isinstance(node, ast.Subscript):
                from .. import sem as _sem
                S_ = ck.S
                cur_t, opt_unguarded = M.roots[kind], []
                steps, c2 = [], x
                while isinstance(c2, (ast.Subscript, ast.Call)):
                    steps.append(c2)
                    c2 = c2.value if isinstance(c2, ast.Subscript) else c2.func.value
                steps.reverse()                         # outermost container first
                try:
                    facts_ = _sem.facts(fl, node, expanded=True) | _sem.facts(fl, node, expanded=False)
                except AnalysisError:
                    facts_ = set()
                for k_, step in zip(path, steps):
                    if cur_t is None:
                        break
                    if cur_t.get("type") in ("SEQUENCE", "SET") and isinstance(k_, str):
                        mem_ = {m_["name"]: m_ for m_ in S_.members(cur_t)}
                        m_ = mem_.get(k_)
                        if m_ is None:
                            break
                        if (m_.get("optional") or "default" in m_) and isinstance(step, ast.Subscript):
                            cont = _sem.cx(step.value)
                            tested = {f"in('{k_}',{cont})", f"in('{k_}',{cont}.keys())", f"!is(None,{cont}.get('{k_}'))",
                                      f"truthy({cont}.get('{k_}'))"}
                            # ... or the read sits in a try block that handles the missing key
                            caught, cur_n = False, node
                            while id(cur_n) in fl.parent and not caught:
                                par_n = fl.parent[id(cur_n)]
                                if isinstance(par_n, ast.Try) and any(cur_n is b_ for b_ in par_n.body):
                                    for h_ in par_n.handlers:
                                        names_ = [dotted(e_) for e_ in (h_.type.elts if isinstance(h_.type, ast.Tuple) else [h_.type])] if h_.type is not None else [None]
                                        if any(n_ in (None, "KeyError", "LookupError", "Exception", "BaseException") for n_ in names_):
                                            caught = True
                                cur_n = par_n
                            if not (facts_ & tested) and not caught:
                                opt_unguarded.append(k_)
                        cur_t = S_.resolve(m_, cur_t.get("_module"))
                    else:
                        nxt, _w = ck.descend(cur_t, [k_], None)
                        cur_t = nxt
                ctx.ob(rule, fi.short(), f"read:{pstr}:optional-members-guarded", not opt_unguarded,
                       f"every OPTIONAL member on the way to `{pstr}` is read behind a presence test (or through .get)" if not opt_unguarded else
                       f"`{pstr}` subscripts the OPTIONAL member(s) {opt_unguarded} without testing their presence: a conforming {kind} of "
                       "another station that leaves them out raises KeyError in the reception path and is lost (not fed to the LDM, "
                       "callback not called)", f"{fi.module.rel}:{node.lineno}")
    return n


# ---------------------------------------------------------------------------------------------------------------------
# dictionaries that reach a message through a request object (confirmed flows; each hop is re-verified on every run)
# ---------------------------------------------------------------------------------------------------------------------
APP = "applications.road_hazard_signalling_service"
_DENM_TX = (f"{FAC}.decentralized_environmental_notification_service.denm_transmission_management."
            "DecentralizedEnvironmentalNotificationMessage")
# hops: ("kwarg", function, keyword name, value)  - the function passes `value` under that keyword to a constructor / call
#       ("store", function, value)                - the function stores `value` at the alias path of the message
# `{p}` in a value stands for any parameter of the function
ALIASES = [
    # the EVA application keeps the DENM event position as a dict attribute and hands it on through DENRequest
    dict(kind="DENM", path=["denm", "management", "eventPosition"], owner=f"{APP}.emergency_vehicle_approaching_service.EmergencyVehicleApproachingService",
         attr="event_position",
         hops=[("kwarg", f"{APP}.service_access_point.DENRequest.with_emergency_vehicle_approaching", "event_position", "{p}.event_position"),
               ("store", f"{_DENM_TX}.fullfill_with_denrequest", "{p}.event_position")]),
]
RETURN_ALIASES = [
    # collision-risk warnings take the event position from ReferencePosition.to_dict()
    dict(kind="DENM", path=["denm", "management", "eventPosition"], func=f"{FAC}.local_dynamic_map.ldm_classes.ReferencePosition.to_dict",
         hops=[("kwarg", f"{APP}.service_access_point.DENRequest.with_collision_risk_warning", "event_position", "{p}.to_dict()"),
               ("store", f"{_DENM_TX}.fullfill_with_collision_risk_warning", "{p}.event_position")]),
]


def _verify_hops(ctx, M, al):
    """Each hop of a confirmed message flow is re-established from the program (expanded values, canonical comparison)."""
    from .. import sem
    P = ctx.prog
    for hop in al["hops"]:
        fi = P.func(hop[1])
        fl = ctx.flows.get(fi)
        params = [p for p in fi.params if p not in ("self", "cls")]
        wanted = [hop[-1].replace("{p}", p) for p in params]
        found = False
        if hop[0] == "kwarg":
            for c in P.calls_in(fi):
                for kw in c.keywords:
                    if kw.arg != hop[2]:
                        continue
                    try:
                        x = fl.expand(kw.value, fl.state_at(c))
                    except AnalysisError:
                        continue
                    if any(sem.same(x, w) for w in wanted):
                        if "func" in al and isinstance(x, ast.Call):
                            tq = {t.qual for t in P.call_targets(fi, kw.value, count=False) if isinstance(t, FuncInfo)} if isinstance(kw.value, ast.Call) else set()
                            if tq and P.func(al["func"]).qual not in tq:
                                continue
                        found = True
        else:
            for s_ in M.stores(al["kind"]):
                if s_.fi is fi and list(s_.path) == list(al["path"]):
                    x = fl.expand(s_.value, fl.before[id(s_.stmt)])
                    if any(sem.same(x, w) for w in wanted):
                        found = True
        if not found:
            raise AnalysisError(f"message flow changed: {fi.short()} no longer passes `{hop[-1]}` on ({hop[0]}) "
                                "- alias table in msgutil needs re-confirmation")


def check_aliases(ctx, M: Messages, kind: str, rule_schema: str, rule_range: str) -> int:
    """Dict attributes / return values that become part of a message by reference: literal and later subscript stores."""
    M.load(kind)
    P = ctx.prog
    ck = M.checker(kind, rule_schema, rule_range)
    n = 0
    for al in ALIASES:
        if al["kind"] != kind:
            continue
        _verify_hops(ctx, M, al)
        ci = P.cls(al["owner"])
        t, _ = ck.descend(M.roots[kind], al["path"], None)
        if t is None:
            raise AnalysisError(f"alias path {al['path']} does not exist in {kind}")
        pbase = kind + "".join(f".{k}" for k in al["path"])
        for fi in ci.methods.values():
            fl = ctx.flows.get(fi)
            for s in ast.walk(fi.node):
                if not isinstance(s, ast.Assign) or len(s.targets) != 1 or id(s) not in fl.before:
                    continue
                tgt = s.targets[0]
                st = fl.before[id(s)]
                if dotted(tgt) == f"self.{al['attr']}":
                    n += 1
                    ck.check(s.value, t, fi, fl, st, pbase, {}, True)
                    continue
                # self.<attr>[k1][k2] = v
                path, cur = [], tgt
                while isinstance(cur, ast.Subscript):
                    k = P.try_fold(fi.module, cur.slice, default="<nc>")
                    path.append(k if k != "<nc>" else "?")
                    cur = cur.value
                path.reverse()
                if not path or dotted(cur) != f"self.{al['attr']}":
                    continue
                n += 1
                loc = f"{fi.module.rel}:{s.lineno}"
                pstr = pbase + "".join(f".{k}" for k in path)
                if "?" in path:
                    ctx.note(f"{loc}: store with a non-constant key into {pstr} not analysed")
                    continue
                mt, why = ck.descend(t, path, None)
                if mt is None:
                    ctx.ob(rule_schema, fi.short(), f"{pstr}:path", False, f"store into `{pstr}`: {why}", loc)
                    continue
                ctx.ob(rule_schema, fi.short(), f"{pstr}:path", True, f"`{pstr}` is a {mt.get('_name', mt.get('type'))}", loc)
                ck.check(fl.expand(s.value, st), mt, fi, fl, st, pstr, {}, True)
    for al in RETURN_ALIASES:
        if al["kind"] != kind:
            continue
        _verify_hops(ctx, M, al)
        fi = P.func(al["func"])
        fl = ctx.flows.get(fi)
        t, _ = ck.descend(M.roots[kind], al["path"], None)
        pbase = kind + "".join(f".{k}" for k in al["path"])
        for k_, s_, st_ in fl.exits:
            if k_ == "return" and s_.value is not None:
                n += 1
                ck.check(s_.value, t, fi, fl, st_, pbase, {}, True)
    return n
