"""C13 - LDM queries return exactly the matching objects, identically on both back-ends.

Decides (ops): agreement of the operator vocabulary between its three holders (enum __str__ tables covering every
member with distinct strings and the prescribed symbols, OPERATOR_MAPPING keys, the and / or literals both back-ends
compare str(logical_operator) with); that each OPERATOR_MAPPING entry implements its own symbol (a reflected spelling
`b > a` of `a < b` counts as the same comparison) and like / notlike are the containment helper on (value, reference)
with the negation INSIDE the per-value predicate - contains XOR negate on all four valuations, both the query and the
raw-value path returning that verdict, the helper being a membership test or False; that the function looked up by
str(operator) is applied as (attribute value, reference value) with attribute path, operator and reference of ONE
filter statement and its truth value is the verdict; that 'and' combines with and / &, 'or' with or / |, on the
verdicts of statement 1 and statement 2 of the same object, exactly when a second statement is present, an object
kept exactly when its verdict holds, and that both back-ends use the same default operator for two statements
without one; (path-root) that both back-ends resolve a dotted attribute path from the same root; (missing-attr) that
a missing attribute is caught per object and counts as a non-match, and no `~` inverts a TinyDB query (which would
match documents lacking the attribute); (types-always) that type selection applies on every return of the search and
query paths, the helper keeping in order exactly the requested types and the filter returning a sub-sequence of its
candidates; (order) that the sort key is every requested attribute in request order and the direction the requested
one, and that Utils.get_nested - interpreted (absint.MiniExec, no repository code runs) on paths of depth 1..3 with every
falsy leaf value - returns exactly the stored leaf and None only for an absent path (skipped with a note when the helper
leaves the interpreted subset); that the containment helper tests the bare reference value only against non-string candidates
(strings get `str(needle)`), and that no enumeration with a member valued 0 is tested for truthiness in the filter / query code.
Does not decide equivalence with a predicate evaluator over generated stores, TinyDB's own semantics, comparisons of
values of different types, nor the body of Utils.find_attribute (resolved as a callee).

All decisions are taken on the AST / the flow facts (canonical atoms, locals resolved through the flow, arguments bound
to parameter names, callees resolved by the program model) - never on source text.
"""
from __future__ import annotations

import ast
import copy
import re

from .. import sem
from ..flow import FunctionFlow, cond_atoms
from ..prog import AnalysisError, ClassInfo, FuncInfo, dotted, unparse

PROP = "C13"
LDM = "facilities.local_dynamic_map"
DB = f"{LDM}.dictionary_database.DictionaryDataBase"
TDB = f"{LDM}.tinydb_database.TinyDB"
SV = f"{LDM}.ldm_service.LDMService"
REQ = f"{LDM}.ldm_classes.RequestDataObjectsReq"

CMP = {ast.Eq: "==", ast.NotEq: "!=", ast.Gt: ">", ast.Lt: "<", ast.GtE: ">=", ast.LtE: "<="}


# --------------------------------------------------------------------------------------------
# small structural helpers
# --------------------------------------------------------------------------------------------
def str_table(P, ci) -> dict:
    """{member: string} from `def __str__: return {Cls.X: "..."}[self]`."""
    m = ci.methods.get("__str__")
    out = {}
    if m is None:
        return out
    for n in ast.walk(m.node):
        if isinstance(n, ast.Dict):
            for k, v in zip(n.keys, n.values):
                if isinstance(v, ast.Constant) and isinstance(v.value, str):
                    out[(dotted(k) or "").split(".")[-1]] = v.value
    return out


def is_name(n, name: str) -> bool:
    """`n` is the (version-stripped) local / parameter / free variable `name`."""
    return isinstance(n, ast.Name) and sem.cx(n) == name


def short(e, n: int = 90) -> str:
    try:
        return sem._strip_versions(unparse(e))[:n]
    except Exception:  # pragma: no cover
        return "<?>"


def targets(P, fi, call) -> list:
    if not isinstance(call, ast.Call):
        return []
    return [t for t in P.call_targets(fi, call, count=False, cha=False) if isinstance(t, FuncInfo)]


def calls_to(P, fi, call, qual_suffix: str) -> bool:
    tg = targets(P, fi, call)
    return len(tg) == 1 and (tg[0].qual == qual_suffix or tg[0].qual.endswith("." + qual_suffix))


def bind(callee: FuncInfo, call: ast.Call):
    """parameter name -> argument node (defaults filled in); None when the binding is not static."""
    a = callee.node.args
    names = [x.arg for x in a.posonlyargs + a.args]
    off = 1 if callee.kind in ("method", "classmethod", "property") and names else 0
    if any(isinstance(x, ast.Starred) for x in call.args) or any(k.arg is None for k in call.keywords):
        return None
    out = {}
    for i, x in enumerate(call.args):
        if i + off >= len(names):
            return None
        out[names[i + off]] = x
    for k in call.keywords:
        if k.arg in out:
            return None
        out[k.arg] = k.value
    for nm, d in zip(names[len(names) - len(a.defaults):], a.defaults):
        out.setdefault(nm, d)
    for arg, d in zip(a.kwonlyargs, a.kw_defaults):
        if d is not None:
            out.setdefault(arg.arg, d)
    return out


def unwrap_seq(e):
    """tuple(x) / list(x) -> x (same elements, same order)."""
    while isinstance(e, ast.Call) and dotted(e.func) in ("tuple", "list") and len(e.args) == 1 and not e.keywords:
        e = e.args[0]
    return e


def const_str(P, mod, e):
    v = P.try_fold(mod, e)
    return v if isinstance(v, str) else None


def falsy_const(e) -> bool:
    return isinstance(e, ast.Constant) and e.value in (False, None, 0) and not isinstance(e.value, str)


def copy_load(e):
    import copy
    e = copy.deepcopy(e)
    for n in ast.walk(e):
        if hasattr(n, "ctx"):
            n.ctx = ast.Load()
    return e


def arms(e) -> list:
    """the values a (nested) conditional expression can take"""
    return arms(e.body) + arms(e.orelse) if isinstance(e, ast.IfExp) else [e]


def inside(node, root) -> bool:
    return any(n is node for n in ast.walk(root))


def terminates(stmts: list) -> bool:
    """The block never falls off its end."""
    if not stmts:
        return False
    last = stmts[-1]
    if isinstance(last, (ast.Return, ast.Raise, ast.Continue, ast.Break)):
        return True
    if isinstance(last, ast.If):
        return terminates(last.body) and terminates(last.orelse)
    return False


def covers_keyerror(h: ast.ExceptHandler) -> bool:
    if h.type is None:
        return True
    elts = h.type.elts if isinstance(h.type, ast.Tuple) else [h.type]
    return any((dotted(x) or "").split(".")[-1] in ("KeyError", "LookupError", "Exception", "BaseException") for x in elts)


class Undecided(Exception):
    pass


def bool_eval(e, leaf):
    """Value of a boolean expression whose leaves `leaf` can value (else Undecided)."""
    v = leaf(e)
    if v is not None:
        return v
    if isinstance(e, ast.Constant) and isinstance(e.value, bool):
        return e.value
    if isinstance(e, ast.UnaryOp) and isinstance(e.op, ast.Not):
        return not bool_eval(e.operand, leaf)
    if isinstance(e, ast.BoolOp):
        vals = [bool_eval(x, leaf) for x in e.values]
        return all(vals) if isinstance(e.op, ast.And) else any(vals)
    if isinstance(e, ast.IfExp):
        return bool_eval(e.body, leaf) if bool_eval(e.test, leaf) else bool_eval(e.orelse, leaf)
    if isinstance(e, ast.Compare) and len(e.ops) == 1 and isinstance(e.ops[0], (ast.Eq, ast.NotEq, ast.Is, ast.IsNot)):
        a, b = bool_eval(e.left, leaf), bool_eval(e.comparators[0], leaf)
        return (a == b) if isinstance(e.ops[0], (ast.Eq, ast.Is)) else (a != b)
    if isinstance(e, ast.BinOp) and isinstance(e.op, (ast.BitXor, ast.BitAnd, ast.BitOr)):
        a, b = bool_eval(e.left, leaf), bool_eval(e.right, leaf)
        return (a != b) if isinstance(e.op, ast.BitXor) else (a and b) if isinstance(e.op, ast.BitAnd) else (a or b)
    if isinstance(e, ast.Call) and dotted(e.func) == "bool" and len(e.args) == 1 and not e.keywords:
        return bool_eval(e.args[0], leaf)
    raise Undecided(short(e))


def new_guards(fl, node, base_node) -> list:
    """[(test node, polarity, fact)] of the conditions in force at `node` that are not yet in force at `base_node`."""
    base = {f.ident() for f in fl.state_at(base_node).facts}
    return [(f.xnode, f.pol, f) for f in fl.state_at(node).facts if f.kind == "cond" and f.ident() not in base]


def accumulate_loop(fi, fl):
    """Recognise  acc = [] ; for v in <iter>: ... acc.append(v) ... ; return acc | tuple(acc) | list(acc)
    (one loop, no break / return / raise inside it, `acc` touched nowhere else, `v` never re-bound).
    -> dict(loop=For, var=name, iter=expanded iterable, append=call node) or None."""
    rets = [(s, st) for k, s, st in fl.exits if k == "return"]
    if len(rets) != 1 or any(k == "fall" for k, _, _ in fl.exits):
        return None
    ret, _ = rets[0]
    if ret not in fi.node.body:
        return None
    accn = unwrap_seq(ret.value)
    if not isinstance(accn, ast.Name):
        return None
    acc = accn.id
    if acc in fi.params:
        return None
    stores = [n for n in ast.walk(fi.node) if isinstance(n, ast.Name) and n.id == acc and isinstance(n.ctx, (ast.Store, ast.Del))]
    loads = [n for n in ast.walk(fi.node) if isinstance(n, ast.Name) and n.id == acc and isinstance(n.ctx, ast.Load) and n is not accn]
    init = [s for s in fi.node.body if isinstance(s, (ast.Assign, ast.AnnAssign)) and
            any(is_name(t, acc) for t in (s.targets if isinstance(s, ast.Assign) else [s.target]))]
    if len(stores) != 1 or len(init) != 1 or len(loads) != 1:
        return None
    v0 = init[0].value
    empty = (isinstance(v0, ast.List) and not v0.elts) or (isinstance(v0, ast.Call) and dotted(v0.func) == "list" and not v0.args and not v0.keywords)
    if not empty:
        return None
    use = loads[0]
    att = fl.parent.get(id(use))
    call = fl.parent.get(id(att))
    stmt = fl.parent.get(id(call))
    if not (isinstance(att, ast.Attribute) and att.attr == "append" and isinstance(call, ast.Call) and call.func is att
            and isinstance(stmt, ast.Expr) and len(call.args) == 1 and not call.keywords):
        return None
    loops, cur = [], stmt
    while cur is not None and cur is not fi.node:
        cur = fl.parent.get(id(cur))
        if isinstance(cur, (ast.For, ast.AsyncFor, ast.While)):
            loops.append(cur)
    if len(loops) != 1 or not isinstance(loops[0], ast.For) or loops[0] not in fi.node.body or loops[0].orelse:
        return None
    loop = loops[0]
    if fi.node.body.index(init[0]) > fi.node.body.index(loop) or not isinstance(loop.target, ast.Name):
        return None
    var = loop.target.id
    if var in FunctionFlow.assigned_names(loop.body) or not is_name(call.args[0], var):
        return None
    for n in ast.walk(loop):
        if isinstance(n, (ast.Break, ast.Return, ast.Raise)):
            return None
    return dict(loop=loop, var=var, iter=fl.expand(loop.iter, fl.state_at(loop)), append=call)


# --------------------------------------------------------------------------------------------
# the rule
# --------------------------------------------------------------------------------------------
def _default_logical_operator(P, fi) -> set:
    """Literals used when the filter's logical operator is absent: `str(<op> or "lit")` -> {"lit"}; plain str(<op>) -> {"<none>"}."""
    out = set()
    for n in ast.walk(fi.node):
        if isinstance(n, ast.Call) and dotted(n.func) == "str" and len(n.args) == 1 and "logical_operator" in unparse(n.args[0]):
            a = n.args[0]
            if isinstance(a, ast.BoolOp) and isinstance(a.op, ast.Or) and isinstance(a.values[-1], ast.Constant):
                out.add(a.values[-1].value)
            else:
                out.add("<none>")
    return out


class _DataExec:
    """Factory for a MiniExec over plain data (dict / list / str / numbers): len, isinstance with real semantics, slices,
    dict methods.  Built lazily from the evaluator of C10 so that both share one interpretation of expressions."""

    @staticmethod
    def make():
        from .c10 import Exec

        class DataExec(Exec):
            TYPES = {"dict": dict, "list": (list, tuple), "tuple": (list, tuple), "str": str, "int": int, "float": float,
                     "bool": bool, "bytes": bytes, "set": (set, frozenset)}

            def ev(self, e):
                if isinstance(e, ast.Slice):
                    return slice(self.ev(e.lower) if e.lower is not None else None,
                                 self.ev(e.upper) if e.upper is not None else None,
                                 self.ev(e.step) if e.step is not None else None)
                if isinstance(e, (ast.List, ast.Tuple)):
                    return [self.ev(x) for x in e.elts]
                if isinstance(e, ast.Dict) and all(k is not None for k in e.keys):
                    return {self.ev(k): self.ev(v) for k, v in zip(e.keys, e.values)}
                if isinstance(e, ast.Call):
                    fd = dotted(e.func) or ""
                    if fd == "len" and len(e.args) == 1:
                        return len(self.ev(e.args[0]))
                    if fd == "isinstance" and len(e.args) == 2:
                        t = e.args[1]
                        names = [dotted(x) for x in (t.elts if isinstance(t, ast.Tuple) else [t])]
                        if all(n_ in self.TYPES for n_ in names):
                            v = self.ev(e.args[0])
                            return any(isinstance(v, self.TYPES[n_]) and not (n_ in ("int", "float") and isinstance(v, bool) and n_ == "float")
                                       for n_ in names)
                        raise AnalysisError(f"DataExec: isinstance against {names}")
                    if fd in ("list", "tuple", "dict", "str") and len(e.args) <= 1:
                        return {"list": list, "tuple": list, "dict": dict, "str": str}[fd](*[self.ev(a) for a in e.args])
                    if isinstance(e.func, ast.Attribute) and e.func.attr in ("items", "keys", "values", "split", "startswith", "copy") \
                            and not e.keywords:
                        obj = self.ev(e.func.value)
                        if isinstance(obj, (dict, str, list)):
                            r = getattr(obj, e.func.attr)(*[self.ev(a) for a in e.args])
                            return list(r) if e.func.attr in ("items", "keys", "values") else r
                return super().ev(e)
        return DataExec


def check_enum_truthiness(ctx, P, classes) -> None:
    """An enumeration with a member valued 0 (LogicalOperators.AND, ComparisonOperators.EQ, ...) is never tested for truthiness
    in the filter / query code: `if not filter.logical_operator` is also true for AND, so a two-statement `and` filter is
    evaluated as its first statement alone.  Absence must be tested with `is None`."""
    n_tests = 0
    for ci in classes:
        for fi in ci.methods.values():
            fl = ctx.flows.get(fi)
            for node in ast.walk(fi.node):
                test = node.test if isinstance(node, (ast.If, ast.IfExp, ast.While)) else None
                if test is None:
                    continue
                n_tests += 1
                bare = []

                def collect(t_):
                    if isinstance(t_, ast.UnaryOp) and isinstance(t_.op, ast.Not):
                        collect(t_.operand)
                    elif isinstance(t_, ast.BoolOp):
                        for v_ in t_.values:
                            collect(v_)
                    elif isinstance(t_, (ast.Name, ast.Attribute)):
                        bare.append(t_)
                collect(test)
                for b in bare:
                    zero = []
                    for t_ in P.expr_types(fi, b):
                        c_ = P.classes.get(t_) if isinstance(t_, str) else None
                        if c_ is not None and c_.is_enum and any(v == 0 and not isinstance(v, bool) for v in c_.enum_members.values()):
                            zero.append((c_.name, [k for k, v in c_.enum_members.items() if v == 0][0]))
                    if zero:
                        ctx.ob("C13.ops", fi.short(), f"enum-truthiness:{sem.cx(b)}", False,
                               f"`{unparse(test)[:60]}` tests `{sem.cx(b)}` for truthiness, but {zero[0][0]}.{zero[0][1]} is 0: the member counts as "
                               "'no value' - test `is None` instead", f"{fi.module.rel}:{node.lineno}")
    ctx.extra["truthiness_tests_examined"] = n_tests
    if n_tests < 10:
        raise AnalysisError(f"C13: only {n_tests} conditions found in the filter / query code (confirmed: > 30)")


def check_order_key(ctx, P) -> None:
    """The ordering key (and the station-id lookup) reads a stored value through Utils.get_nested(object, path).  Interpreted
    on representatives - paths of depth 1..3, leaf values including every falsy one (0, 0.0, '', False, [], {}) - it returns
    exactly the stored leaf, and None exactly when the path is absent: a helper that answers None for a stored 0 makes an
    ordered request over generationDeltaTime / speedValue / stationType raise TypeError in sorted() or misplace the object."""
    utils = P.cls(f"{LDM}.ldm_classes.Utils")
    gn = utils.methods.get("get_nested")
    if gn is None or len(gn.params) != 2:
        raise AnalysisError("C13: Utils.get_nested(data, path) vanished or changed its parameters")
    DataExec = _DataExec.make()
    leaves = [0, 0.0, "", False, [], {}, 7, "x", 3.5, True]
    cases = []
    for v in leaves:
        cases += [({"a": v}, ["a"], v), ({"a": {"b": v}}, ["a", "b"], v), ({"a": {"b": {"c": v}, "z": 1}}, ["a", "b", "c"], v)]
    cases += [({"a": {"c": 1}}, ["a", "b"], None), ({}, ["a"], None), ({"a": 1}, ["b"], None), ({"a": {"b": 1}}, ["a", "x", "y"], None)]
    bad, unsupported = [], None
    for data, path, want in cases:
        try:
            got = DataExec(P, gn, {gn.params[0]: copy.deepcopy(data), gn.params[1]: list(path)}).run()
        except AnalysisError as e_:
            unsupported = str(e_)
            break
        except (TypeError, KeyError, AttributeError, IndexError) as e_:
            got = f"<raises {type(e_).__name__}>"
        if not (got == want and type(got) is type(want)):
            bad.append(f"get_nested({data!r}, {path!r}) = {got!r}, stored value is {want!r}")
    if unsupported is not None:
        ctx.note(f"C13.order: Utils.get_nested uses a construct outside the interpreted subset ({unsupported}); order-key obligation skipped")
        return
    ctx.ob("C13.order", gn.short(), "key-is-the-stored-leaf", not bad,
           f"Utils.get_nested returns the stored leaf on all {len(cases)} representatives (falsy leaves included) and None for absent paths"
           if not bad else "Utils.get_nested does not return what is stored: " + "; ".join(bad[:3]), gn.loc)


def run(ctx):
    P = ctx.prog
    ctx.explanation = (
        "Table rules (K11) and sibling rules (K8). The operator vocabulary is read from three places - the __str__ tables "
        "of ComparisonOperators / LogicalOperators, the keys and lambdas of OPERATOR_MAPPING, and the string literals the "
        "two back-ends compare against - and must agree; every lambda must implement the comparison its key names and both "
        "back-ends must apply it as (attribute value, reference value) of one filter statement. The two search "
        "implementations are compared on how they root the attribute path, how they treat objects lacking the attribute, "
        "and whether type selection is applied on every path (and what the selecting helper keeps); LDMService.query and "
        "the ordering are checked the same way. These are agreements between code sites, decided on the syntax tree and "
        "the flow facts, valid for every filter and store.")
    ctx.declined = ["equivalence with a predicate evaluator over generated stores", "TinyDB query semantics",
                    "comparison of values of different types", "body of Utils.find_attribute / "
                    "RequestDataObjectsReq.get_object_type_from_data_object (resolved as callees, not re-derived)"]
    mod = P.module(f"{LDM}.ldm_constants")
    cmp_cls = P.cls(f"{LDM}.ldm_classes.ComparisonOperators")
    log_cls = P.cls(f"{LDM}.ldm_classes.LogicalOperators")
    db, tdb = P.cls(DB), P.cls(TDB)
    check_vocabulary(ctx, P, mod, cmp_cls, log_cls)
    check_like(ctx, P, mod, tdb)
    check_logical(ctx, P, db, tdb, log_cls)
    check_application(ctx, P, mod, db, tdb)
    d_mem = _default_logical_operator(P, P.cls(DB).methods["_filter_data"])
    d_tdb = _default_logical_operator(P, P.cls(TDB).methods["_build_filter_condition"])
    ctx.ob("C13.ops", "both-back-ends", "same-default-operator", bool(d_mem) and d_mem == d_tdb and "<none>" not in d_mem,
           f"a filter with two statements and no logical operator is combined with {sorted(d_mem)} in memory and {sorted(d_tdb)} in TinyDB"
           + ("" if d_mem == d_tdb else ": the same request selects different objects on the two back-ends"),
           f"{P.cls(DB).module.rel}:1")
    ctx.floor("C13.ops", 38)
    check_path_root(ctx, P, db, tdb)
    check_missing_attr(ctx, P, db)
    check_order_key(ctx, P)
    check_enum_truthiness(ctx, P, [db, tdb, P.cls(SV)])
    check_types(ctx, P, db, tdb)
    ctx.floor("C13.types-always", 9)
    check_order(ctx, P)


# ---------------------------------------------------------------- operator vocabulary
def check_vocabulary(ctx, P, mod, cmp_cls, log_cls):
    cstr = str_table(P, cmp_cls)
    lstr = str_table(P, log_cls)
    ctx.ob("C13.ops", cmp_cls.qual[10:], "str-covers-members", set(cstr) == set(cmp_cls.enum_members),
           f"__str__ covers {sorted(cstr)} of {sorted(cmp_cls.enum_members)}", f"{cmp_cls.module.rel}:{cmp_cls.node.lineno}")
    ctx.ob("C13.ops", cmp_cls.qual[10:], "strings-distinct", len(set(cstr.values())) == len(cstr), f"operator strings {sorted(cstr.values())}",
           f"{cmp_cls.module.rel}:{cmp_cls.node.lineno}")
    opm = mod.consts.get("OPERATOR_MAPPING")
    if not isinstance(opm, ast.Dict):
        raise AnalysisError("C13: OPERATOR_MAPPING is not a dict literal")
    keys = {}
    for k, v in zip(opm.keys, opm.values):
        if isinstance(k, ast.Constant):
            keys[k.value] = v
    ctx.ob("C13.ops", f"{LDM}.ldm_constants.OPERATOR_MAPPING", "keys=operator-strings", set(keys) == set(cstr.values()) and len(keys) == len(opm.keys),
           f"OPERATOR_MAPPING keys {sorted(keys)} vs ComparisonOperators strings {sorted(cstr.values())}", f"{mod.rel}:{opm.lineno}")
    want_member = {"==": "EQUAL", "!=": "NOT_EQUAL", ">": "GREATER_THAN", "<": "LESS_THAN", ">=": "GREATER_THAN_OR_EQUAL",
                   "<=": "LESS_THAN_OR_EQUAL", "like": "LIKE", "notlike": "NOT_LIKE"}
    for sym, member in want_member.items():
        ctx.ob("C13.ops", cmp_cls.qual[10:], f"symbol:{member}", cstr.get(member) == sym,
               f"{member} prints as {cstr.get(member)!r} (must be {sym!r})", f"{cmp_cls.module.rel}:{cmp_cls.node.lineno}")
    wl = mod.funcs.get("_wrap_like_operator")
    if wl is None:
        raise AnalysisError("C13: _wrap_like_operator vanished")
    # any function of the module can stand in for the lambda's owner when resolving callees of the lambda bodies
    for sym, lam in keys.items():
        loc = f"{mod.rel}:{lam.lineno}"
        if not isinstance(lam, ast.Lambda) or len(lam.args.args) != 2 or lam.args.vararg or lam.args.kwarg or lam.args.kwonlyargs or lam.args.defaults:
            ctx.ob("C13.ops", f"{LDM}.ldm_constants.OPERATOR_MAPPING", f"entry:{sym}", False, "entry is not a two-argument lambda", loc)
            continue
        a, b = lam.args.args[0].arg, lam.args.args[1].arg
        body = lam.body
        if sym in CMP.values():
            # `a < b` and `b > a` (reflected operator) are the same comparison, also for TinyDB query objects
            ok = isinstance(body, ast.Compare) and len(body.ops) == 1 and a != b and \
                sorted(sem.atoms(body, True)) == sorted(sem.want(f"{a} {sym} {b}"))
            ctx.ob("C13.ops", f"{LDM}.ldm_constants.OPERATOR_MAPPING", f"entry:{sym}", ok,
                   f"'{sym}' is implemented as `{unparse(body)}` (must be `{a} {sym} {b}`)", loc)
        else:
            ok = False
            if isinstance(body, ast.Call) and calls_to(P, wl, body, wl.qual) and a != b:
                bd = bind(wl, body)
                if bd is not None and set(bd) == set(wl.params):
                    p_t, p_r, p_n = wl.params[:3]
                    neg = bd[p_n]
                    ok = is_name(bd[p_t], a) and is_name(bd[p_r], b) and isinstance(neg, ast.Constant) and \
                        neg.value is (sym == "notlike")
            ctx.ob("C13.ops", f"{LDM}.ldm_constants.OPERATOR_MAPPING", f"entry:{sym}", ok,
                   f"'{sym}' is implemented as `{unparse(body)}` (must be the containment helper on (value, reference), negated iff notlike)", loc)
    ctx.ob("C13.ops", log_cls.qual[10:], "and-or", lstr == {"AND": "and", "OR": "or"}, f"LogicalOperators strings {lstr}",
           f"{log_cls.module.rel}:{log_cls.node.lineno}")


# ---------------------------------------------------------------- like / notlike
def check_like(ctx, P, mod, tdb):
    wl = mod.funcs["_wrap_like_operator"]
    vc = mod.funcs.get("_value_contains")
    if vc is None or len(wl.params) < 3:
        raise AnalysisError("C13: _value_contains / _wrap_like_operator signature vanished")
    p_target, p_ref, p_neg = wl.params[:3]
    rebound = FunctionFlow.assigned_names(wl.node.body)
    inner = [f for f in P.funcs.values() if f.parent is wl]

    def pred_decides(f) -> bool:
        """f(value) == (contains(value, reference) != negate) on all four valuations."""
        if len(f.params) != 1 or {p_ref, p_neg} & (rebound | set(f.params)):
            return False
        fl = ctx.flows.get(f)
        vp = f.params[0]
        if vp in FunctionFlow.assigned_names(f.node.body):
            return False
        try:
            for c in (True, False):
                for n in (True, False):
                    def leaf(e, c=c, n=n):
                        if is_name(e, p_neg):
                            return n
                        if isinstance(e, ast.Call) and calls_to(P, f, e, vc.qual):
                            bd = bind(vc, e)
                            if bd is not None and is_name(bd.get(vc.params[0]), vp) and is_name(bd.get(vc.params[1]), p_ref):
                                return c
                        return None
                    feasible = []
                    for k, s, st in fl.exits:
                        if k != "return" or s.value is None:
                            return False
                        if all(bool_eval(ft.xnode, leaf) == ft.pol for ft in st.facts if ft.kind == "cond"):
                            feasible.append(fl.expand(s.value, st))
                    if len(feasible) != 1 or bool_eval(feasible[0], leaf) != (c != n):
                        return False
        except Undecided:
            return False
        return True

    good = [f for f in inner if pred_decides(f)]
    pred = good[0] if good else None
    ctx.ob("C13.ops", f"{LDM}.ldm_constants._wrap_like_operator", "negation-in-predicate", pred is not None,
           f"the per-value predicate `{pred.name}` yields contains(value, reference) XOR negate on all four valuations" if pred else
           "no inner per-value predicate computes `contains(value, reference) != negate`", wl.loc)
    # both paths (query object / raw value) return the predicate's own verdict
    fl = ctx.flows.get(wl)
    kinds, bad = set(), []
    for k, s, st in fl.exits:
        if k == "raise":
            continue
        v = fl.expand(s.value, st) if k == "return" and s.value is not None else None
        kind = None
        if pred is not None and isinstance(v, ast.Call) and not v.keywords and len(v.args) == 1:
            if is_name(v.func, pred.name) and is_name(v.args[0], p_target):
                kind = "raw"
            elif is_name(v.args[0], pred.name) and (sem.same(v.func, f"getattr({p_target}, 'test', None)") or
                                                    sem.same(v.func, f"getattr({p_target}, 'test')") or sem.same(v.func, f"{p_target}.test")):
                kind = "query"
        if kind is None:
            bad.append(short(v) if v is not None else "None")
        else:
            kinds.add(kind)
    ok = pred is not None and not bad and kinds == {"raw", "query"} and not ({p_target, pred.name} & rebound) \
        and sum(1 for n in ast.walk(wl.node) if isinstance(n, ast.FunctionDef) and n.name == pred.name) == 1
    ctx.ob("C13.ops", f"{LDM}.ldm_constants._wrap_like_operator", "negation", ok,
           "both paths return the predicate's own verdict (query: test(predicate); raw value: predicate(value)) - notlike is the exact negation of like "
           "per stored value" if ok else f"_wrap_like_operator returns {bad or sorted(kinds)}: the verdict is not the per-value predicate's on some path", wl.loc)
    # the containment helper: a verdict is a membership test of the needle in the candidate, or False
    flv = ctx.flows.get(vc)
    cand, needle = vc.params[:2]
    n_in, vbad = 0, []
    for k, s, st in flv.exits:
        v = flv.expand(s.value, st) if k == "return" and s.value is not None else None
        if isinstance(v, ast.Constant) and v.value is False:
            continue
        if isinstance(v, ast.Compare) and len(v.ops) == 1 and isinstance(v.ops[0], ast.In) and is_name(v.comparators[0], cand) and \
                (is_name(v.left, needle) or sem.same(v.left, f"str({needle})")):
            if is_name(v.left, needle):
                # the bare reference value may be tested only where the candidate is certainly not a string: `1 in "a1"` raises
                # TypeError (swallowed as a non-match in memory, propagated by TinyDB - the back-ends part ways)
                ats = sem.facts_of_state(st) if hasattr(sem, "facts_of_state") else set()
                typed = [a_ for a_ in ats if a_.startswith("truthy(isinstance(" + cand)]
                if not typed or any(re.search(r"\bstr\b", a_) for a_ in typed):
                    vbad.append(f"`{short(v)}` where the candidate may be a string (the reference value is not coerced with str())")
                    continue
            n_in += 1
            continue
        vbad.append(short(v) if v is not None else k)
    ctx.ob("C13.ops", vc.short(), "contains", n_in >= 1 and not vbad,
           "like = `needle in candidate` (as text for strings), everything else is a non-match" if n_in and not vbad else
           f"_value_contains yields {vbad or 'no membership test'}", vc.loc)
    inv = [(f2, n) for f2 in list(mod.funcs.values()) + list(tdb.methods.values()) for n in ast.walk(f2.node)
           if isinstance(n, ast.UnaryOp) and isinstance(n.op, ast.Invert)]
    ctx.ob("C13.missing-attr", f"{LDM}", "no-query-inversion", not inv,
           "no `~` on query objects in the operator helpers / TinyDB back-end" if not inv else
           f"`~` applied at {[(f2.short(), n.lineno) for f2, n in inv]}: an inverted TinyDB query matches documents that LACK the attribute", mod.rel + ":1")


# ---------------------------------------------------------------- and / or
def _logic_sites(fi, fl):
    """Nodes whose VALUE is a combination of two verdicts: `a and b` / `a or b` / `a & b` / `a | b` (or `x &= y` / `x |= y`)
    that is assigned or returned, directly or as a branch of a conditional expression."""
    out = []

    def value(e):
        if isinstance(e, ast.IfExp):
            value(e.body)
            value(e.orelse)
        elif isinstance(e, ast.BoolOp):
            out.append((e, "and" if isinstance(e.op, ast.And) else "or"))
        elif isinstance(e, ast.BinOp) and isinstance(e.op, (ast.BitAnd, ast.BitOr)):
            out.append((e, "and" if isinstance(e.op, ast.BitAnd) else "or"))

    for n in ast.walk(fi.node):
        if isinstance(n, (ast.FunctionDef, ast.Lambda)) and n is not fi.node:
            continue
        if isinstance(n, (ast.Assign, ast.AnnAssign, ast.Return)) and n.value is not None:
            value(n.value)
        elif isinstance(n, ast.AugAssign) and isinstance(n.op, (ast.BitAnd, ast.BitOr)):
            out.append((n, "and" if isinstance(n.op, ast.BitAnd) else "or"))
    return out


def check_logical(ctx, P, db, tdb, log_cls):
    lstr = str_table(P, log_cls)
    lit = {"and": lstr.get("AND"), "or": lstr.get("OR")}
    for cls_, mname in ((db, "_filter_data"), (tdb, "_build_filter_condition")):
        fi = cls_.methods[mname]
        fl = ctx.flows.get(fi)
        fparam = fi.params[1] if cls_ is db else fi.params[2]
        st2 = sem.want(f"{fparam}.filter_statement_2 is not None")
        sites = _logic_sites(fi, fl)
        if not sites:
            raise AnalysisError(f"C13: {fi.short()} no longer combines two verdicts with and/or")

        def op_text(e) -> bool:
            """str(<filter>.logical_operator) - optionally `or <vocabulary literal>` as default"""
            if not (isinstance(e, ast.Call) and dotted(e.func) == "str" and len(e.args) == 1 and not e.keywords):
                return False
            x = e.args[0]
            if isinstance(x, ast.BoolOp) and isinstance(x.op, ast.Or) and len(x.values) == 2 and isinstance(x.values[1], ast.Constant) \
                    and x.values[1].value in lit.values():
                x = x.values[0]
            return sem.same(x, f"{fparam}.logical_operator")

        def decide(node):
            """which vocabulary literal selects `node`: ('and'|'or'|None, foreign tests)"""
            pos, negs, foreign = set(), set(), []
            for ft in fl.state_at(node).facts:
                if ft.kind != "cond" or "logical_operator" not in ft.xkey:
                    continue
                for xn, pol in cond_atoms(ft.xnode, ft.pol):
                    if "logical_operator" not in unparse(xn):
                        continue
                    key = None
                    if isinstance(xn, ast.Compare) and len(xn.ops) == 1 and isinstance(xn.ops[0], ast.Eq):
                        for c_, o_ in ((xn.left, xn.comparators[0]), (xn.comparators[0], xn.left)):
                            if isinstance(c_, ast.Constant) and isinstance(c_.value, str) and op_text(o_):
                                key = [k for k, v in lit.items() if v == c_.value]
                    if not key:
                        foreign.append(f"{'' if pol else 'not '}{short(xn)}")
                    else:
                        (pos if pol else negs).add(key[0])
            if len(pos) == 1:
                return next(iter(pos)), foreign
            if not pos and len(negs) == 1:
                return ("or" if negs == {"and"} else "and"), foreign
            return None, foreign

        seen, lit_ok, comb_ok, why = set(), True, True, []
        for node, opk in sites:
            decided, foreign = decide(node)
            if decided is None or foreign:
                lit_ok = False
                why.append(f"line {node.lineno}: `{short(node)}` is selected by {foreign or 'no test of the logical operator'}")
                continue
            seen.add(opk)
            if decided != opk:
                comb_ok = False
                why.append(f"line {node.lineno}: the '{decided}' case combines with `{opk}`")
        if seen != {"and", "or"} and lit_ok and comb_ok:
            comb_ok = False
            why.append(f"only {sorted(seen)} combinations exist")
        ctx.ob("C13.ops", fi.short(), "logical-literals", lit_ok,
               f"every combination of two verdicts is selected by comparing str(logical_operator) with {sorted(v for v in lit.values() if v)}"
               if lit_ok else "; ".join(why), fi.loc)
        ctx.ob("C13.ops", fi.short(), "and->and,or->or", lit_ok and comb_ok,
               "'and' combines with and/&, 'or' with or/|" if lit_ok and comb_ok else "; ".join(why), fi.loc)
        # what is combined: the verdict of statement 1 with the verdict of statement 2
        evaluator = cls_.methods["_statement_holds"] if cls_ is db else fi
        obj_loops = [x for x in fi.node.body if isinstance(x, ast.For) and isinstance(x.target, ast.Name)] if cls_ is db else []

        def verdict_class(e, at):
            """'1' / '2' when `e` is the evaluation of filter_statement_1 / _2 of this filter (on the current object)"""
            if not (isinstance(e, ast.Call) and len(targets(P, fi, e)) == 1 and targets(P, fi, e)[0] is evaluator):
                return None
            bd = bind(evaluator, e)
            if bd is None or len(evaluator.params) != 3:
                return None
            subject, stmt = bd.get(evaluator.params[1]), bd.get(evaluator.params[2])
            if cls_ is db:
                own = [lp for lp in obj_loops if inside(at, lp)]
                if len(own) != 1 or not is_name(subject, own[0].target.id):
                    return None
            elif not is_name(subject, fi.params[1]):
                return None
            if isinstance(stmt, ast.Attribute) and is_name(stmt.value, fparam) and stmt.attr in ("filter_statement_1", "filter_statement_2"):
                return stmt.attr[-1]
            return None

        def combination(e, at) -> bool:
            """e == <verdict 1> op <verdict 2> (either order)"""
            ops_ = e.values if isinstance(e, ast.BoolOp) else [e.left, e.right] if isinstance(e, ast.BinOp) else []
            return len(ops_) == 2 and {verdict_class(x, at) for x in ops_} == {"1", "2"}

        decided, undecided, both = set(), [], True
        for node, opk in sites:
            st_ = fl.state_at(node)
            if isinstance(node, ast.AugAssign):
                load = copy_load(node.target)
                operands = [load, node.value]
            else:
                operands = node.values if isinstance(node, ast.BoolOp) else [node.left, node.right]
            classes = []
            for x in operands:
                classes.append({verdict_class(a, node) for a in fl.alternatives(x, st_)})
            if any(None in c for c in classes):
                undecided.append(node.lineno)
                continue
            decided.add(opk)
            if len(operands) != 2 or any(len(c) != 1 for c in classes) or set().union(*classes) != {"1", "2"}:
                both = False
                why.append(f"line {node.lineno}: `{short(node)}` does not combine the verdicts of filter_statement_1 and filter_statement_2")
        if undecided:
            ctx.note(f"C13.ops both-statements: combination(s) at line(s) {undecided} of {fi.short()} accumulate over a sequence of statements "
                     "(operands not resolvable to the two statement slots) - selection by literal is decided, operands are not")
        ctx.ob("C13.ops", fi.short(), "both-statements", both and decided == {"and", "or"},
               "each resolvable combination takes the verdict of filter_statement_1 and the verdict of filter_statement_2 (on the same object / query)"
               if both and decided == {"and", "or"} else "; ".join(why) or f"only {sorted(decided)} combinations are resolvable", fi.loc)
        if cls_ is db:
            # an object is kept iff its verdict (single statement, or the combination) is true
            info = accumulate_loop(fi, fl)
            kept, ktext = False, "shape not recognised"
            if info is not None:
                g = new_guards(fl, info["append"], info["loop"])
                kept = bool(g)
                for xn, pol, ft in g:
                    alts = [b for a in fl.alternatives(ft.node, fl.state_at(info["append"])) for b in arms(a)]
                    good = pol and bool(alts) and all(verdict_class(a, info["append"]) == "1" or combination(a, info["append"]) for a in alts)
                    kept = kept and good
                ktext = f"an object is kept under {[('' if pol else 'not ') + short(xn) for xn, pol, _ in g]}"
            ctx.ob("C13.ops", fi.short(), "kept-iff-verdict", kept,
                   "an object is kept exactly when its verdict holds" if kept else f"_filter_data: {ktext}", fi.loc)
            # the combination happens exactly when there is a second statement (no further narrowing)
            narrow = []
            for node, opk in sites:
                loop = [x for x in ast.walk(fi.node) if isinstance(x, ast.For) and inside(node, x)]
                base = loop[0] if loop else fi.node.body[0]
                extra = set()
                for xn, pol, ft in new_guards(fl, node, base):
                    extra |= set(sem.atoms(xn, pol))
                extra = {a for a in extra if "logical_operator" not in a}
                if not set(st2) <= sem.facts(fl, node) or extra - set(st2):
                    narrow.append(f"line {node.lineno}: guarded by {sorted(extra)}")
            ctx.ob("C13.ops", fi.short(), "combined-iff-second-statement", not narrow,
                   "the two verdicts are combined exactly when filter_statement_2 is present" if not narrow else "; ".join(narrow), fi.loc)


# ---------------------------------------------------------------- how the operator function is applied
def check_application(ctx, P, mod, db, tdb):
    opm = mod.consts["OPERATOR_MAPPING"]

    def is_opm(fi, n) -> bool:
        if not isinstance(n, ast.Name):
            return False
        r = P.resolve_name(fi.module, sem.cx(n))
        return isinstance(r, tuple) and r[0] == "const" and r[2] is opm and sem.cx(n) not in FunctionFlow.assigned_names(fi.node.body)

    def lookup_key(fi, f):
        """f == OPERATOR_MAPPING[k] or OPERATOR_MAPPING.get(k[, None]) -> k"""
        if isinstance(f, ast.Subscript) and is_opm(fi, f.value):
            return f.slice
        if isinstance(f, ast.Call) and isinstance(f.func, ast.Attribute) and f.func.attr == "get" and is_opm(fi, f.func.value) and not f.keywords \
                and (len(f.args) == 1 or (len(f.args) == 2 and isinstance(f.args[1], ast.Constant) and f.args[1].value is None)):
            return f.args[0]
        return None

    spec = ((db, "_create_query_search", "_get_nested", "_filter_data"),
            (tdb, "create_query_search", "_create_query_from_filter_statement", "_build_filter_condition"))
    for cls_, lname, resolver, anchor in spec:
        L = cls_.methods[lname]
        fl = ctx.flows.get(L)
        if len(L.params) != 4:
            raise AnalysisError(f"C13: {L.short()} no longer takes (value, operator, reference)")
        p_val, p_op, p_ref = L.params[1:4]
        rebound = FunctionFlow.assigned_names(L.node.body) & {p_val, p_op, p_ref}
        n_ok, bad = 0, []
        for k, s, st in fl.exits:
            if k == "raise":
                continue
            if k != "return" or s.value is None:
                bad.append("falls off / returns nothing")
                continue
            shapes = fl.alternatives(s.value, st)
            for v in shapes:
                key = lookup_key(L, v.func) if isinstance(v, ast.Call) else None
                if key is None or not is_name(key, p_op):
                    bad.append(f"returns `{short(v)}`")
                elif v.keywords or len(v.args) != 2 or not is_name(v.args[0], p_val) or not is_name(v.args[1], p_ref):
                    bad.append(f"applies the operator function to ({', '.join(short(a) for a in v.args)})")
                else:
                    n_ok += 1
        ok = n_ok >= 1 and not bad and not rebound
        ctx.ob("C13.ops", L.short(), "operand-order", ok,
               f"the function looked up under `{p_op}` is applied to ({p_val}, {p_ref}): attribute value left, reference value right" if ok else
               f"{'; '.join(bad) or 'parameters re-bound'} (must be OPERATOR_MAPPING[{p_op}]({p_val}, {p_ref}))", L.loc)
        # call sites: operator, attribute and reference of ONE statement
        A = cls_.methods[anchor]
        R = cls_.methods[resolver]
        sites = [(f, c) for f in cls_.methods.values() for c in P.calls_in(f) if calls_to(P, f, c, L.qual)]
        if not sites:
            raise AnalysisError(f"C13: no call of {L.short()} inside {cls_.name}")
        op_ok, from_ok, why = True, True, []
        for f, c in sites:
            flf = ctx.flows.get(f)
            bd = bind(L, c)
            if bd is None or not {p_val, p_op, p_ref} <= set(bd):
                op_ok = from_ok = False
                why.append(f"{f.name}:{c.lineno} arguments not statically bound")
                continue
            st = flf.state_at(c)
            o = flf.expand(bd[p_op], st)
            r = flf.expand(bd[p_ref], st)
            stmt = None
            if isinstance(o, ast.Call) and dotted(o.func) == "str" and len(o.args) == 1 and not o.keywords and \
                    isinstance(o.args[0], ast.Attribute) and o.args[0].attr == "operator":
                stmt = o.args[0].value
            else:
                op_ok = False
                why.append(f"{f.name}:{c.lineno} operator key is `{short(o)}` (must be str(<statement>.operator))")
            if stmt is None:
                from_ok = False
                continue
            sx = sem.cx(stmt)
            good = isinstance(r, ast.Attribute) and r.attr == "ref_value" and sem.cx(r.value) == sx
            vals = flf.alternatives(bd[p_val], st)
            for v in vals:
                g = False
                if isinstance(v, ast.Call) and calls_to(P, f, v, R.qual):
                    b2 = bind(R, v)
                    if b2 is not None and len(R.params) == 3:
                        path = b2.get(R.params[2])
                        if isinstance(path, ast.Call) and dotted(path.func) == "str" and len(path.args) == 1 and not path.keywords:
                            path = path.args[0]
                        g = isinstance(path, ast.Attribute) and path.attr == "attribute" and sem.cx(path.value) == sx and \
                            isinstance(b2.get(R.params[1]), ast.Name) and sem.cx(b2[R.params[1]]) in f.params
                good = good and g
            # the statement is a parameter of the site's function or a statement slot of its filter parameter
            head = stmt
            while isinstance(head, ast.Attribute):
                head = head.value
            good = good and isinstance(head, ast.Name) and sem.cx(head) in f.params
            if not good:
                from_ok = False
                why.append(f"{f.name}:{c.lineno} compares `{short(vals[0]) if vals else '?'}` with `{short(r)}` under `{short(o)}`")
        ctx.ob("C13.ops", A.short(), "operator-string", op_ok,
               f"{cls_.name} looks the operator function up by str(operator)" if op_ok else "; ".join(why), A.loc)
        ctx.ob("C13.ops", A.short(), "one-statement", from_ok,
               "attribute path, operator and reference value are taken from the same filter statement" if from_ok else "; ".join(why), A.loc)
    # the in-memory verdict of a statement is the truth value of the operator function's result
    sh = [(f, c) for f in db.methods.values() for c in P.calls_in(f) if calls_to(P, f, c, db.methods["_create_query_search"].qual)]
    for f, c in sh:
        flf = ctx.flows.get(f)
        bad = []
        for k, s, st in flf.exits:
            if k != "return" or s.value is None:
                continue
            v = flf.expand(s.value, st)
            if falsy_const(v) and any(kk == "handler" for _, kk in flf.enclosing_handlers(s)):
                continue
            while isinstance(v, ast.Call) and dotted(v.func) == "bool" and len(v.args) == 1 and not v.keywords:
                v = v.args[0]
            if not (isinstance(v, ast.Call) and calls_to(P, f, v, db.methods["_create_query_search"].qual) and sem.cx(v) == sem.cx(flf.expand(c, flf.state_at(c)))):
                bad.append(f"line {s.lineno}: returns `{short(v)}`")
        ctx.ob("C13.ops", f.short(), "verdict", not bad, "a statement's verdict is the truth value of the operator function's result" if not bad
               else "; ".join(bad), f.loc)


# ---------------------------------------------------------------- attribute path root
def _seq_of(P, mod, e):
    """Abstract element list of a sequence expression: ('lit', s) / ('split', name, sep)."""
    if isinstance(e, (ast.List, ast.Tuple)):
        out = []
        for x in e.elts:
            if isinstance(x, ast.Starred):
                sub = _seq_of(P, mod, x.value)
                if sub is None:
                    return None
                out += sub
            else:
                s = const_str(P, mod, x)
                if s is None:
                    return None
                out.append(("lit", s))
        return out
    if isinstance(e, ast.BinOp) and isinstance(e.op, ast.Add):
        a, b = _seq_of(P, mod, e.left), _seq_of(P, mod, e.right)
        return None if a is None or b is None else a + b
    if isinstance(e, ast.Call) and dotted(e.func) in ("list", "tuple") and len(e.args) == 1 and not e.keywords:
        return _seq_of(P, mod, e.args[0])
    if isinstance(e, ast.Call) and isinstance(e.func, ast.Attribute) and e.func.attr == "split" and isinstance(e.func.value, ast.Name) \
            and len(e.args) == 1 and not e.keywords and const_str(P, mod, e.args[0]) is not None:
        return [("split", sem.cx(e.func.value), const_str(P, mod, e.args[0]))]
    return None


def _nav_steps(P, fi, fl):
    """Steps by which `fi(self, data, path)` descends from its `data` argument: straight-line code of
    data = data[<lit>] / data = getattr(data, <lit>) / for k in <seq>: data = <step by k> / return data."""
    if len(fi.params) != 3:
        return None
    data, path = fi.params[1], fi.params[2]

    def step_of(s):
        """s: `data = data[K]` or `data = getattr(data, K)` -> K"""
        if not (isinstance(s, ast.Assign) and len(s.targets) == 1 and is_name(s.targets[0], data)):
            return None
        v = s.value
        if isinstance(v, ast.Subscript) and is_name(v.value, data):
            return v.slice
        if isinstance(v, ast.Call) and dotted(v.func) == "getattr" and len(v.args) == 2 and not v.keywords and is_name(v.args[0], data):
            return v.args[1]
        return None

    steps = []
    body = [b for b in fi.node.body if not (isinstance(b, ast.Expr) and isinstance(b.value, ast.Constant))]
    for i, s in enumerate(body):
        if isinstance(s, ast.Return):
            return steps if i == len(body) - 1 and is_name(s.value, data) else None
        if isinstance(s, ast.For):
            if s.orelse or len(s.body) != 1 or not isinstance(s.target, ast.Name):
                return None
            k = step_of(s.body[0])
            if k is None or not is_name(k, s.target.id) or s.target.id in (data, path):
                return None
            seq = _seq_of(P, fi.module, fl.expand(s.iter, fl.state_at(s)))
            if seq is None:
                return None
            steps += [(t[0], "PATH" if t[0] == "split" and t[1] == path else t[1], *t[2:]) for t in seq]
            continue
        k = step_of(s)
        if k is not None:
            lit = const_str(P, fi.module, k)
            if lit is None:
                return None
            steps.append(("lit", lit))
            continue
        if isinstance(s, (ast.Assign, ast.AnnAssign)):
            tg = s.targets if isinstance(s, ast.Assign) else [s.target]
            if all(isinstance(t, ast.Name) and t.id not in (data, path) for t in tg):
                continue   # a local, resolved through the flow where it is used
        return None
    return None


def check_path_root(ctx, P, db, tdb):
    gn = db.methods["_get_nested"]
    cq = tdb.methods["_create_query_from_filter_statement"]
    mem = _nav_steps(P, gn, ctx.flows.get(gn))
    tin = _nav_steps(P, cq, ctx.flows.get(cq))
    ok = mem is not None and mem == tin
    ctx.ob("C13.path-root", "both-back-ends", "same-root", ok,
           f"both back-ends descend by {mem}" if ok else
           f"in-memory back-end descends by {mem if mem is not None else '<shape not recognised>'}, TinyDB by "
           f"{tin if tin is not None else '<shape not recognised>'}: the same filter selects different objects (a path such as "
           "'cam.camParameters...' matches only on one back-end)", gn.loc)


# ---------------------------------------------------------------- an object lacking the attribute does not match
def _nonmatch_catch(P, fi, fl, site):
    """The innermost try around `site` whose first KeyError-covering handler turns the failure into a non-match.
    -> (decided: bool, text)"""
    chain = [t for t, kk in fl.enclosing_handlers(site) if kk == "body"]
    for t in reversed(chain):
        hs = [h for h in t.handlers if covers_keyerror(h)]
        if not hs:
            continue
        h = hs[0]
        # (a) the handler leaves the function with a falsy constant
        if terminates(h.body):
            outs = [(k, s) for k, s, st in fl.exits if s is not None and inside(s, h)]
            conts = [n for b in h.body for n in ast.walk(b) if isinstance(n, (ast.Continue, ast.Break))]
            if outs and not conts and all(k == "return" and falsy_const(s.value) for k, s in outs):
                return True, f"`except {short(h.type) if h.type else ''}` -> non-match"
            return False, f"the handler at line {h.lineno} does not yield a non-match (it yields " \
                          f"{[short(s.value) if k == 'return' and s.value is not None else k for k, s in outs] or 'continue/break'})"
        # (b) try: v = <evaluation> / except: v = <falsy>
        if len(t.body) == 1 and isinstance(t.body[0], ast.Assign) and len(t.body[0].targets) == 1 and isinstance(t.body[0].targets[0], ast.Name) \
                and len(h.body) == 1 and isinstance(h.body[0], ast.Assign) and len(h.body[0].targets) == 1 and \
                is_name(h.body[0].targets[0], t.body[0].targets[0].id) and falsy_const(h.body[0].value) and not t.orelse and not t.finalbody:
            return True, "the handler records a non-match"
        return False, f"the handler at line {h.lineno} neither returns nor records a non-match"
    return None, "not caught here"


def check_missing_attr(ctx, P, db):
    s = db.methods["search"]
    fd = db.methods["_filter_data"]
    gn = db.methods["_get_nested"]
    fl_fd = ctx.flows.get(fd)
    loops = [n for n in fd.node.body if isinstance(n, ast.For)]
    if len(loops) != 1:
        raise AnalysisError("C13: _filter_data no longer scans the stored objects in one loop")
    loop = loops[0]
    sites = [(f, c) for f in db.methods.values() for c in P.calls_in(f) if calls_to(P, f, c, gn.qual)]
    if not sites:
        raise AnalysisError("C13: no use of DictionaryDataBase._get_nested left")
    ok, why = True, []

    def per_object(f, node, depth=0) -> bool:
        """Is a KeyError raised at `node` (inside f) turned into a non-match of the ONE object being evaluated?"""
        flf = ctx.flows.get(f)
        dec, text = _nonmatch_catch(P, f, flf, node)
        if dec is not None:
            if not dec:
                why.append(f"{f.name}: {text}")
            return bool(dec)
        if f is fd:
            why.append(f"{f.name}:{getattr(node, 'lineno', 0)}: a KeyError escapes the loop over the stored objects - one object "
                       "lacking the attribute aborts the whole scan")
            return False
        if depth > 3:
            return False
        callers = [(g, c) for g in db.methods.values() for c in P.calls_in(g) if calls_to(P, g, c, f.qual)]
        if not callers:
            why.append(f"{f.name}: never called")
            return False
        return all(per_object(g, c, depth + 1) for g, c in callers)

    for f, c in sites:
        ok = per_object(f, c) and ok
    # the per-object evaluation really happens per object: inside the loop, on the loop variable
    ev = set()
    for f, c in sites:
        ev.add(f.qual)
    for q in sorted(ev):
        f = P.funcs[q]
        if f is fd:
            continue
        for g in db.methods.values():
            for c in P.calls_in(g):
                if calls_to(P, g, c, f.qual):
                    if not (g is fd and inside(c, loop) and c.args and isinstance(loop.target, ast.Name) and is_name(c.args[0], loop.target.id)):
                        ok = False
                        why.append(f"{g.name}:{c.lineno}: {f.name} is not applied to the object of the current iteration")
    ctx.ob("C13.missing-attr", s.short(), "per-object", ok,
           "a missing attribute (KeyError while descending) is caught per object and counts as a non-match" if ok else "; ".join(dict.fromkeys(why)), s.loc)


# ---------------------------------------------------------------- type selection
def check_types(ctx, P, db, tdb):
    req = P.cls(REQ)
    fo = req.methods["filter_out_by_data_object_type"]
    got = req.methods["get_object_type_from_data_object"]
    fd = db.methods["_filter_data"]
    sdc = P.func(f"{LDM}.ldm_maintenance.LDMMaintenance.search_data_containers")
    osr = P.func(f"{SV}.order_search_results")

    def typed(fi, e, reqp) -> bool:
        """`e` (locals expanded) holds only objects of the types requested by `reqp`."""
        e = unwrap_seq(e)
        if not isinstance(e, ast.Call):
            return False
        tg = targets(P, fi, e)
        if len(tg) != 1:
            return False
        bd = bind(tg[0], e)
        if bd is None:
            return False
        if tg[0] is fo:
            return len(fo.params) == 2 and sem.same(bd.get(fo.params[1], ast.Constant(None)), f"{reqp}.data_object_type")
        if tg[0] is fd:
            return typed(fi, bd.get(fd.params[2], ast.Constant(None)), reqp)        # a subset of its candidates (own obligation)
        if tg[0] is sdc:
            return is_name(bd.get(sdc.params[1]), reqp)                              # delegates to the back-end search (own obligation)
        return False

    for cls_ in (db, tdb):
        m = cls_.methods["search"]
        fl = ctx.flows.get(m)
        reqp = m.params[1]
        for k, st_, st in fl.exits:
            if k != "return":
                continue
            x = fl.expand(st_.value, st) if st_.value is not None else ast.Constant(None)
            in_handler = any(kk == "handler" for _, kk in fl.enclosing_handlers(st_))
            ux = unwrap_seq(x)
            if in_handler and ((isinstance(ux, ast.Tuple) and not ux.elts) or (isinstance(ux, ast.Call) and dotted(ux.func) in ("tuple", "list") and not ux.args)):
                continue
            ok = all(typed(m, a, reqp) for a in fl.alternatives(st_.value, st)) and reqp not in FunctionFlow.assigned_names(m.node.body)
            ctx.ob("C13.types-always", m.short(), f"return@{st_.lineno - m.node.lineno}", ok,
                   "result restricted to the requested data object types" if ok else
                   f"a search result is returned without type selection: `{short(x)}`", f"{m.module.rel}:{st_.lineno}")
    # the selecting helper keeps exactly the objects whose type is among the requested ones
    flo = ctx.flows.get(fo)

    def type_test(fi, node, pol, var, typesp) -> bool:
        if not (pol and isinstance(node, ast.Compare) and len(node.ops) == 1 and isinstance(node.ops[0], ast.In)):
            return False
        l, r = node.left, node.comparators[0]
        if not (is_name(r, typesp) and isinstance(l, ast.Call) and calls_to(P, fi, l, got.qual)):
            return False
        bd = bind(got, l)
        a = bd.get(got.params[0]) if bd else None
        return isinstance(a, ast.Subscript) and is_name(a.value, var) and const_str(P, fi.module, a.slice) == "dataObject"

    keeps, text = False, "shape not recognised (accumulating loop or comprehension over the first argument)"
    if len(fo.params) == 2 and not (set(fo.params) & FunctionFlow.assigned_names(fo.node.body)):
        srcp, typesp = fo.params
        info = accumulate_loop(fo, flo)
        if info is not None and is_name(info["iter"], srcp):
            g = new_guards(flo, info["append"], info["loop"])
            hit = [(n, p) for n, p, _ in g if type_test(fo, n, p, info["var"], typesp)]
            allowed = set()
            for n, p in hit:
                allowed |= set(sem.atoms(n, p))
            have = set()
            for n, p, _ in g:
                have |= set(sem.atoms(n, p))
            keeps = bool(hit) and have <= allowed
            text = f"an object is kept under {sorted(have)}"
        else:
            rets = [(s_, st) for k, s_, st in flo.exits if k == "return"]
            if len(rets) == 1 and not any(k == "fall" for k, _, _ in flo.exits) and rets[0][0].value is not None:
                c = unwrap_seq(flo.expand(rets[0][0].value, rets[0][1]))
                if isinstance(c, (ast.ListComp, ast.GeneratorExp)) and len(c.generators) == 1 and not c.generators[0].is_async:
                    gen = c.generators[0]
                    if isinstance(gen.target, ast.Name) and is_name(gen.iter, srcp) and is_name(c.elt, gen.target.id) and gen.ifs:
                        at = []
                        for t in gen.ifs:
                            at += cond_atoms(t, True)
                        keeps = all(type_test(fo, n, p, gen.target.id, typesp) for n, p in at)
                        text = f"an object is kept under {[short(t) for t in gen.ifs]}"
    ctx.ob("C13.types-always", fo.short(), "keeps-requested-types", keeps,
           "the helper keeps, in order, exactly the objects whose type is among the requested types" if keeps else
           f"filter_out_by_data_object_type does not keep exactly the objects of the requested types: {text}", fo.loc)
    # _filter_data returns a sub-sequence of its candidates
    ffd = ctx.flows.get(fd)
    info = accumulate_loop(fd, ffd)
    sub = info is not None and is_name(info["iter"], fd.params[2])
    ctx.ob("C13.types-always", fd.short(), "subset-of-candidates", sub,
           "the filtered result consists of objects of the (typed) candidate sequence only" if sub else
           "_filter_data no longer returns a sub-sequence of its `database` argument (shape not recognised)", fd.loc)
    # LDMMaintenance.search_data_containers delegates to the back-end search
    fls = ctx.flows.get(sdc)
    dele = []
    for k, s_, st in fls.exits:
        v = fls.expand(s_.value, st) if k == "return" and s_.value is not None else None
        good = isinstance(v, ast.Call) and isinstance(v.func, ast.Attribute) and v.func.attr == "search" and \
            sem.same(v.func.value, "self.data_containers") and len(v.args) == 1 and not v.keywords and is_name(v.args[0], sdc.params[1])
        dele.append(good)
    ctx.ob("C13.types-always", sdc.short(), "delegates-to-back-end", bool(dele) and all(dele),
           "the filtered query path is the back-end search of the same request", sdc.loc)
    # LDMService.query
    q = P.func(f"{SV}.query")
    fl = ctx.flows.get(q)
    reqp = q.params[1]
    n = 0
    for k, s_, st in fl.exits:
        if k != "return":
            continue
        if any(kk == "handler" for _, kk in fl.enclosing_handlers(s_)) and isinstance(s_.value, ast.Tuple) and not s_.value.elts:
            continue
        seen = set()
        for alt in (fl.alternatives(s_.value, st) if s_.value is not None else [ast.Constant(None)]):
            x = alt
            if isinstance(x, ast.Call) and calls_to(P, q, x, osr.qual):
                bd = bind(osr, x)
                x = bd.get(osr.params[1]) if bd else None                  # ordering permutes its input (C13.order)
            elif isinstance(x, ast.Tuple) and len(x.elts) == 1:
                x = x.elts[0]
            else:
                x = None
            key = sem.cx(x) if x is not None else sem.cx(alt)
            if key in seen:
                continue
            seen.add(key)
            src = [c.func.attr for c in ast.walk(x if x is not None else alt) if isinstance(c, ast.Call) and isinstance(c.func, ast.Attribute)
                   and c.func.attr in ("get_all_data_containers", "search_data_containers", "search", "all")]
            ok = x is not None and typed(q, x, reqp) and reqp not in FunctionFlow.assigned_names(q.node.body)
            n += 1
            ctx.ob("C13.types-always", q.short(), src[0] if src else f"result-{n}", ok,
                   "query result restricted to the requested types" if ok else
                   f"LDMService.query returns `{short(alt, 120)}`: objects of every stored type, whatever data_object_type was requested",
                   f"{q.module.rel}:{s_.lineno}")
    if n == 0:
        raise AnalysisError("C13: LDMService.query has no result-returning path left")


# ---------------------------------------------------------------- ordering
def check_order(ctx, P):
    o = P.func(f"{SV}.order_search_results")
    fl = ctx.flows.get(o)
    if len(o.params) != 3:
        raise AnalysisError("C13: order_search_results no longer takes (search_results, orders)")
    resp, ordp = o.params[1], o.params[2]
    utils = P.cls(f"{LDM}.ldm_classes.Utils")
    gn, fa = utils.methods["get_nested"], utils.methods["find_attribute"]
    od = P.cls(f"{LDM}.ldm_classes.OrderingDirection")
    stable = not ({resp, ordp} & FunctionFlow.assigned_names(o.node.body))

    def over_orders(g):
        """comprehension with the single clause `for v in orders` -> v"""
        if isinstance(g, (ast.GeneratorExp, ast.ListComp)) and len(g.generators) == 1:
            c = g.generators[0]
            if not c.ifs and not c.is_async and isinstance(c.target, ast.Name) and is_name(c.iter, ordp) and c.target.id != ordp:
                return c.target.id
        return None

    def key_ok(k) -> tuple:
        """key function: item -> tuple(get_nested(item, find_attribute(v.attribute, item)) for v in orders)"""
        if isinstance(k, ast.Lambda):
            owner, args, rets = o, k.args, [k.body]
        elif isinstance(k, ast.Name):
            nf = [f for f in P.funcs.values() if f.parent is o and f.name == sem.cx(k)]
            if len(nf) != 1 or sum(1 for n in ast.walk(o.node) if isinstance(n, ast.Name) and n.id == nf[0].name and isinstance(n.ctx, ast.Store)):
                return False, f"key `{short(k)}` is not a function defined once in order_search_results"
            owner, args = nf[0], nf[0].node.args
            flk = ctx.flows.get(owner)
            if any(kk != "return" or s.value is None for kk, s, st in flk.exits):
                return False, "key function does not always return a key"
            rets = [flk.expand(s.value, st) for kk, s, st in flk.exits]
            if {ordp} & (FunctionFlow.assigned_names(owner.node.body) | {a.arg for a in args.args}):
                return False, f"`{ordp}` is re-bound inside the key function"
        else:
            return False, f"key `{short(k)}` is neither a lambda nor a local function"
        if len(args.args) != 1 or args.vararg or args.kwarg or args.kwonlyargs or args.posonlyargs:
            return False, "key function does not take exactly one item"
        item = args.args[0].arg
        for r in rets:
            g = r.args[0] if isinstance(r, ast.Call) and dotted(r.func) in ("tuple", "list") and len(r.args) == 1 and not r.keywords else r
            v = over_orders(g)
            if v is None or v == item:
                return False, f"key `{short(r)}` is not built from one element per entry of `{ordp}`"
            e = g.elt
            if not (isinstance(e, ast.Call) and calls_to(P, owner, e, gn.qual)):
                return False, f"key element `{short(e)}` is not Utils.get_nested(...)"
            b1 = bind(gn, e) or {}
            pth = b1.get(gn.params[1])
            if not (is_name(b1.get(gn.params[0]), item) and isinstance(pth, ast.Call) and calls_to(P, owner, pth, fa.qual)):
                return False, f"key element `{short(e)}` does not look the attribute up in the compared item"
            b2 = bind(fa, pth) or {}
            if not (sem.same(b2.get(fa.params[0], ast.Constant(None)), f"{v}.attribute") and is_name(b2.get(fa.params[1]), item)):
                return False, f"key element `{short(e)}` does not use the requested attribute of each order entry on the compared item"
        return True, ""

    def direction_ok(r) -> tuple:
        """reverse = any(v.ordering_direction == DESCENDING for v in orders)"""
        if not (isinstance(r, ast.Call) and dotted(r.func) == "any" and len(r.args) == 1 and not r.keywords):
            return False, f"reverse=`{short(r)}`"
        v = over_orders(r.args[0])
        if v is None:
            return False, f"reverse=`{short(r)}` does not range over every entry of `{ordp}`"
        e, pol = r.args[0].elt, True
        while isinstance(e, ast.UnaryOp) and isinstance(e.op, ast.Not):
            e, pol = e.operand, not pol
        if not (isinstance(e, ast.Compare) and len(e.ops) == 1 and isinstance(e.ops[0], (ast.Eq, ast.NotEq, ast.Is, ast.IsNot))):
            return False, f"reverse test `{short(e)}`"
        if isinstance(e.ops[0], (ast.NotEq, ast.IsNot)):
            pol = not pol
        sides = [e.left, e.comparators[0]]
        attr = [x for x in sides if sem.same(x, f"{v}.ordering_direction")]
        ent = [P.resolve_expr_entity(o.module, x) for x in sides if not sem.same(x, f"{v}.ordering_direction")]
        if len(attr) != 1 or len(ent) != 1 or not (isinstance(ent[0], tuple) and ent[0][0] == "enum" and ent[0][1] is od):
            return False, f"reverse test `{short(e)}` does not compare the entry's ordering_direction with an OrderingDirection member"
        member = ent[0][2]
        good = (pol and member == "DESCENDING") or (not pol and member == "ASCENDING" and set(od.enum_members) == {"ASCENDING", "DESCENDING"})
        return good, "" if good else f"reverse is true for entries that are {'' if pol else 'not '}{member}"

    n_sorted, k_why, d_why, shape = 0, [], [], []
    for kk, s, st in fl.exits:
        if kk == "raise":
            continue
        v = fl.expand(s.value, st) if kk == "return" and s.value is not None else None
        if not (isinstance(v, ast.Tuple) and len(v.elts) == 1):
            shape.append(f"returns `{short(v) if v is not None else None}` (must be a 1-tuple of the ordered sequence)")
            continue
        x = unwrap_seq(v.elts[0])
        if isinstance(x, ast.Call) and dotted(x.func) == "sorted" and len(x.args) == 1 and {k.arg for k in x.keywords} <= {"key", "reverse"}:
            n_sorted += 1
            kw = {k.arg: k.value for k in x.keywords}
            if not is_name(x.args[0], resp):
                shape.append(f"sorts `{short(x.args[0])}` instead of `{resp}`")
            g, t = key_ok(kw["key"]) if "key" in kw else (False, "no sort key")
            if not g:
                k_why.append(t)
            g, t = direction_ok(kw["reverse"]) if "reverse" in kw else (False, "no `reverse`: the requested direction is ignored")
            if not g:
                d_why.append(t)
        elif (is_name(x, resp) or (isinstance(x, ast.Tuple) and not x.elts)) and sem.holds(sem.facts_of_state(st), resp, False):
            continue    # nothing to order
        else:
            shape.append(f"returns `{short(v)}`")
    if not n_sorted:
        shape.append("no sorted(...) result")
    kok = stable and not shape and not k_why
    ctx.ob("C13.order", o.short(), "keys-from-request", kok,
           "sort key = every requested attribute, looked up in the compared item, in request order" if kok else
           "; ".join(shape + k_why) or "parameters re-bound", o.loc)
    dok = stable and not shape and not d_why
    ctx.ob("C13.order", o.short(), "direction", dok, "direction from ordering_direction (descending iff any entry asks for it)" if dok else
           "; ".join(shape + d_why) or "parameters re-bound", o.loc)
