"""C13 - LDM queries return exactly the matching objects, identically on both back-ends.

Decides: agreement of the operator vocabulary between its three holders (enum __str__ tables, OPERATOR_MAPPING, the
literals the back-ends test); that each operator entry implements its own symbol; that both back-ends resolve a dotted
attribute path from the same root; that a missing attribute is handled per object; that type selection applies on every
query path; that ordering uses the requested attributes and direction.
Does not decide equivalence with a predicate evaluator over generated stores, nor TinyDB's own semantics.
"""
from __future__ import annotations

import ast
import re

from ..prog import AnalysisError, ClassInfo, FuncInfo, dotted, unparse
from ..match import pretty

PROP = "C13"
LDM = "facilities.local_dynamic_map"
DB = f"{LDM}.dictionary_database.DictionaryDataBase"
TDB = f"{LDM}.tinydb_database.TinyDB"
SV = f"{LDM}.ldm_service.LDMService"


def norm(s):
    return re.sub(r"\s+", "", s)


def str_table(P, ci) -> dict:
    """{member: string} from `def __str__: return {Cls.X: "..."}[self]`."""
    m = ci.methods.get("__str__")
    out = {}
    if m is None:
        return out
    for n in ast.walk(m.node):
        if isinstance(n, ast.Dict):
            for k, v in zip(n.keys, n.values):
                if isinstance(v, ast.Constant) and isinstance(v.value, str):
                    out[(dotted(k) or "").split(".")[-1]] = v.value
    return out


CMP = {ast.Eq: "==", ast.NotEq: "!=", ast.Gt: ">", ast.Lt: "<", ast.GtE: ">=", ast.LtE: "<="}


def run(ctx):
    P = ctx.prog
    ctx.explanation = (
        "Table rules (K11) and sibling rules (K8). The operator vocabulary is read from three places - the __str__ tables "
        "of ComparisonOperators / LogicalOperators, the keys and lambdas of OPERATOR_MAPPING, and the string literals the "
        "two back-ends compare against - and must agree; every lambda must implement the comparison its key names. The "
        "two search implementations are compared on how they root the attribute path, how they treat objects lacking the "
        "attribute, and whether type selection is applied on every path; LDMService.query is checked the same way. These "
        "are agreements between code sites, valid for every filter and store.")
    ctx.declined = ["equivalence with a predicate evaluator over generated stores", "TinyDB query semantics",
                    "comparison of values of different types"]
    mod = P.module(f"{LDM}.ldm_constants")
    cmp_cls = P.cls(f"{LDM}.ldm_classes.ComparisonOperators")
    log_cls = P.cls(f"{LDM}.ldm_classes.LogicalOperators")
    cstr = str_table(P, cmp_cls)
    lstr = str_table(P, log_cls)
    ctx.ob("C13.ops", cmp_cls.qual[10:], "str-covers-members", set(cstr) == set(cmp_cls.enum_members),
           f"__str__ covers {sorted(cstr)} of {sorted(cmp_cls.enum_members)}", f"{cmp_cls.module.rel}:{cmp_cls.node.lineno}")
    ctx.ob("C13.ops", cmp_cls.qual[10:], "strings-distinct", len(set(cstr.values())) == len(cstr), f"operator strings {sorted(cstr.values())}",
           f"{cmp_cls.module.rel}:{cmp_cls.node.lineno}")
    opm = mod.consts.get("OPERATOR_MAPPING")
    if not isinstance(opm, ast.Dict):
        raise AnalysisError("C13: OPERATOR_MAPPING is not a dict literal")
    keys = {}
    for k, v in zip(opm.keys, opm.values):
        if isinstance(k, ast.Constant):
            keys[k.value] = v
    ctx.ob("C13.ops", f"{LDM}.ldm_constants.OPERATOR_MAPPING", "keys=operator-strings", set(keys) == set(cstr.values()),
           f"OPERATOR_MAPPING keys {sorted(keys)} vs ComparisonOperators strings {sorted(cstr.values())}", f"{mod.rel}:{opm.lineno}")
    want_member = {"==": "EQUAL", "!=": "NOT_EQUAL", ">": "GREATER_THAN", "<": "LESS_THAN", ">=": "GREATER_THAN_OR_EQUAL",
                   "<=": "LESS_THAN_OR_EQUAL", "like": "LIKE", "notlike": "NOT_LIKE"}
    for sym, member in want_member.items():
        ctx.ob("C13.ops", cmp_cls.qual[10:], f"symbol:{member}", cstr.get(member) == sym,
               f"{member} prints as {cstr.get(member)!r} (must be {sym!r})", f"{cmp_cls.module.rel}:{cmp_cls.node.lineno}")
    for sym, lam in keys.items():
        loc = f"{mod.rel}:{lam.lineno}"
        if not isinstance(lam, ast.Lambda) or len(lam.args.args) != 2:
            ctx.ob("C13.ops", f"{LDM}.ldm_constants.OPERATOR_MAPPING", f"entry:{sym}", False, "entry is not a two-argument lambda", loc)
            continue
        a, b = lam.args.args[0].arg, lam.args.args[1].arg
        body = lam.body
        if sym in CMP.values():
            ok = isinstance(body, ast.Compare) and len(body.ops) == 1 and CMP.get(type(body.ops[0])) == sym and \
                unparse(body.left) == a and unparse(body.comparators[0]) == b
            ctx.ob("C13.ops", f"{LDM}.ldm_constants.OPERATOR_MAPPING", f"entry:{sym}", ok,
                   f"'{sym}' is implemented as `{unparse(body)}` (must be `{a} {sym} {b}`)", loc)
        else:
            neg = any(kw.arg == "negate" and isinstance(kw.value, ast.Constant) and kw.value.value is True for kw in getattr(body, "keywords", []))
            ok = isinstance(body, ast.Call) and dotted(body.func) == "_wrap_like_operator" and \
                [unparse(x) for x in body.args[:2]] == [a, b] and neg == (sym == "notlike")
            ctx.ob("C13.ops", f"{LDM}.ldm_constants.OPERATOR_MAPPING", f"entry:{sym}", ok,
                   f"'{sym}' is implemented as `{unparse(body)}`", loc)
    wl = mod.funcs.get("_wrap_like_operator")
    if wl is None:
        raise AnalysisError("C13: _wrap_like_operator vanished")
    # negation is part of the per-value predicate on BOTH paths (query object / raw value): a negated query object (`~q`)
    # also matches documents on which the attribute path does not resolve, the in-memory back-end does not
    inner = [n for n in wl.node.body if isinstance(n, ast.FunctionDef)]
    pred_ok, pred_name = False, None
    for f in inner:
        rets = [n for n in ast.walk(f) if isinstance(n, ast.Return) and n.value is not None]
        for r in rets:
            v = r.value
            if isinstance(v, ast.IfExp) and unparse(v.test) == "negate" and isinstance(v.body, ast.UnaryOp) and isinstance(v.body.op, ast.Not) \
                    and unparse(v.body.operand) == unparse(v.orelse):
                base = v.orelse
                defs = {n.targets[0].id: n.value for n in ast.walk(f) if isinstance(n, ast.Assign) and isinstance(n.targets[0], ast.Name)}
                b = defs.get(base.id) if isinstance(base, ast.Name) else base
                if isinstance(b, ast.Call) and dotted(b.func) == "_value_contains" and len(b.args) == 2 and unparse(b.args[0]) == f.args.args[0].arg \
                        and unparse(b.args[1]) == wl.params[1]:
                    pred_ok, pred_name = True, f.name
    ctx.ob("C13.ops", f"{LDM}.ldm_constants._wrap_like_operator", "negation-in-predicate", pred_ok,
           f"the per-value predicate `{pred_name}` returns contains(value, reference), negated iff negate" if pred_ok else
           "no inner predicate of the form `(not contains) if negate else contains` found", wl.loc)
    outer_rets = [n for n in ast.walk(wl.node) if isinstance(n, ast.Return) and n.value is not None and not any(n in list(ast.walk(f)) for f in inner)]
    forms = sorted(norm(unparse(r.value)) for r in outer_rets)
    ok = pred_ok and forms == sorted([f"test_method({pred_name})", f"{pred_name}({wl.params[0]})"])
    ctx.ob("C13.ops", f"{LDM}.ldm_constants._wrap_like_operator", "negation", ok,
           "both paths return the predicate's own verdict (query: test(predicate); raw value: predicate(value)) - notlike is the exact negation of like "
           "per stored value" if ok else f"_wrap_like_operator returns {forms}: negation is applied outside the per-value predicate on some path", wl.loc)
    inv = [(f2, n) for f2 in list(mod.funcs.values()) + list(P.cls(TDB).methods.values()) for n in ast.walk(f2.node)
           if isinstance(n, ast.UnaryOp) and isinstance(n.op, ast.Invert)]
    ctx.ob("C13.missing-attr", f"{LDM}", "no-query-inversion", not inv,
           "no `~` on query objects in the operator helpers / TinyDB back-end" if not inv else
           f"`~` applied at {[(f2.short(), n.lineno) for f2, n in inv]}: an inverted TinyDB query matches documents that LACK the attribute", mod.rel + ":1")
    ctx.ob("C13.ops", log_cls.qual[10:], "and-or", lstr == {"AND": "and", "OR": "or"}, f"LogicalOperators strings {lstr}",
           f"{log_cls.module.rel}:{log_cls.node.lineno}")
    # the literals the back-ends test
    db, tdb = P.cls(DB), P.cls(TDB)
    fd = db.methods["_filter_data"]
    # the branch taken for 'and' combines with and/&, the other with or/|
    found = False
    for n in ast.walk(fd.node):
        if isinstance(n, ast.If) and "logical_operator" in unparse(n.test):
            found = True
            t = norm(unparse(n.test))
            lit_and = t == "str(data_filter.logical_operator)=='and'"

            def ops(stmts):
                out = set()
                for b in stmts:
                    for x in ast.walk(b):
                        if isinstance(x, ast.BinOp) and isinstance(x.op, (ast.BitAnd, ast.BitOr)):
                            out.add("and" if isinstance(x.op, ast.BitAnd) else "or")
                        if isinstance(x, ast.BoolOp):
                            out.add("and" if isinstance(x.op, ast.And) else "or")
                return out
            a_ops, o_ops = ops(n.body), ops(n.orelse)
            ctx.ob("C13.ops", fd.short(), "logical-literals", lit_and, f"in-memory back-end tests `{unparse(n.test)}` (must be the 'and' literal of LogicalOperators)",
                   f"{fd.module.rel}:{n.lineno}")
            ctx.ob("C13.ops", fd.short(), "and->and,or->or", a_ops == {"and"} and o_ops == {"or"},
                   f"'and' branch combines the two statements with {sorted(a_ops)}, the other branch with {sorted(o_ops)}", f"{fd.module.rel}:{n.lineno}")
    if not found:
        raise AnalysisError("C13: in-memory back-end no longer distinguishes the logical operator")
    bf = tdb.methods["_build_filter_condition"]
    src = norm(unparse(bf.node))
    ctx.ob("C13.ops", bf.short(), "logical-literals",
           "iflogical_operator=='and':returnleft_condition&right_condition" in src and "iflogical_operator=='or':returnleft_condition|right_condition" in src,
           "TinyDB back-end: 'and' -> &, 'or' -> |", bf.loc)
    ctx.ob("C13.ops", bf.short(), "operator-string", "self.create_query_search(attribute_query,str(node.operator),node.ref_value)" in src,
           "TinyDB back-end looks the operator up by str(operator)", bf.loc)
    allsrc = "".join(norm(unparse(m_.node)) for m_ in db.methods.values())
    ctx.ob("C13.ops", fd.short(), "operator-string", "str(data_filter.filter_statement_1.operator)" in allsrc or "str(statement.operator)" in allsrc,
           "in-memory back-end looks the operator up by str(operator)", fd.loc)
    ctx.floor("C13.ops", 22)

    # ---- attribute path root: both back-ends must resolve `a.b.c` from the same root of the stored record
    gn = db.methods["_get_nested"]
    src = norm(unparse(gn.node))
    mem_root = "dataObject" if "data=data['dataObject']" in src or 'data=data["dataObject"]' in unparse(gn.node) else "<record>"
    cq = tdb.methods["_create_query_from_filter_statement"]
    src2 = norm(unparse(cq.node))
    tdb_root = "dataObject" if "dataObject" in src2 else "<record>"
    ctx.ob("C13.path-root", "both-back-ends", "same-root", mem_root == tdb_root,
           f"in-memory back-end resolves the dotted path under {mem_root!r}, TinyDB under {tdb_root!r}: the same filter selects "
           "different objects (a path such as 'cam.camParameters...' matches only in memory, 'dataObject.cam...' only in TinyDB)"
           if mem_root != tdb_root else f"both back-ends resolve attribute paths under {mem_root!r}", gn.loc)

    # ---- an object lacking the attribute simply does not match
    s = db.methods["search"]
    fl = ctx.flows.get(s)
    handlers = [n for n in ast.walk(s.node) if isinstance(n, ast.ExceptHandler) and n.type is not None and "KeyError" in unparse(n.type)]
    per_object = False
    # a KeyError handler inside the per-object evaluation: in the loop body of _filter_data or in a function it calls
    loops = [n for n in ast.walk(fd.node) if isinstance(n, ast.For)]
    inner = set()
    for lp in loops:
        for n in ast.walk(lp):
            if isinstance(n, ast.Try) and any(h.type is not None and "KeyError" in unparse(h.type) for h in n.handlers):
                per_object = True
            if isinstance(n, ast.Call):
                for t in P.call_targets(fd, n, count=False):
                    if isinstance(t, FuncInfo):
                        inner.add(t.qual)
                        for c2 in P.calls_in(t):
                            for t2 in P.call_targets(t, c2, count=False):
                                if isinstance(t2, FuncInfo):
                                    inner.add(t2.qual)
    for q_ in inner:
        f_ = P.funcs[q_]
        for n in ast.walk(f_.node):
            if isinstance(n, ast.Try) and any(h.type is not None and "KeyError" in unparse(h.type) for h in n.handlers):
                per_object = True
    whole_scan = bool(handlers) and any(isinstance(b, ast.Return) and norm(unparse(b.value)) in ("tuple()", "()") for h in handlers for b in h.body)
    ctx.ob("C13.missing-attr", s.short(), "per-object", per_object or not whole_scan,
           "a missing attribute is handled per object" if per_object or not whole_scan else
           "the KeyError of ONE object lacking the attribute aborts the whole scan (`except KeyError: return tuple()`): a filter on an "
           "optional container returns nothing as soon as one stored object lacks it", s.loc)

    # ---- type selection on every path
    for cls_ in (db, tdb):
        m = cls_.methods["search"]
        fl = ctx.flows.get(m)
        for k, st_, st in fl.exits:
            if k != "return":
                continue
            x = norm(pretty(unparse(fl.expand(st_.value, st))))
            in_handler = any(kk == "handler" for _, kk in fl.enclosing_handlers(st_))
            if x in ("tuple()", "()") and in_handler:
                continue
            ok = "filter_out_by_data_object_type(" in x and "data_request.data_object_type" in x
            ctx.ob("C13.types-always", m.short(), f"return@{st_.lineno - m.node.lineno}", ok,
                   "result restricted to the requested data object types" if ok else
                   f"a search result is returned without type selection: `{x[:90]}`", f"{m.module.rel}:{st_.lineno}")
    q = P.func(f"{SV}.query")
    fl = ctx.flows.get(q)
    for n in ast.walk(q.node):
        if isinstance(n, ast.Assign) and dotted(n.targets[0]) == "search_result" and isinstance(n.value, ast.Call) and \
                isinstance(n.value.func, ast.Attribute) and n.value.func.attr in ("get_all_data_containers", "search_data_containers"):
            typed = n.value.func.attr == "search_data_containers" or "data_object_type" in unparse(n.value)
            # does anything later restrict the unfiltered result by type?
            later = [x for x in ast.walk(q.node) if isinstance(x, ast.Call) and "filter" in (dotted(x.func) or "").lower() and
                     "data_object_type" in unparse(x) and x.lineno > n.lineno]
            ctx.ob("C13.types-always", q.short(), f"{n.value.func.attr}", typed or bool(later),
                   "query result restricted to the requested types" if typed or later else
                   "the unfiltered branch of LDMService.query returns get_all_data_containers(): every stored object of every type, "
                   "whatever data_object_type was requested", f"{q.module.rel}:{n.lineno}")
    ctx.floor("C13.types-always", 5)

    # ---- ordering
    o = P.func(f"{SV}.order_search_results")
    src = norm(unparse(o.node))
    ctx.ob("C13.order", o.short(), "keys-from-request", "Utils.get_nested(item,Utils.find_attribute(order.attribute,item))fororderinorders" in src,
           "sort key = the requested attributes, in request order", o.loc)
    ctx.ob("C13.order", o.short(), "direction", "reverse=any((order.ordering_direction==OrderingDirection.DESCENDINGfororderinorders))" in src
           and "sorted(search_results,key=build_key,reverse=reverse)" in src, "direction from ordering_direction", o.loc)
