"""C10 - CAM and VAM generation follow the timing and trigger rules of their standards.

The interval bounds over trajectories under a timer are statements about runs and are declined.  Decided are the
structural conditions those bounds rest on (each is necessary: remove it and some trajectory violates the bound):
minimum-interval guard in front of every generation, clamp of T_GenCam into [T_GenCamMin, T_GenCamMax] and the
condition-2 guard, the three dynamics thresholds against the values captured at the last CAM, re-arming of the check
timer on every exit while active, start/stop discipline, low-frequency container inclusion and stamping,
generationDeltaTime derivation; for the VRU service: first-VAM, minimum-interval and clustering gate in front of every
transmission, low-frequency container rule.
"""
from __future__ import annotations

import ast
import re

from ..prog import AnalysisError, ClassInfo, FuncInfo, dotted, unparse
from ..match import pretty, int_lower_bound
from ..absint import to_poly

PROP = "C10"
CAM = "facilities.ca_basic_service.cam_transmission_management"
VAM = "facilities.vru_awareness_service.vam_transmission_management"
VC = "facilities.vru_awareness_service.vam_constants"


def norm(s):
    return re.sub(r"\s+", "", s)


def const(ctx, modsuffix, name):
    m = ctx.prog.module(modsuffix)
    if name not in m.consts:
        raise AnalysisError(f"C10: constant {name} vanished from {modsuffix}")
    return ctx.prog.try_fold(m, m.consts[name])


def cam(ctx):
    P = ctx.prog
    tm = P.cls(f"{CAM}.CAMTransmissionManagement")
    tmin, tmax, tdcc, tcheck = (const(ctx, CAM, n) for n in ("T_GEN_CAM_MIN", "T_GEN_CAM_MAX", "T_GEN_CAM_DCC", "T_CHECK_CAM_GEN"))
    ctx.ob("C10.cam-constants", f"{CAM}", "T_GenCamMin/Max", tmin == 100 and tmax == 1000, f"T_GenCamMin={tmin} ms, T_GenCamMax={tmax} ms (EN 302 637-2: 100 / 1000)", "")
    ctx.ob("C10.cam-constants", f"{CAM}", "T_GenCam_DCC", isinstance(tdcc, int) and tmin <= tdcc <= tmax, f"T_GenCam_DCC={tdcc} within [min, max]", "")
    ctx.ob("C10.cam-constants", f"{CAM}", "T_CheckCamGen", isinstance(tcheck, int) and 0 < tcheck <= tmin, f"T_CheckCamGen={tcheck} <= T_GenCamMin", "")
    ev = tm.methods["_evaluate_and_maybe_send"]
    fl = ctx.flows.get(ev)
    gens = [c for c in P.calls_in(ev) if isinstance(c.func, ast.Attribute) and c.func.attr == "_generate_and_send_cam"]
    if len(gens) < 3:
        raise AnalysisError(f"C10: {len(gens)} CAM generation sites (confirmed: 3)")
    # every generation site in the class
    all_gens = [(m, c) for m in tm.methods.values() for c in P.calls_in(m) if isinstance(c.func, ast.Attribute) and c.func.attr == "_generate_and_send_cam"]
    ctx.ob("C10.cam-min", tm.qual[10:], "single-decision-point", all(m is ev for m, _ in all_gens),
           f"CAMs are generated only from _evaluate_and_maybe_send ({sorted({m.name for m, _ in all_gens})})", ev.loc)
    for i, c in enumerate(gens):
        st = fl.state_at(c)
        conds = {norm(pretty(f.xkey)): f.pol for f in st.facts if f.kind == "cond"}
        first = conds.get("self._last_cam_time_msisNone") is True
        dcc = conds.get("int(TimeService.time()*1000)-self._last_cam_time_ms>=T_GEN_CAM_DCC") is True
        cond = norm(unparse([kw.value for kw in c.keywords if kw.arg == "condition"][0])) if c.keywords else "?"
        ctx.ob("C10.cam-min", ev.short(), f"gen#{i}:min-interval", first or dcc,
               "first CAM after start" if first else ("generation only when now - last_CAM >= T_GenCam_DCC (>= 100 ms)" if dcc else
                                                      "a CAM can be generated less than T_GenCamMin after the previous one"), f"{ev.module.rel}:{c.lineno}")
        if cond == "1" and not first:
            ctx.ob("C10.cam-triggers", ev.short(), f"gen#{i}:dynamics", any(v and re.fullmatch(r"self\._check_dynamics\(.*\)", k) for k, v in conds.items()),
                   "condition-1 CAM requires the dynamics trigger", f"{ev.module.rel}:{c.lineno}")
        if cond == "2":
            ok = conds.get("int(TimeService.time()*1000)-self._last_cam_time_ms>=self.t_gen_cam") is True
            ctx.ob("C10.cam-max", ev.short(), f"gen#{i}:condition-2", ok,
                   "condition-2 CAM as soon as now - last_CAM >= T_GenCam" if ok else "the T_GenCam expiry no longer triggers a CAM", f"{ev.module.rel}:{c.lineno}")
        tp = norm(pretty(unparse(fl.expand(c.args[0], st))))
        ctx.ob("C10.gdt", ev.short(), f"gen#{i}:latest-report", tp == "self._current_tpv", f"the CAM is built from `{tp}` (the latest report, read once)", f"{ev.module.rel}:{c.lineno}")
    # the report snapshot is read under the lock
    snap = [n for n in ast.walk(ev.node) if isinstance(n, ast.Assign) and dotted(n.targets[0]) == "tpv"]
    ok = len(snap) == 1 and "CAMTransmissionManagement._tpv_lock" in fl.state_at(snap[0]).locks
    ctx.ob("C10.gdt", ev.short(), "snapshot-under-lock", ok, "the position report is snapshotted once under _tpv_lock", ev.loc)
    # ---- T_GenCam stores are clamped
    us = tm.methods["_update_send_state"]
    n = 0
    for m in tm.methods.values():
        for node in ast.walk(m.node):
            if isinstance(node, (ast.Assign, ast.AnnAssign)) and dotted(node.targets[0] if isinstance(node, ast.Assign) else node.target) == "self.t_gen_cam":
                n += 1
                v = node.value
                c = P.try_fold(m.module, v)
                txt = norm(unparse(v))
                ok = (isinstance(c, int) and tmin <= c <= tmax) or txt in ("max(T_GEN_CAM_MIN,min(T_GEN_CAM_MAX,elapsed_ms))", "min(T_GEN_CAM_MAX,max(T_GEN_CAM_MIN,elapsed_ms))")
                ctx.ob("C10.cam-max", m.short(), f"t_gen_cam-store#{n}", ok,
                       f"T_GenCam := `{unparse(v)}` " + ("within [T_GenCamMin, T_GenCamMax]" if ok else "is not clamped into [T_GenCamMin, T_GenCamMax]"),
                       f"{m.module.rel}:{node.lineno}")
    ctx.floor("C10.cam-max", 5)
    # ---- dynamics thresholds
    cd = tm.methods["_check_dynamics"]
    fl = ctx.flows.get(cd)
    found = {}
    for k, s, st in fl.exits:
        if k == "return" and P.try_fold(cd.module, s.value) is True:
            conds = {norm(pretty(f.xkey)): f.pol for f in st.facts if f.kind == "cond"}
            keys = [kk for kk, vv in conds.items() if vv]
            if any(kk == "self._last_cam_headingisNone" for kk in keys):
                found["no-reference"] = True
            for kk in keys:
                if re.fullmatch(r"(diff|abs\(tpv\['track'\]-self\._last_cam_heading\))>4(\.0)?", kk):
                    found["heading"] = kk
                if kk.startswith("_haversine_m(self._last_cam_lat,self._last_cam_lon,tpv['lat'],tpv['lon'])>4"):
                    found["position"] = kk
                if re.fullmatch(r"abs\(tpv\['speed'\]-self\._last_cam_speed\)>0\.5", kk):
                    found["speed"] = kk
    for t in ("heading", "position", "speed"):
        ctx.ob("C10.cam-triggers", cd.short(), t, t in found,
               f"{t} trigger: `{found.get(t, '')[:80]}`" if t in found else f"the {t} trigger (4 deg / 4 m / 0.5 m/s against the last CAM) is missing or changed", cd.loc)
    src = norm(unparse(cd.node))
    ctx.ob("C10.cam-triggers", cd.short(), "heading-wrap", "ifdiff>180.0:diff=360.0-diff" in src and "diff=abs(tpv['track']-self._last_cam_heading)" in src,
           "heading difference folded across the 0/360 wrap", cd.loc)
    src = norm(unparse(us.node))
    for fld, key in (("_last_cam_heading", "track"), ("_last_cam_lat", "lat"), ("_last_cam_lon", "lon"), ("_last_cam_speed", "speed")):
        ctx.ob("C10.cam-triggers", us.short(), f"reference:{fld}", f"self.{fld}=tpv['{key}']" in src,
               f"reference value {fld} := the report's '{key}' of the CAM just sent", us.loc)
    ctx.ob("C10.cam-min", us.short(), "last-cam-time", "self._last_cam_time_ms=now_ms" in src, "last CAM time := the generation time", us.loc)
    # ---- re-arming and activity
    cc = tm.methods["_check_cam_conditions"]
    tries = [n for n in ast.walk(cc.node) if isinstance(n, ast.Try)]
    ok = bool(tries) and any(isinstance(x, ast.Expr) and "self._schedule_next_check()" in unparse(x) for t in tries for x in t.finalbody) and \
        any("_evaluate_and_maybe_send" in unparse(x) for t in tries for x in t.body)
    ctx.ob("C10.cam-rearm", cc.short(), "finally", ok, "the next check is scheduled in a finally block: an exception in one evaluation cannot stop the timer chain", cc.loc)
    fl = ctx.flows.get(cc)
    for c in P.calls_in(cc):
        if isinstance(c.func, ast.Attribute) and c.func.attr == "_evaluate_and_maybe_send":
            conds = {norm(pretty(f.xkey)): f.pol for f in fl.state_at(c).facts if f.kind == "cond"}
            ctx.ob("C10.cam-active", cc.short(), "evaluate-only-active", conds.get("self._active") is True, "conditions are evaluated only while the service is active", f"{cc.module.rel}:{c.lineno}")
    sn = tm.methods["_schedule_next_check"]
    fl = ctx.flows.get(sn)
    for c in P.calls_in(sn):
        if (dotted(c.func) or "").endswith("Timer"):
            conds = {norm(pretty(f.xkey)): f.pol for f in fl.state_at(c).facts if f.kind == "cond"}
            ctx.ob("C10.cam-active", sn.short(), "arm-only-active", conds.get("self._active") is True, "a timer is armed only while active", f"{sn.module.rel}:{c.lineno}")
            args = norm(unparse(c.args[1])) if len(c.args) > 1 else ""
            ctx.ob("C10.cam-rearm", sn.short(), "target", args == "self._check_cam_conditions", f"timer target `{args}`", f"{sn.module.rel}:{c.lineno}")
    ctx.ob("C10.cam-rearm", sn.short(), "period", "delay_s=T_CHECK_CAM_GEN/1000.0" in norm(unparse(sn.node)), "default period T_CheckCamGen", sn.loc)
    stp = tm.methods["stop"]
    src = norm(unparse(stp.node))
    ctx.ob("C10.cam-active", stp.short(), "stop", "self._active=False" in src and "self._timer.cancel()" in src, "stop clears _active and cancels the timer", stp.loc)
    sta = tm.methods["start"]
    src = norm(unparse(sta.node))
    ok = all(x in src for x in ("self._active=True", "self._cam_count=0", "self._last_cam_time_ms=None", "self._last_lf_time_ms=None", "self.t_gen_cam=T_GEN_CAM_MAX"))
    ctx.ob("C10.cam-active", sta.short(), "start-resets", ok, "start resets the per-run state (first CAM, LF timer, T_GenCam)", sta.loc)
    # ---- LF container
    lf = tm.methods["_should_include_lf"]
    src = norm(unparse(lf.node))
    ok = "ifself._cam_count==0:returnTrue" in src and "ifself._last_lf_time_msisNone:returnTrue" in src and \
        "returnnow_ms-self._last_lf_time_ms>=T_GEN_CAM_LF_MS" in src and const(ctx, CAM, "T_GEN_CAM_LF_MS") == 500
    ctx.ob("C10.cam-lf", lf.short(), "rule", ok, "LF container in the first CAM and whenever >= 500 ms passed since the last CAM carrying it", lf.loc)
    g = tm.methods["_generate_and_send_cam"]
    fl = ctx.flows.get(g)
    for node in ast.walk(g.node):
        if isinstance(node, ast.Assign) and "lowFrequencyContainer" in unparse(node.targets[0]):
            conds = {norm(pretty(f.xkey)): f.pol for f in fl.state_at(node).facts if f.kind == "cond"}
            ctx.ob("C10.cam-lf", g.short(), "attached-iff-due", conds.get("self._should_include_lf(now_ms)") is True,
                   "the LF container is attached exactly when due", f"{g.module.rel}:{node.lineno}")
    src = norm(unparse(us.node))
    ctx.ob("C10.cam-lf", us.short(), "stamp-iff-included", "ifinclude_lf:self._last_lf_time_ms=now_ms" in src, "LF timer restarted exactly when the container was sent", us.loc)
    for c in P.calls_in(g):
        if isinstance(c.func, ast.Attribute) and c.func.attr == "_update_send_state":
            a = [norm(unparse(x)) for x in c.args]
            ctx.ob("C10.cam-lf", g.short(), "same-decision", "include_lf" in a, "the stamping uses the same include_lf decision", f"{g.module.rel}:{c.lineno}")
            in_handler = any(k == "handler" for _, k in fl.enclosing_handlers(c))
            ctx.ob("C10.cam-min", g.short(), "state-only-after-send", not in_handler and any(
                f.kind == "call" and "self._send_cam(" in f.key for f in fl.state_at(c).facts),
                "send state is updated only after _send_cam returned", f"{g.module.rel}:{c.lineno}")
    # ---- generationDeltaTime
    gd = P.cls(f"{CAM}.GenerationDeltaTime").methods["from_timestamp"]
    m = gd.module
    for node in ast.walk(gd.node):
        if isinstance(node, ast.Assign) and dotted(node.targets[0]) == "msec":
            v = node.value
            ok = isinstance(v, ast.BinOp) and isinstance(v.op, ast.Mod) and P.try_fold(m, v.right) == 65536 and \
                repr(to_poly(P, m, v.left)) == repr(to_poly(P, m, ast.parse("utc_timestamp_in_seconds*1000 - ITS_EPOCH_MS + ELAPSED_MILLISECONDS", mode="eval").body))
            ctx.ob("C10.gdt", gd.short(), "formula", ok, "generationDeltaTime = (UTC ms - ITS epoch + leap seconds) mod 65536", f"{m.rel}:{node.lineno}")
    fg = P.cls(f"{CAM}.CooperativeAwarenessMessage").methods["fullfill_gen_delta_time_with_tpv_data"]
    src = norm(unparse(fg.node))
    ctx.ob("C10.gdt", fg.short(), "from-report-time", "GenerationDeltaTime.from_timestamp(parser.parse(tpv['time']).timestamp())" in src and
           "self.cam['cam']['generationDeltaTime']=int(gen_delta_time.msec)" in src, "CAM generationDeltaTime derives from the report's own 'time'", fg.loc)
    ctx.floor("C10.cam-min", 5)
    ctx.floor("C10.cam-triggers", 9)


def vam(ctx):
    P = ctx.prog
    tm = P.cls(f"{VAM}.VAMTransmissionManagement")
    tmin, tmax, tlf = const(ctx, VC, "T_GENVAMMIN"), const(ctx, VC, "T_GENVAMMAX"), const(ctx, VC, "T_GENVAM_LFMIN")
    ctx.ob("C10.vam-constants", VC, "values", (tmin, tmax, tlf) == (100, 5000, 2000), f"T_GenVamMin={tmin}, T_GenVamMax={tmax}, T_GenVam_LFMin={tlf} (TS 103 300-3: 100/5000/2000 ms)", "")
    cb = tm.methods["location_service_callback"]
    fl = ctx.flows.get(cb)
    sends = [(m, c) for m in tm.methods.values() for c in P.calls_in(m) if isinstance(c.func, ast.Attribute) and c.func.attr == "send_next_vam"]
    ctx.ob("C10.vam-min", tm.qual[10:], "single-decision-point", all(m is cb for m, _ in sends), f"VAMs are sent only from location_service_callback", cb.loc)
    DIFF = "GenerationDeltaTime.from_timestamp(parser.parse(tpv['time']).timestamp())-self.last_vam_generation_delta_time"
    if len(sends) < 4:
        raise AnalysisError(f"C10: {len(sends)} VAM transmission sites (confirmed: 5)")
    for i, (m, c) in enumerate(sends):
        st = fl.state_at(c)
        conds = {norm(pretty(f.xkey)): f.pol for f in st.facts if f.kind == "cond"}
        first = conds.get("self.last_vam_generation_delta_timeisNone") is True
        lb = int_lower_bound(P, cb.module, st.facts, DIFF)
        if lb is None:
            # diff >= self.t_genvam with t_genvam a field initialised to a constant >= T_GenVamMin and never lowered
            if conds.get(f"{DIFF}>=self.t_genvam") is True:
                stores = [n for mm in tm.methods.values() for n in ast.walk(mm.node) if isinstance(n, ast.Assign) and dotted(n.targets[0]) == "self.t_genvam"]
                vals = [P.try_fold(mm_.module if False else cb.module, n.value) for n in stores for mm_ in [None]]
                if vals and all(isinstance(v, int) and v >= tmin for v in vals):
                    lb = min(vals)
        ok = first or (lb is not None and lb >= tmin)
        ctx.ob("C10.vam-min", cb.short(), f"send#{i}:min-interval", ok,
               "first VAM after activation" if first else (f"sent only when the report is >= {lb} ms after the last VAM" if ok else
                                                           "a dynamics trigger can send a VAM LESS than T_GenVamMin after the previous one "
                                                           "(the position/speed/heading tests run on the branch where diff_time < T_GenVam and "
                                                           "call send_next_vam without a minimum-interval test): at 50 Hz reports VAMs go out 20 ms apart"),
               f"{cb.module.rel}:{c.lineno}")
        gate = any((v is False) and k.replace("(", "").replace(")", "") == "self.clustering_managerisnotNoneandnotself.clustering_manager.should_transmit_vam"
                   for k, v in conds.items())
        ctx.ob("C10.vam-gate", cb.short(), f"send#{i}:cluster-gate", gate,
               "no transmission while the clustering state machine suppresses individual VAMs (passive / idle)", f"{cb.module.rel}:{c.lineno}")
        arg = norm(pretty(unparse(fl.expand(c.keywords[0].value if c.keywords else c.args[0], st))))
        ctx.ob("C10.gdt", cb.short(), f"send#{i}:built-from-report", arg == "VAMMessage()" or "VAMMessage" in arg,
               "the VAM sent is the one filled from this report", f"{cb.module.rel}:{c.lineno}")
    src = norm(unparse(cb.node))
    ctx.ob("C10.gdt", cb.short(), "filled-from-report", "vam_to_send.fullfill_with_tpv_data(tpv)" in src and "vam_to_send.fullfill_with_device_data(self.device_data_provider)" in src,
           "the VAM reflects this position report and the device data", cb.loc)
    # max interval: an elapsed-time trigger exists and uses a bound <= T_GenVamMax
    ok = f"diff_time>=self.t_genvam" in src
    ctx.ob("C10.vam-max", cb.short(), "elapsed-trigger", ok, "a report arriving T_GenVam (<= T_GenVamMax) after the last VAM triggers a VAM", cb.loc)
    # LF container
    lf = tm.methods["_attach_lf_container_if_due"]
    src = norm(unparse(lf.node))
    ok = "lf_due=self.is_first_vamorself.last_lf_vam_timeisNoneor(now-self.last_lf_vam_time)*1000>=vam_constants.T_GENVAM_LFMINorhas_cluster_op" in src
    ctx.ob("C10.vam-lf", lf.short(), "rule", ok, "LF container in the first VAM, after >= 2 s, or with a cluster operation container", lf.loc)
    fl2 = ctx.flows.get(lf)
    for node in ast.walk(lf.node):
        if isinstance(node, ast.Assign) and dotted(node.targets[0]) == "self.last_lf_vam_time":
            conds = {norm(pretty(f.key)): f.pol for f in fl2.state_at(node).facts if f.kind == "cond"}
            ctx.ob("C10.vam-lf", lf.short(), "stamp-iff-attached", conds.get("lf_due") is True, "the LF timer restarts exactly when the container is attached", f"{lf.module.rel}:{node.lineno}")
    sn = tm.methods["send_next_vam"]
    src = norm(unparse(sn.node))
    ctx.ob("C10.vam-lf", sn.short(), "applied", "self._attach_lf_container_if_due(vam)" in src, "every VAM passes the LF rule", sn.loc)
    ctx.ob("C10.vam-min", sn.short(), "state", "self.last_vam_generation_delta_time=GenerationDeltaTime(msec=vam.vam['vam']['generationDeltaTime'])" in src
           and "self.is_first_vam=False" in src, "the reference for the interval is the generationDeltaTime of the VAM just sent", sn.loc)


def run(ctx):
    ctx.explanation = (
        "Guard rules (K1) on every generation / transmission site, bounds rules on every store to T_GenCam, must-call on all "
        "exits (finally) for re-arming, paired rules for the low-frequency container, formula identity for "
        "generationDeltaTime. Each decided clause is a necessary condition of the timing bounds of C10; the bounds themselves "
        "(intervals over trajectories under a timer) are statements about runs and are declined.")
    ctx.declined = ["T_GenCamMin <= interval <= T_GenCamMax + check period over trajectories (run property)",
                    "'at the first check at which ...' as a timing statement", "VAM intervals over report streams",
                    "wall-clock use of time.time() for the VAM LF timer", "unit consistency of the VAM 4 m position trigger"]
    cam(ctx)
    vam(ctx)
