"""C10 - CAM and VAM generation follow the timing and trigger rules of their standards.

The interval bounds over trajectories under a timer are statements about runs and are declined.  Decided are the
structural conditions they rest on (each necessary: remove it and some trajectory violates the bound).
CAM: constants 100 / 1000 ms, T_CheckCamGen <= T_GenCamMin (cam-constants); one decision point, every generation under
"first CAM" or `now - last CAM >= T_GenCam_DCC`, send state updated only after _send_cam returned (cam-min);
condition-1 CAM exactly on the dynamics trigger, thresholds 4 deg (across the 0/360 wrap), 4 m, 0.5 m/s against
reference values stored from the report just sent (cam-triggers); condition-2 CAM as soon as T_GenCam elapsed, every
T_GenCam store clamped into [min, max] (cam-max); next check scheduled in a finally block, T_CheckCamGen apart
(cam-rearm); evaluation and timers only while active, stop / start discipline (cam-active); LF container in the first
CAM and after >= 500 ms, attached exactly when due, its timer restarted on that same decision (cam-lf);
generationDeltaTime = (report time - ITS epoch) mod 65536; the CAM built from one snapshot of the position cache taken
under its lock; every store to that cache is the callback's own argument (or a copy) or None, never derived from the
old cache - the cache IS the latest report (gdt).
VAM: constants (vam-constants); one decision point, every transmission under "first VAM" or a provable lower bound
`report time - last VAM >= T_GenVamMin` (through sums / products), the reference being the generationDeltaTime of the
VAM just sent, is_first_vam coherent with it (vam-min); clustering gate before every transmission (vam-gate); the VAM
sent is the one filled from this report and the device data (gdt); an elapsed-time trigger with bound <= T_GenVamMax
depending only on gate, not-first and a report timestamp - possibly split over several send sites that together cover
that condition (vam-max); LF container in the first VAM, after >= 2 s or with a cluster operation, timer restarted
exactly when attached, applied to every VAM before encoding (vam-lf); the references the dynamics triggers compare with are
the values just sent converted back to the report's unit: speedValue / 100, heading value / 10, latitude / longitude / 10^7
(vam-min reference-unit).
Not decided: the bounds and "at the first check at which" as run properties, wall-clock time.time() of the VAM LF
timer, unit consistency of the VAM 4 m trigger.

How: guards are must-facts compared as propositional formulas over canonical atoms ("exactly when" also demands no
extra guard); arguments are bound to the callee's parameters; small numeric predicates are interpreted by
absint.MiniExec (repository code is never run) on representatives of the threshold cells, boundaries included.
"""
from __future__ import annotations

import ast
import copy
import math

from .. import sem
from ..prog import AnalysisError, ClassInfo, FuncInfo, dotted, unparse
from ..absint import MiniExec, to_poly
from .c04 import f_show, fold_consts, formula, guard_formulas, implies, relevant, valid

PROP = "C10"
CAM = "facilities.ca_basic_service.cam_transmission_management"
VAM = "facilities.vru_awareness_service.vam_transmission_management"
VC = "facilities.vru_awareness_service.vam_constants"


# --------------------------------------------------------------------------------------------
# helpers
# --------------------------------------------------------------------------------------------
def const(ctx, modsuffix, name):
    m = ctx.prog.module(modsuffix)
    if name not in m.consts:
        raise AnalysisError(f"C10: constant {name} vanished from {modsuffix}")
    return ctx.prog.try_fold(m, m.consts[name])


def expr(src: str) -> ast.AST:
    return ast.parse(src, mode="eval").body


def bind(callee: FuncInfo, call: ast.Call) -> dict:
    """{parameter name of the callee: argument node} for a call (the receiver `self` is skipped)."""
    params = callee.params
    off = 1 if callee.kind in ("method", "classmethod", "property") and params else 0
    out = {}
    for i, a in enumerate(call.args):
        if isinstance(a, ast.Starred):
            raise AnalysisError(f"C10: starred argument in call of {callee.qual} at line {call.lineno}")
        if i + off < len(params):
            out[params[i + off]] = a
    for kw in call.keywords:
        if kw.arg is None:
            raise AnalysisError(f"C10: **kwargs in call of {callee.qual} at line {call.lineno}")
        out[kw.arg] = kw.value
    return out


def param(fi: FuncInfo, name: str) -> str:
    a = fi.node.args
    if name not in [x.arg for x in a.posonlyargs + a.args + a.kwonlyargs]:
        raise AnalysisError(f"C10: {fi.qual} has no parameter `{name}` any more")
    return name


def calls_to(P, fi: FuncInfo, target: FuncInfo) -> list:
    return [c for c in P.calls_in(fi)
            if any(isinstance(t, FuncInfo) and t.qual == target.qual for t in P.call_targets(fi, c, count=False))]


def _simp(f):
    if isinstance(f, bool) or f[0] == "lit":
        return f
    if f[0] == "not":
        x = _simp(f[1])
        return (not x) if isinstance(x, bool) else ("not", x)
    xs = [_simp(x) for x in f[1]]
    unit = f[0] == "and"            # neutral element: True for and, False for or
    if any(x is (not unit) for x in xs):
        return not unit
    xs = [x for x in xs if not isinstance(x, bool)]
    if not xs:
        return unit
    return xs[0] if len(xs) == 1 else (f[0], xs)


def completes(ctx, fl, stmts: list):
    """Condition under which control falls off the end of `stmts` (tests expanded in the state where they are evaluated)."""
    parts = []
    for s_ in stmts:
        if isinstance(s_, (ast.Return, ast.Raise, ast.Break, ast.Continue)):
            return False
        if isinstance(s_, ast.If):
            st = fl.state_at(s_)
            t = formula(fold_consts(ctx.prog, fl.fi.module, fl.expand(s_.test, st), set(st.defs)))
            parts.append(("or", [("and", [t, completes(ctx, fl, s_.body)]), ("and", [("not", t), completes(ctx, fl, s_.orelse)])]))
        elif isinstance(s_, (ast.With, ast.AsyncWith)):
            parts.append(completes(ctx, fl, s_.body))
    return _simp(("and", parts))


def _touched(fl, stmts: list) -> set:
    """Names / attribute chains assigned, deleted or mutated through a container method somewhere in `stmts`."""
    out = set(fl.assigned_names(stmts))
    for s_ in stmts:
        for n_ in ast.walk(s_):
            if isinstance(n_, ast.Call) and isinstance(n_.func, ast.Attribute) and n_.func.attr in fl.MUTATORS and dotted(n_.func.value):
                out.add(dotted(n_.func.value))
    return out


def join_guards(ctx, fl, node) -> list:
    """Disjunctive knowledge the must-facts lose where two live paths join: for every `if` statement that lies before
    `node` in an enclosing statement list, the condition under which that statement is left normally - kept only when
    nothing it mentions is written between that statement and `node`."""
    import re as _re
    from .c04 import f_atoms
    out = []
    cur = node if isinstance(node, ast.stmt) else fl.stmt_of.get(id(node))
    while cur is not None and cur is not fl.fi.node:
        par = fl.parent.get(id(cur))
        if par is None:
            break
        lst = None
        for fld in ("body", "orelse", "finalbody"):
            v = getattr(par, fld, None)
            if isinstance(v, list) and any(x is cur for x in v):
                lst = v
        if lst is not None:
            k = [i for i, x in enumerate(lst) if x is cur][0]
            for j in range(k):
                if not isinstance(lst[j], (ast.If, ast.With, ast.AsyncWith)):
                    continue
                c = completes(ctx, fl, [lst[j]])
                if isinstance(c, bool) or valid(c) is not False:
                    continue                      # no information (always left normally) or too large to decide
                touched = _touched(fl, lst[j:k + 1])
                text = " ".join(sorted(f_atoms(c)))
                if any((("." in t) and t in text) or (("." not in t) and _re.search(r"(?<![\w.])" + _re.escape(t) + r"(?![\w])", text)) for t in touched):
                    continue
                out.append(c)
        cur = par
    return out


def guards(ctx, fl, node, primary: bool = False) -> list:
    """Conditions certainly in force at `node`: the must-facts of the flow analysis plus the disjunctive completion
    conditions of the preceding `if` statements (see join_guards)."""
    st = fl.state_at(node)
    out = guard_formulas(ctx.prog, fl, st, set(st.defs), primary)
    seen = {repr(x) for x in out}
    for c in join_guards(ctx, fl, node):
        if repr(c) not in seen:
            seen.add(repr(c))
            out.append(c)
    return out


def xfold(ctx, fl, e: ast.AST, st) -> ast.AST:
    """`e` with locals expanded through the flow and module constants folded."""
    return fold_consts(ctx.prog, fl.fi.module, fl.expand(e, st), set(st.defs))


def no_extra_guard(gs: list, expected: list) -> list:
    """Guards that do not follow from the expected condition (the conjunction of `expected`)."""
    return [g for g in gs if implies(expected, g) is not True]


def lower_bound(ctx, fl, st, term: ast.AST, field_bounds: dict = None):
    """Greatest lower bound on `term` among the positive `term >= c` / `term > c` facts (c a folded constant, or an
    attribute listed in `field_bounds` with the least value it is ever given)."""
    P, mod = ctx.prog, fl.fi.module
    want, best = sem.cx(term), None

    def least(e):
        """A value the expression is never below: constants, bounded fields, sums, products with a non-negative factor,
        and max() (one bounded argument is enough) / min() (all arguments bounded)."""
        c = P.try_fold(mod, e)
        if isinstance(c, (int, float)) and not isinstance(c, bool):
            return c
        c = (field_bounds or {}).get(sem.cx(e))
        if c is not None:
            return c
        if isinstance(e, ast.BinOp) and isinstance(e.op, (ast.Add, ast.Mult)):
            x, y = least(e.left), least(e.right)
            if x is None or y is None:
                return None
            if isinstance(e.op, ast.Add):
                return x + y
            return x * y if x >= 0 and y >= 0 else None
        if isinstance(e, ast.Call) and isinstance(e.func, ast.Name) and e.func.id in ("max", "min") and e.args and not e.keywords:
            vs = [least(a_) for a_ in e.args]
            if e.func.id == "max":
                vs = [v for v in vs if v is not None]
                return max(vs) if vs else None
            return min(vs) if all(v is not None for v in vs) else None
        return None

    for f in st.facts:
        if f.kind != "cond" or not f.pol or not isinstance(f.xnode, ast.Compare) or len(f.xnode.ops) != 1:
            continue
        op, a, b = f.xnode.ops[0], f.xnode.left, f.xnode.comparators[0]
        if not isinstance(op, (ast.Gt, ast.GtE)) or sem.cx(a) != want:
            continue
        c = least(b)
        if c is None:
            continue
        lb = c + (1 if isinstance(op, ast.Gt) and isinstance(c, int) else 0)
        best = lb if best is None else max(best, lb)
    return best


def stores(cls: ClassInfo, attr: str) -> list:
    """[(method, assignment node, value node)] for every `self.<attr> = v` / annotated store in the class."""
    out = []
    for m in cls.methods.values():
        for n in ast.walk(m.node):
            if isinstance(n, ast.Assign):
                for t in n.targets:
                    if dotted(t) == f"self.{attr}":
                        out.append((m, n, n.value))
                    elif isinstance(t, (ast.Tuple, ast.List)):
                        for k, e in enumerate(t.elts):
                            if dotted(e) == f"self.{attr}":
                                same = isinstance(n.value, (ast.Tuple, ast.List)) and len(n.value.elts) == len(t.elts)
                                out.append((m, n, n.value.elts[k] if same else None))
            elif isinstance(n, ast.AnnAssign) and n.value is not None and dotted(n.target) == f"self.{attr}":
                out.append((m, n, n.value))
            elif isinstance(n, ast.AugAssign) and dotted(n.target) == f"self.{attr}":
                out.append((m, n, None))
    return out


def is_none(e) -> bool:
    return isinstance(e, ast.Constant) and e.value is None


def sub_key(node: ast.AST):
    """Constant string key of the outermost subscript of an assignment target (`x[...]["k"]`), else None."""
    if isinstance(node, ast.Subscript) and isinstance(node.slice, ast.Constant) and isinstance(node.slice.value, str):
        return node.slice.value
    return None


class Exec(MiniExec):
    """MiniExec plus: membership / identity tests, dict.get, functions of `math`, pure module-level helpers of the
    repository (interpreted recursively) and a fixed reading for a wall-clock call."""

    def __init__(self, prog, fi, env, clock=None):
        super().__init__(prog, fi, env)
        self.clock = clock

    def ev(self, e):
        if isinstance(e, ast.Compare) and any(isinstance(o, (ast.In, ast.NotIn, ast.Is, ast.IsNot)) for o in e.ops):
            left = self.ev(e.left)
            for op, c in zip(e.ops, e.comparators):
                right = self.ev(c)
                if isinstance(op, ast.In):
                    ok = left in right
                elif isinstance(op, ast.NotIn):
                    ok = left not in right
                elif isinstance(op, ast.Is):
                    ok = left is right
                elif isinstance(op, ast.IsNot):
                    ok = left is not right
                else:
                    ok = self.ev(ast.Compare(left=ast.Constant(left), ops=[op], comparators=[ast.Constant(right)]))
                if not ok:
                    return False
                left = right
            return True
        return super().ev(e)

    def _call(self, me, call):
        f = call.func
        d = dotted(f)
        args = lambda: [self.ev(a) for a in call.args]
        imps = self.fi.module.imports
        if d and imps.get(d, (None,))[0] == "attr" and imps[d][1] == "math" and hasattr(math, imps[d][2]):
            return getattr(math, imps[d][2])(*args())
        if d and "." in d and imps.get(d.split(".")[0]) == ("mod", "math") and hasattr(math, d.split(".")[1]):
            return getattr(math, d.split(".")[1])(*args())
        if self.clock is not None and isinstance(f, ast.Attribute) and f.attr == "time" and not call.args and not call.keywords \
                and dotted(f.value) is not None and dotted(f.value) not in self.env:
            return self.clock
        if isinstance(f, ast.Attribute) and f.attr == "get" and 1 <= len(call.args) <= 2:
            try:
                obj = self.ev(f.value)
            except AnalysisError:
                obj = None
            if isinstance(obj, dict):
                return obj.get(*args())
        tg = [t for t in self.prog.call_targets(self.fi, call, count=False)]
        if len(tg) == 1 and isinstance(tg[0], FuncInfo) and tg[0].kind in ("function", "staticmethod"):
            callee = tg[0]
            env = dict(zip(callee.params, args()))
            for kw in call.keywords:
                env[kw.arg] = self.ev(kw.value)
            sub = type(self)(self.prog, callee, env, self.clock)
            return sub.run()
        return super()._call(me, call)


def haversine_m(lat1, lon1, lat2, lon2) -> float:
    r = 6_371_000.0
    a = math.sin(math.radians(lat2 - lat1) / 2) ** 2 + math.cos(math.radians(lat1)) * math.cos(math.radians(lat2)) * \
        math.sin(math.radians(lon2 - lon1) / 2) ** 2
    return r * 2 * math.atan2(math.sqrt(a), math.sqrt(max(0.0, 1.0 - a)))


# --------------------------------------------------------------------------------------------
# CA basic service
# --------------------------------------------------------------------------------------------
def cam(ctx):
    P = ctx.prog
    tm = P.cls(f"{CAM}.CAMTransmissionManagement")
    mod = tm.module
    tmin, tmax, tdcc, tcheck = (const(ctx, CAM, n) for n in ("T_GEN_CAM_MIN", "T_GEN_CAM_MAX", "T_GEN_CAM_DCC", "T_CHECK_CAM_GEN"))
    ctx.ob("C10.cam-constants", f"{CAM}", "T_GenCamMin/Max", tmin == 100 and tmax == 1000, f"T_GenCamMin={tmin} ms, T_GenCamMax={tmax} ms (EN 302 637-2: 100 / 1000)", "")
    ctx.ob("C10.cam-constants", f"{CAM}", "T_GenCam_DCC", isinstance(tdcc, int) and tmin <= tdcc <= tmax, f"T_GenCam_DCC={tdcc} within [min, max]", "")
    ctx.ob("C10.cam-constants", f"{CAM}", "T_CheckCamGen", isinstance(tcheck, int) and 0 < tcheck <= tmin, f"T_CheckCamGen={tcheck} <= T_GenCamMin", "")
    if not all(isinstance(x, int) for x in (tmin, tmax, tdcc, tcheck)):
        raise AnalysisError("C10: a CAM timing constant no longer folds to an integer")
    ev = tm.methods["_evaluate_and_maybe_send"]
    g = tm.methods["_generate_and_send_cam"]
    us = tm.methods["_update_send_state"]
    cd = tm.methods["_check_dynamics"]
    g_tpv, g_now, g_cond = param(g, "tpv"), param(g, "now_ms"), param(g, "condition")
    fl = ctx.flows.get(ev)
    gens = calls_to(P, ev, g)
    if len(gens) < 3:
        raise AnalysisError(f"C10: {len(gens)} CAM generation sites (confirmed: 3)")
    # every generation site in the class
    all_gens = [(m, c) for m in tm.methods.values() for c in calls_to(P, m, g)]
    ctx.ob("C10.cam-min", tm.qual[10:], "single-decision-point", all(m is ev for m, _ in all_gens),
           f"CAMs are generated only from _evaluate_and_maybe_send ({sorted({m.name for m, _ in all_gens})})", ev.loc)
    LAST = "self._last_cam_time_ms"
    first_f = formula(expr(f"{LAST} is None"))
    active_f = formula(expr("self._active"))
    snapshot_defs = []
    for i, c in enumerate(gens):
        st = fl.state_at(c)
        loc = f"{ev.module.rel}:{c.lineno}"
        b = bind(g, c)
        if not all(k in b for k in (g_tpv, g_now, g_cond)):
            raise AnalysisError(f"C10: generation call at line {c.lineno} does not pass tpv / now_ms / condition")
        now_x, tpv_x = xfold(ctx, fl, b[g_now], st), xfold(ctx, fl, b[g_tpv], st)
        elapsed = ast.BinOp(left=now_x, op=ast.Sub(), right=expr(LAST))
        gs = guards(ctx, fl, c)
        first = implies(relevant(gs, first_f), first_f) is True
        lb = lower_bound(ctx, fl, st, elapsed)
        dcc = lb is not None and lb >= tdcc
        ctx.ob("C10.cam-min", ev.short(), f"gen#{i}:min-interval", first or dcc,
               "first CAM after start" if first else ("generation only when now - last_CAM >= T_GenCam_DCC (>= 100 ms)" if dcc else
                                                      "a CAM can be generated less than T_GenCamMin after the previous one"), loc)
        ctx.ob("C10.cam-min", ev.short(), f"gen#{i}:clock", sem.same(now_x, "int(TimeService.time() * 1000)"),
               f"the generation time handed to the CAM is `{sem.cx(now_x)}` (the time service clock in ms; elapsed time is measured on it)", loc)
        # "exactly when": every test written in front of the generation must follow from the condition of the standard
        cond = P.try_fold(mod, b[g_cond])
        dyn_f = formula(ast.Call(func=expr("self._check_dynamics"), args=[copy.deepcopy(tpv_x)], keywords=[]))
        have_report = formula(ast.Compare(left=copy.deepcopy(tpv_x), ops=[ast.IsNot()], comparators=[ast.Constant(None)]))
        tgen_f = formula(ast.Compare(left=copy.deepcopy(elapsed), ops=[ast.GtE()], comparators=[expr("self.t_gen_cam")]))
        dcc_f = formula(ast.Compare(left=copy.deepcopy(elapsed), ops=[ast.GtE()], comparators=[ast.Constant(tdcc)]))
        base = [have_report, active_f]
        if first:
            expected = base + [first_f]
        elif cond == 1:
            expected = base + [("not", first_f), dcc_f, dyn_f]
        else:
            expected = base + [("not", first_f), dcc_f, ("not", dyn_f), tgen_f]
        extra = no_extra_guard(guards(ctx, fl, c, primary=True), expected)
        why_extra = "" if not extra else " - but the generation additionally depends on: " + "; ".join(f_show(x) for x in extra[:3])
        if first:
            ctx.ob("C10.cam-min", ev.short(), f"gen#{i}:first-unconditional", not extra,
                   "the first CAM after activation is generated as soon as a position report is available" + why_extra, loc)
        if cond == 1 and not first:
            ok = implies(relevant(gs, dyn_f), dyn_f) is True
            ctx.ob("C10.cam-triggers", ev.short(), f"gen#{i}:dynamics", ok and not extra,
                   ("condition-1 CAM exactly on the dynamics trigger (once T_GenCam_DCC elapsed)" if ok else "condition-1 CAM requires the dynamics trigger")
                   + why_extra, loc)
        if cond == 2:
            ok = implies(relevant(gs, tgen_f), tgen_f) is True
            ctx.ob("C10.cam-max", ev.short(), f"gen#{i}:condition-2", ok and not extra,
                   ("condition-2 CAM as soon as now - last_CAM >= T_GenCam" if ok else "the T_GenCam expiry no longer triggers a CAM") + why_extra, loc)
        if cond not in (1, 2):
            ctx.ob("C10.cam-max", ev.short(), f"gen#{i}:condition", False, f"generation with condition `{unparse(b[g_cond])}` (1 or 2 expected)", loc)
        ctx.ob("C10.gdt", ev.short(), f"gen#{i}:latest-report", sem.same(tpv_x, "self._current_tpv"),
               f"the CAM is built from `{sem.cx(tpv_x)}` (the latest report, read once)", loc)
        if isinstance(b[g_tpv], ast.Name):
            snapshot_defs.append(tuple(d.did for d in fl.reaching(b[g_tpv].id, st)))
        else:
            snapshot_defs.append(None)
    # the cached report IS the latest report: every store to _current_tpv outside __init__ puts the callback's own argument
    # (or a plain copy of it) there - nothing derived from the previous cache content - or resets it to None
    cls_ = ev.cls
    n_st = 0
    for m_ in cls_.methods.values():
        if m_.name == "__init__":
            continue
        mfl = ctx.flows.get(m_)
        for n_ in ast.walk(m_.node):
            if isinstance(n_, ast.Assign) and dotted(n_.targets[0]) == "self._current_tpv" and id(n_) in mfl.before:
                n_st += 1
                v = mfl.expand(n_.value, mfl.before[id(n_)])
                inner = v
                if isinstance(v, ast.Call) and (dotted(v.func) in ("dict", "copy.copy", "copy.deepcopy", "deepcopy") and len(v.args) == 1 and not v.keywords):
                    inner = v.args[0]
                elif isinstance(v, ast.Call) and isinstance(v.func, ast.Attribute) and v.func.attr == "copy" and not v.args:
                    inner = v.func.value
                is_param = isinstance(inner, ast.Name) and inner.id in m_.params[1:]
                v_none = isinstance(v, ast.Constant) and v.value is None
                ctx.ob("C10.gdt", m_.short(), f"cache-is-latest-report#{n_st}", is_param or v_none,
                       "the position cache is replaced by the report just received" if is_param else
                       ("the position cache is cleared" if v_none else
                        f"the position cache is set to `{sem.cx(v)[:80]}`, not to the report just received: fields of an OLDER report "
                        "survive in it and the next CAM does not reflect the latest report"), f"{m_.module.rel}:{n_.lineno}")
    if n_st == 0:
        raise AnalysisError("C10: no store to CAMTransmissionManagement._current_tpv found")
    # the report snapshot is read once, under the lock
    ok = len(set(snapshot_defs)) == 1 and snapshot_defs[0] is not None and len(snapshot_defs[0]) == 1
    if ok:
        d = fl.defs[snapshot_defs[0][0]]
        ok = isinstance(d.stmt, ast.Assign) and "CAMTransmissionManagement._tpv_lock" in fl.state_at(d.stmt).locks
    ctx.ob("C10.gdt", ev.short(), "snapshot-under-lock", ok, "the position report is snapshotted once under _tpv_lock", ev.loc)

    # ---- T_GenCam stores are clamped: interpreted on representatives of [.., T_GenCamMin, .., T_GenCamMax, ..]
    flu = ctx.flows.get(us)
    us_calls = calls_to(P, g, us)
    if len(us_calls) != 1:
        raise AnalysisError(f"C10: {len(us_calls)} calls of _update_send_state in _generate_and_send_cam (confirmed: 1)")
    flg = ctx.flows.get(g)
    bu = bind(us, us_calls[0])
    stg = flg.state_at(us_calls[0])

    def us_param_bound_to(pred) -> list:
        return [p_ for p_, a in bu.items() if pred(flg.expand(a, stg))]
    n = 0
    reps = sorted({0, 1, tmin - 1, tmin, tmin + 1, (tmin + tmax) // 2, tmax - 1, tmax, tmax + 1, 10 * tmax})
    for m, node, v in stores(tm, "t_gen_cam"):
        n += 1
        c = P.try_fold(m.module, v) if v is not None else None
        if isinstance(c, int):
            ok, how = tmin <= c <= tmax, "within [T_GenCamMin, T_GenCamMax]"
        else:
            free = sorted({x.id for x in ast.walk(v) if isinstance(x, ast.Name) and x.id in m.params}) if v is not None else []
            ok, how = False, "is not clamped into [T_GenCamMin, T_GenCamMax]"
            if len(free) == 1:
                try:
                    got = [Exec(P, m, {free[0]: x}).ev(v) for x in reps]
                    ok = got == [min(max(x, tmin), tmax) for x in reps]
                except AnalysisError as e:
                    how = f"cannot be evaluated ({e})"
                # the clamped quantity is the time elapsed since the last CAM
                if ok and m is us:
                    a = flg.expand(bu[free[0]], stg) if free[0] in bu else None
                    diff = sem.cx(ast.BinOp(left=ast.Name(id=g_now, ctx=ast.Load()), op=ast.Sub(), right=expr(LAST)))
                    cands = [a.body] if isinstance(a, ast.IfExp) else [a]
                    ok = a is not None and any(x is not None and sem.cx(x) == diff for x in cands)
                    if isinstance(a, ast.IfExp):
                        ok = ok and valid(("or", [("not", formula(a.test)), ("not", first_f)])) is True
                    how = "= the elapsed time clamped into [T_GenCamMin, T_GenCamMax]" if ok else \
                        f"clamps `{sem.cx(a) if a is not None else '?'}`, which is not the time since the last CAM"
                elif ok:
                    how = "clamped into [T_GenCamMin, T_GenCamMax]"
        ctx.ob("C10.cam-max", m.short(), f"t_gen_cam-store#{n}", ok, f"T_GenCam := `{unparse(v) if v is not None else 'augmented'}` " + how,
               f"{m.module.rel}:{node.lineno}")
    ctx.floor("C10.cam-max", 6)

    # ---- dynamics thresholds: _check_dynamics interpreted on representatives (boundary values included)
    LAT, LON, SPD = 41.0, 2.0, 10.0
    MLAT = 1.0 / 111194.92664455874           # degrees of latitude per metre on the sphere used (R = 6 371 000 m)
    MLON = MLAT / math.cos(math.radians(LAT))

    def spec(tpv, h, lat, lon, spd):
        if h is None:
            return True
        if "track" in tpv:
            d = abs(tpv["track"] - h) % 360.0
            if min(d, 360.0 - d) > 4.0:
                return True
        if "lat" in tpv and "lon" in tpv and lat is not None and lon is not None and haversine_m(lat, lon, tpv["lat"], tpv["lon"]) > 4.0:
            return True
        return "speed" in tpv and spd is not None and abs(tpv["speed"] - spd) > 0.5

    def run_cd(tpv, h, lat, lon, spd):
        env = {param(cd, "tpv"): tpv, "self._last_cam_heading": h, "self._last_cam_lat": lat, "self._last_cam_lon": lon,
               "self._last_cam_speed": spd}
        return bool(Exec(P, cd, env).run())
    quiet = {"lat": LAT, "lon": LON, "speed": SPD}
    families = {"heading": [], "heading-wrap": [], "position": [], "speed": []}
    for h, t in [(100.0, x) for x in (100.0, 103.0, 104.0, 104.5, 97.0, 96.0, 95.5, 200.0, 279.5, 280.0, 0.5, 60.0)] + \
                [(0.0, 3.5), (0.0, 4.0), (0.0, 4.5), (4.5, 0.0), (180.0, 0.0), (0.0, 180.0)]:
        families["heading"].append(({**quiet, "track": t}, h, LAT, LON, SPD))
    families["heading"].append(({**quiet, "track": 50.0}, None, None, None, None))          # no reference yet
    families["heading"].append((dict(quiet), 100.0, LAT, LON, SPD))                        # report without heading
    for h, t in [(358.0, 3.0), (3.0, 358.0), (359.5, 2.0), (2.0, 359.5), (356.0, 0.0), (0.0, 356.0), (355.5, 0.0), (0.0, 355.5),
                 (10.0, 350.0), (350.0, 10.0), (0.0, 181.0), (181.0, 0.0), (1.0, 359.0), (90.0, 300.0), (300.0, 90.0)]:
        families["heading-wrap"].append(({**quiet, "track": t}, h, LAT, LON, SPD))
    for dm_lat, dm_lon in [(0.0, 0.0), (3.5, 0.0), (-3.5, 0.0), (4.5, 0.0), (-4.5, 0.0), (0.0, 3.5), (0.0, -3.5), (0.0, 4.5), (0.0, -4.5),
                           (3.0, 3.0), (2.5, 2.5), (100.0, 0.0)]:
        families["position"].append(({"track": 100.0, "speed": SPD, "lat": LAT + dm_lat * MLAT, "lon": LON + dm_lon * MLON}, 100.0, LAT, LON, SPD))
    families["position"].append(({"track": 100.0, "speed": SPD, "lat": LAT + 50 * MLAT, "lon": LON}, 100.0, None, None, SPD))
    families["position"].append(({"track": 100.0, "speed": SPD, "lat": LAT + 50 * MLAT}, 100.0, LAT, LON, SPD))
    for v in (10.0, 10.25, 10.5, 10.75, 9.75, 9.5, 9.25, 0.0, 30.0):
        families["speed"].append(({"track": 100.0, "lat": LAT, "lon": LON, "speed": v}, 100.0, LAT, LON, SPD))
    families["speed"].append(({"track": 100.0, "lat": LAT, "lon": LON, "speed": 20.0}, 100.0, LAT, LON, None))
    families["speed"].append(({"track": 100.0, "lat": LAT, "lon": LON}, 100.0, LAT, LON, SPD))
    what = {"heading": "heading trigger: |heading - heading of the last CAM| > 4 deg",
            "heading-wrap": "heading difference folded across the 0/360 wrap",
            "position": "position trigger: distance to the position of the last CAM > 4 m",
            "speed": "speed trigger: |speed - speed of the last CAM| > 0.5 m/s"}
    for fam in ("heading", "position", "speed", "heading-wrap"):
        bad = []
        for case in families[fam]:
            got, want_ = run_cd(*case), spec(*case)
            if got != want_:
                bad.append(f"report {case[0]} against last CAM (heading {case[1]}, position {case[2]},{case[3]}, speed {case[4]}): "
                           f"trigger is {got}, the standard says {want_}")
        ctx.ob("C10.cam-triggers", cd.short(), fam, not bad,
               what[fam] + (f" - holds on {len(families[fam])} representative reports (boundaries included)" if not bad else " - VIOLATED: " + bad[0]), cd.loc)

    # ---- reference values of the last CAM: stored from the report just sent, under no other condition than its presence
    us_tpv = us_param_bound_to(lambda a: isinstance(a, ast.Name) and a.id == g_tpv)
    us_now = us_param_bound_to(lambda a: isinstance(a, ast.Name) and a.id == g_now)
    if not us_tpv or not us_now:
        raise AnalysisError("C10: _update_send_state is no longer handed the report and the generation time of the CAM just sent")

    def is_param(e, names) -> bool:
        return isinstance(e, ast.Name) and e.id in names
    for fld, key, together in (("_last_cam_heading", "track", ("track",)), ("_last_cam_lat", "lat", ("lat", "lon")),
                               ("_last_cam_lon", "lon", ("lat", "lon")), ("_last_cam_speed", "speed", ("speed",))):
        ss = [(m, node, v) for m, node, v in stores(tm, fld) if not is_none(v)]
        val = flu.expand(ss[0][2], flu.state_at(ss[0][1])) if len(ss) == 1 and ss[0][2] is not None else None
        ok = len(ss) == 1 and ss[0][0] is us and isinstance(val, ast.Subscript) and is_param(val.value, us_tpv) and \
            isinstance(val.slice, ast.Constant) and val.slice.value == key
        why = ""
        if ok:
            expected = [formula(expr(f"'{k}' in {val.value.id}")) for k in together]
            extra = no_extra_guard(guards(ctx, flu, ss[0][1], primary=True), expected)
            ok = not extra
            why = "" if ok else " - but only when " + "; ".join(f_show(x) for x in extra[:3])
        ctx.ob("C10.cam-triggers", us.short(), f"reference:{fld}", ok,
               f"reference value {fld} := the report's '{key}' of the CAM just sent" + why, us.loc)
    ss = [(m, node, v) for m, node, v in stores(tm, "_last_cam_time_ms") if not is_none(v)]
    ok = len(ss) == 1 and ss[0][0] is us and ss[0][2] is not None and is_param(flu.expand(ss[0][2], flu.state_at(ss[0][1])), us_now) \
        and not guards(ctx, flu, ss[0][1], primary=True)
    ctx.ob("C10.cam-min", us.short(), "last-cam-time", ok, "last CAM time := the generation time, on every successful transmission", us.loc)

    # ---- re-arming and activity
    cc = tm.methods["_check_cam_conditions"]
    sn = tm.methods["_schedule_next_check"]
    flc = ctx.flows.get(cc)
    evals = calls_to(P, cc, ev)
    ok = bool(evals)
    for c in evals:
        tries = [t for t, part in flc.enclosing_handlers(c) if part == "body" and t.finalbody]
        ok = ok and any(isinstance(x, ast.Expr) and isinstance(x.value, ast.Call) and x.value in calls_to(P, cc, sn)
                        for t in tries for x in t.finalbody)
    ctx.ob("C10.cam-rearm", cc.short(), "finally", ok, "the next check is scheduled in a finally block: an exception in one evaluation cannot stop the timer chain", cc.loc)
    for c in evals:
        gs = guards(ctx, flc, c)
        ctx.ob("C10.cam-active", cc.short(), "evaluate-only-active", implies(relevant(gs, active_f), active_f) is True,
               "conditions are evaluated only while the service is active", f"{cc.module.rel}:{c.lineno}")
    fls = ctx.flows.get(sn)
    timers = [c for c in P.calls_in(sn) if P.call_targets(sn, c, count=False) == ["ext:threading.Timer"]]
    if not timers:
        raise AnalysisError("C10: _schedule_next_check no longer creates a threading.Timer")
    sn_delay = None
    for c in timers:
        gs = guards(ctx, fls, c)
        ctx.ob("C10.cam-active", sn.short(), "arm-only-active", implies(relevant(gs, active_f), active_f) is True,
               "a timer is armed only while active", f"{sn.module.rel}:{c.lineno}")
        kw = {k.arg: k.value for k in c.keywords}
        fn = c.args[1] if len(c.args) > 1 else kw.get("function")
        iv = c.args[0] if c.args else kw.get("interval")
        ok = isinstance(fn, ast.Attribute) and dotted(fn.value) == "self" and tm.find_method(fn.attr) is cc
        ctx.ob("C10.cam-rearm", sn.short(), "target", ok, f"timer target `{unparse(fn) if fn is not None else '?'}`", f"{sn.module.rel}:{c.lineno}")
        # period: T_CheckCamGen unless the caller asks for a (shorter) first delay
        alts = fls.alternatives(iv, fls.state_at(c)) if iv is not None else []
        ok, passthrough = bool(alts), []
        for a in alts:
            v = P.try_fold(sn.module, a)
            if isinstance(v, (int, float)) and abs(v - tcheck / 1000.0) < 1e-12:
                continue
            if isinstance(a, ast.Name) and a.id in sn.params:
                passthrough.append(a.id)
                continue
            ok = False
        sn_delay = passthrough
        for m in tm.methods.values():
            for c2 in calls_to(P, m, sn):
                b2 = bind(sn, c2)
                for p_ in passthrough:
                    a = b2.get(p_)
                    if a is None or is_none(a):
                        continue
                    a = ctx.flows.get(m).expand(a, ctx.flows.get(m).state_at(c2))
                    lohi = [P.try_fold(m.module, x) for x in a.args] if isinstance(a, ast.Call) and len(a.args) == 2 and \
                        P.call_targets(m, a, count=False) == ["ext:random.uniform"] else None
                    if not (lohi and all(isinstance(x, (int, float)) for x in lohi) and 0 <= lohi[0] <= lohi[1] <= tcheck / 1000.0 + 1e-12):
                        ok = False
        defaults = {a.arg: d for a, d in zip(reversed(sn.node.args.args), reversed(sn.node.args.defaults))}
        ok = ok and all(is_none(defaults.get(p_)) for p_ in passthrough)
        ctx.ob("C10.cam-rearm", sn.short(), "period", ok, "checks are T_CheckCamGen apart (the first one after a random part of it)", sn.loc)
    stp = tm.methods["stop"]
    flp = ctx.flows.get(stp)
    ss = [(node, v) for m, node, v in stores(tm, "_active") if m is stp]
    cancels = [c for c in P.calls_in(stp) if isinstance(c.func, ast.Attribute) and c.func.attr == "cancel" and dotted(c.func.value) == "self._timer"]
    timer_set = formula(expr("self._timer is not None"))
    ok = len(ss) == 1 and P.try_fold(stp.module, ss[0][1]) is False and not guards(ctx, flp, ss[0][0], primary=True) and bool(cancels) and \
        all(not no_extra_guard(guards(ctx, flp, c, primary=True), [timer_set]) for c in cancels)
    ctx.ob("C10.cam-active", stp.short(), "stop", ok, "stop clears _active and cancels the timer", stp.loc)
    sta = tm.methods["start"]
    fla = ctx.flows.get(sta)
    wanted = {"_active": True, "_cam_count": 0, "_last_cam_time_ms": None, "_last_lf_time_ms": None, "t_gen_cam": tmax}
    activating = [st for k, s, st in fla.exits if k in ("return", "fall") and "self._active" in st.defs]
    missing = []
    for st in activating:
        for attr, val in wanted.items():
            ds = fla.reaching(f"self.{attr}", st)
            v = ds[0].value if len(ds) == 1 and ds[0].kind == "assign" else None
            got = P.try_fold(sta.module, v, default="<?>") if v is not None else "<?>"
            if not (got == val and type(got) is type(val)):
                missing.append(attr)
    ctx.ob("C10.cam-active", sta.short(), "start-resets", bool(activating) and not missing,
           "start resets the per-run state (first CAM, LF timer, T_GenCam)" + ("" if not missing else f" - not reset on activation: {sorted(set(missing))}"), sta.loc)

    # ---- LF container
    lf = tm.methods["_should_include_lf"]
    tlf = const(ctx, CAM, "T_GEN_CAM_LF_MS")
    lf_now = lf.params[1] if len(lf.params) == 2 else None
    if lf_now is None:
        raise AnalysisError("C10: _should_include_lf no longer takes (self, now)")
    bad = []
    NOW = 1_000_000
    for count in (0, 1, 7):
        for last in (None, NOW - 499, NOW - 500, NOW - 501, NOW - 1, NOW - 5000):
            got = bool(Exec(P, lf, {lf_now: NOW, "self._cam_count": count, "self._last_lf_time_ms": last}).run())
            want_ = count == 0 or last is None or NOW - last >= 500
            if got != want_:
                bad.append(f"CAM number {count + 1} of the run, LF container last sent {'never' if last is None else str(NOW - last) + ' ms ago'}: "
                           f"included={got}, the standard says {want_}")
    ctx.ob("C10.cam-lf", lf.short(), "rule", not bad and tlf == 500,
           "LF container in the first CAM and whenever >= 500 ms passed since the last CAM carrying it" + ("" if not bad else " - VIOLATED: " + bad[0]), lf.loc)
    # the decision taken once per CAM: the container is attached exactly when due, and the LF timer restarts on the same decision
    decisions = calls_to(P, g, lf)
    if len(decisions) != 1:
        raise AnalysisError(f"C10: {len(decisions)} evaluations of _should_include_lf in _generate_and_send_cam (confirmed: 1)")
    dec_x = flg.expand(decisions[0], flg.state_at(decisions[0]))
    dec_ok = sem.same(dec_x, f"self._should_include_lf({g_now})")
    dec_f = formula(dec_x)
    attaches = [n_ for n_ in ast.walk(g.node) if isinstance(n_, ast.Assign) and any(sub_key(t) == "lowFrequencyContainer" for t in n_.targets)]
    for node in attaches:
        gs = guards(ctx, flg, node)
        extra = no_extra_guard(guards(ctx, flg, node, primary=True), [dec_f])
        ok = dec_ok and implies(relevant(gs, dec_f), dec_f) is True and not extra
        ctx.ob("C10.cam-lf", g.short(), "attached-iff-due", ok,
               "the LF container is attached exactly when due" + ("" if not extra else " - but only when " + "; ".join(f_show(x) for x in extra[:3])),
               f"{g.module.rel}:{node.lineno}")
    if not attaches:
        ctx.ob("C10.cam-lf", g.short(), "attached-iff-due", False, "the LF container is no longer attached in _generate_and_send_cam", g.loc)
    ss = [(m, node, v) for m, node, v in stores(tm, "_last_lf_time_ms") if not is_none(v)]
    flag = None
    ok = len(ss) == 1 and ss[0][0] is us and ss[0][2] is not None
    why = "" if ok else f" - the LF timer is written in {sorted({m.name for m, _, _ in ss}) or 'no method'} (confirmed: once, in _update_send_state after the transmission)"
    if ok:
        node, v = ss[0][1], ss[0][2]
        prim = guards(ctx, flu, node, primary=True)
        flags = [p_ for p_ in us.params[1:] if prim and implies(prim, formula(expr(p_))) is True and not no_extra_guard(prim, [formula(expr(p_))])]
        ok = len(flags) == 1 and is_param(flu.expand(v, flu.state_at(node)), us_now)
        flag = flags[0] if len(flags) == 1 else None
        why = "" if ok else " - the store is not guarded by exactly one inclusion flag, or does not store the generation time"
    ctx.ob("C10.cam-lf", us.short(), "stamp-iff-included", ok, "LF timer restarted exactly when the container was sent" + why, us.loc)
    for c in us_calls:
        a = flg.expand(bu[flag], stg) if flag is not None and flag in bu else None
        ctx.ob("C10.cam-lf", g.short(), "same-decision", a is not None and dec_ok and sem.cx(a) == sem.cx(dec_x),
               f"the flag that restarts the LF timer (parameter `{flag}` of _update_send_state) is bound to `{sem.cx(a) if a is not None else '?'}`; "
               f"the container was attached on `{sem.cx(dec_x)}`", f"{g.module.rel}:{c.lineno}")
        in_handler = any(k == "handler" for _, k in flg.enclosing_handlers(c))
        sc = tm.methods["_send_cam"]
        sent = any(f.kind == "call" and sc.qual in f.targets for f in stg.facts)
        ctx.ob("C10.cam-min", g.short(), "state-only-after-send", not in_handler and sent,
               "send state is updated only after _send_cam returned", f"{g.module.rel}:{c.lineno}")

    # ---- generationDeltaTime
    gd = P.cls(f"{CAM}.GenerationDeltaTime").methods["from_timestamp"]
    m = gd.module
    for node in ast.walk(gd.node):
        if isinstance(node, ast.Assign) and dotted(node.targets[0]) == "msec":
            v = node.value
            ok = isinstance(v, ast.BinOp) and isinstance(v.op, ast.Mod) and P.try_fold(m, v.right) == 65536 and \
                repr(to_poly(P, m, v.left)) == repr(to_poly(P, m, ast.parse("utc_timestamp_in_seconds*1000 - ITS_EPOCH_MS + ELAPSED_MILLISECONDS", mode="eval").body))
            ctx.ob("C10.gdt", gd.short(), "formula", ok, "generationDeltaTime = (UTC ms - ITS epoch + leap seconds) mod 65536", f"{m.rel}:{node.lineno}")
    fg = P.cls(f"{CAM}.CooperativeAwarenessMessage").methods["fullfill_gen_delta_time_with_tpv_data"]
    flf = ctx.flows.get(fg)
    fg_tpv = fg.params[1] if len(fg.params) > 1 else "tpv"
    ss = [n_ for n_ in ast.walk(fg.node) if isinstance(n_, ast.Assign) and any(sub_key(t) == "generationDeltaTime" for t in n_.targets)]
    ok = len(ss) == 1 and sem.same(ss[0].targets[0], "self.cam['cam']['generationDeltaTime']") and \
        sem.same(flf.expand(ss[0].value, flf.state_at(ss[0])), f"int(GenerationDeltaTime.from_timestamp(parser.parse({fg_tpv}['time']).timestamp()).msec)")
    ctx.ob("C10.gdt", fg.short(), "from-report-time", ok, "CAM generationDeltaTime derives from the report's own 'time'", fg.loc)
    ctx.floor("C10.cam-min", 10)
    ctx.floor("C10.cam-triggers", 9)
    ctx.floor("C10.cam-lf", 4)


# --------------------------------------------------------------------------------------------
# VRU awareness service
# --------------------------------------------------------------------------------------------
def vam(ctx):
    P = ctx.prog
    tm = P.cls(f"{VAM}.VAMTransmissionManagement")
    tmin, tmax, tlf = const(ctx, VC, "T_GENVAMMIN"), const(ctx, VC, "T_GENVAMMAX"), const(ctx, VC, "T_GENVAM_LFMIN")
    ctx.ob("C10.vam-constants", VC, "values", (tmin, tmax, tlf) == (100, 5000, 2000), f"T_GenVamMin={tmin}, T_GenVamMax={tmax}, T_GenVam_LFMin={tlf} (TS 103 300-3: 100/5000/2000 ms)", "")
    cb = tm.methods["location_service_callback"]
    sn = tm.methods["send_next_vam"]
    fl = ctx.flows.get(cb)
    fln = ctx.flows.get(sn)
    cb_tpv = cb.params[1] if len(cb.params) == 2 else None
    sn_vam = sn.params[1] if len(sn.params) == 2 else None
    if cb_tpv is None or sn_vam is None:
        raise AnalysisError("C10: location_service_callback(self, tpv) / send_next_vam(self, vam) changed their parameters")
    sends = [(m, c) for m in tm.methods.values() for c in calls_to(P, m, sn)]
    ctx.ob("C10.vam-min", tm.qual[10:], "single-decision-point", all(m is cb for m, _ in sends), f"VAMs are sent only from location_service_callback", cb.loc)
    if len(sends) < 4:
        raise AnalysisError(f"C10: {len(sends)} VAM transmission sites (confirmed: 5)")
    LASTV = "self.last_vam_generation_delta_time"
    DIFF = expr(f"GenerationDeltaTime.from_timestamp(parser.parse({cb_tpv}['time']).timestamp()) - {LASTV}")

    # ---- the reference of the interval and the first-VAM flag are written together
    ss = [(m, node, v) for m, node, v in stores(tm, "last_vam_generation_delta_time") if not is_none(v)]
    ok = len(ss) == 1 and ss[0][0] is sn and ss[0][2] is not None and \
        sem.same(fln.expand(ss[0][2], fln.state_at(ss[0][1])), f"GenerationDeltaTime(msec={sn_vam}.vam['vam']['generationDeltaTime'])") and \
        not guards(ctx, fln, ss[0][1], primary=True)
    ctx.ob("C10.vam-min", sn.short(), "state", ok, "the reference for the interval is the generationDeltaTime of the VAM just sent", sn.loc)

    def same_block(fl_, a, b) -> bool:
        """Statements a and b are in the same statement list with no statement between them that can leave it."""
        pa, pb = fl_.parent.get(id(a)), fl_.parent.get(id(b))
        if pa is None or pa is not pb:
            return False
        for fld in ("body", "orelse", "finalbody"):
            lst = getattr(pa, fld, None)
            if isinstance(lst, list) and a in lst and b in lst:
                i, j = sorted((lst.index(a), lst.index(b)))
                return not any(isinstance(x, (ast.Return, ast.Raise, ast.Break, ast.Continue))
                               for s_ in lst[i:j + 1] for x in ast.walk(s_))
        return False
    flag_stores = stores(tm, "is_first_vam")
    coherent, why = True, []
    for m, node, v in ss:                                   # every store of a reference clears the flag
        fl_ = ctx.flows.get(m)
        if not any(m2 is m and v2 is not None and P.try_fold(m.module, v2, default="<?>") is False and same_block(fl_, node, n2) for m2, n2, v2 in flag_stores):
            coherent = False
            why.append(f"{m.name} stores the reference at line {node.lineno} without clearing is_first_vam next to it")
    nones = stores(tm, "last_vam_generation_delta_time")
    for m, node, v in flag_stores:
        val = P.try_fold(m.module, v, default="<?>") if v is not None else "<?>"
        fl_ = ctx.flows.get(m)
        if val is False:                                    # the flag is cleared only where a reference is stored
            if not any(m2 is m and same_block(fl_, node, n2) for m2, n2, _ in ss):
                coherent = False
                why.append(f"{m.name} clears is_first_vam at line {node.lineno} without storing the reference of the interval")
        elif val is True:                                   # the flag is raised only where the reference is reset
            if not any(m2 is m and is_none(v2) and same_block(fl_, node, n2) for m2, n2, v2 in nones):
                coherent = False
                why.append(f"{m.name} raises is_first_vam at line {node.lineno} without resetting the reference of the interval")
        else:
            coherent = False
            why.append(f"{m.name} stores a non-constant into is_first_vam at line {node.lineno}")
    ctx.ob("C10.vam-min", tm.qual[10:], "first-flag-coherent", coherent,
           "is_first_vam is cleared exactly where the reference of the interval is stored and raised only where it is reset, so "
           "`is_first_vam` implies `no VAM sent yet` (exceptions raised between the two adjacent stores are not considered)"
           + ("" if coherent else " - VIOLATED: " + "; ".join(why[:3])), sn.loc)
    none_f = formula(expr(f"{LASTV} is None"))
    flag_f = formula(expr("self.is_first_vam"))
    first_goal = ("or", [none_f, flag_f]) if coherent else none_f

    tg_vals = [P.try_fold(m.module, v) if v is not None else None for m, _, v in stores(tm, "t_genvam")]
    tg_ok = bool(tg_vals) and all(isinstance(v, int) for v in tg_vals)
    bounds = {"self.t_genvam": min(tg_vals)} if tg_ok else {}
    cm = "self.clustering_manager"
    gate_f = ("or", [formula(expr(f"{cm} is None")), formula(expr(f"{cm}.should_transmit_vam()"))])
    elapsed_f = formula(ast.Compare(left=copy.deepcopy(DIFF), ops=[ast.GtE()], comparators=[expr("self.t_genvam")]))
    vam_cls = P.cls(f"{VAM}.VAMMessage")
    fill_tpv, fill_dev = vam_cls.find_method("fullfill_with_tpv_data"), vam_cls.find_method("fullfill_with_device_data")
    if fill_tpv is None or fill_dev is None:
        raise AnalysisError("C10: VAMMessage.fullfill_with_tpv_data / fullfill_with_device_data vanished")
    elapsed_sites, dev_missing, elapsed_cover, expected_elapsed = [], [], [], None
    seen_kinds: dict = {}
    for i, (m, c) in enumerate(sends):
        if m is not cb:
            continue
        st = fl.state_at(c)
        loc = f"{cb.module.rel}:{c.lineno}"
        gs = guards(ctx, fl, c)
        first = implies(relevant(gs, first_goal), first_goal) is True
        lb = lower_bound(ctx, fl, st, DIFF, bounds)
        ok = first or (lb is not None and lb >= tmin)
        below = implies(relevant(gs, elapsed_f), ("not", elapsed_f)) is True
        # name the site by what triggers it (stable against sites being added or removed before it)
        encl = [n for n in ast.walk(cb.node) if isinstance(n, ast.If) and any(c is x for b in n.body for x in ast.walk(b))]
        gtxt = " ".join(ast.unparse(n.test) for n in encl) if encl else " ".join(f_show(x) for x in gs)
        if first:
            kind = "first"
        elif implies(relevant(gs, elapsed_f), elapsed_f) is True:
            kind = "elapsed"
        elif "euclidian_distance" in gtxt or "haversine" in gtxt or "'lat'" in gtxt:
            kind = "position"
        elif "'speed'" in gtxt:
            kind = "speed"
        elif "'track'" in gtxt or "heading" in gtxt:
            kind = "heading"
        else:
            kind = f"#{i}"
        seen_kinds[kind] = seen_kinds.get(kind, 0) + 1
        if seen_kinds[kind] > 1:
            kind = f"{kind}~{seen_kinds[kind]}"
        ctx.ob("C10.vam-min", cb.short(), f"send:{kind}:min-interval", ok,
               "first VAM after activation" if first else (f"sent only when the report is >= {lb} ms after the last VAM" if ok else (
                   "a dynamics trigger can send a VAM LESS than T_GenVamMin after the previous one "
                   "(the position/speed/heading tests run on the branch where diff_time < T_GenVam and "
                   "call send_next_vam without a minimum-interval test): at 50 Hz reports VAMs go out 20 ms apart" if below else
                   "a VAM can be sent LESS than T_GenVamMin after the previous one: neither a first-VAM test nor a test "
                   "`report time - time of the last VAM >= T_GenVam (>= T_GenVamMin)` dominates this transmission")),
               loc)
        ctx.ob("C10.vam-gate", cb.short(), f"send#{i}:cluster-gate", implies(relevant(gs, gate_f), gate_f) is True,
               "no transmission while the clustering state machine suppresses individual VAMs (passive / idle)", loc)
        # the VAM handed over is the one built in this callback and filled from this report
        b = bind(sn, c)
        a = b.get(sn_vam)
        ok = isinstance(a, ast.Name)
        if ok:
            ds = fl.reaching(a.id, st)
            ok = len(ds) == 1 and isinstance(ds[0].value, ast.Call) and any(
                isinstance(t, ClassInfo) and t.qual == vam_cls.qual for t in P.call_targets(cb, ds[0].value, count=False))

            def filled(method, argsrc):
                for f in st.facts:
                    if f.kind == "call" and method.qual in f.targets and isinstance(f.node.func, ast.Attribute) and \
                            isinstance(f.node.func.value, ast.Name) and f.node.func.value.id == a.id and \
                            fl.state_at(f.node).defs.get(a.id) == st.defs.get(a.id):
                        bb = bind(method, f.node)
                        if len(bb) == 1 and sem.same(fl.expand(list(bb.values())[0], fl.state_at(f.node)), argsrc):
                            return True
                return False
            ok = ok and filled(fill_tpv, cb_tpv)
            if not filled(fill_dev, "self.device_data_provider"):
                dev_missing.append(f"line {c.lineno}")
        else:
            dev_missing.append(f"line {c.lineno}")
        ctx.ob("C10.gdt", cb.short(), f"send#{i}:built-from-report", ok,
               "the VAM sent is the one filled from this report", loc)
        if not first and implies(relevant(gs, elapsed_f), elapsed_f) is True:
            # a report without a timestamp cannot be timed at all: testing its presence is not an extra condition on the trigger
            has_time = formula(ast.parse(f"'time' in {cb_tpv}", mode="eval").body) if cb_tpv else True
            expected = [gate_f, ("not", none_f), ("not", flag_f), elapsed_f, has_time]
            expected_elapsed = expected
            pg = guards(ctx, fl, c, primary=True)
            elapsed_cover.append(("and", list(pg)) if pg else True)
            if not no_extra_guard(pg, expected):
                elapsed_sites.append(c.lineno)
    ctx.ob("C10.gdt", cb.short(), "filled-from-report", not dev_missing,
           "the VAM reflects this position report and the device data" + ("" if not dev_missing else " - device data not filled in before the transmission at " + ", ".join(dev_missing)), cb.loc)
    # max interval: an elapsed-time trigger exists, depends on nothing else, and uses a bound <= T_GenVamMax
    if not elapsed_sites and elapsed_cover and expected_elapsed is not None:
        # the trigger may be spread over several transmissions (`elapsed and A` first, plain `elapsed` after it): together
        # they must be reached whenever the expected condition holds
        if implies(expected_elapsed, ("or", elapsed_cover)) is True:
            elapsed_sites.append(0)
    ok = bool(elapsed_sites) and tg_ok and max(tg_vals) <= tmax
    ctx.ob("C10.vam-max", cb.short(), "elapsed-trigger", ok, "a report arriving T_GenVam (<= T_GenVamMax) after the last VAM triggers a VAM", cb.loc)

    # ---- the references of the dynamics triggers are the values just sent, converted back to the unit the report uses:
    # speedValue / 100 (0.01 m/s), heading value / 10 (0.1 degree), latitude / longitude / 10^7.  A reference kept in another
    # scale makes `abs(report - reference)` exceed its threshold on every report: VAMs leave at the report rate.
    REF_UNITS = {"last_vam_speed": ("speedValue", 100), "last_vam_heading": ("value", 10)}
    snv = tm.methods.get("send_next_vam")
    if snv is None:
        raise AnalysisError("C10: VAMTransmissionManagement.send_next_vam vanished")
    sfl = ctx.flows.get(snv)
    n_ref = 0

    def unit_ok(v, key, coef):
        if not (isinstance(v, ast.BinOp) and isinstance(v.op, ast.Div)):
            return False, f"`{sem.cx(v)[:60]}` is not <field> / {coef}"
        k = P.try_fold(snv.module, v.right)
        last = v.left.slice if isinstance(v.left, ast.Subscript) else None
        lk = P.try_fold(snv.module, last) if last is not None else None
        if lk != key:
            return False, f"reads `{lk}`, the reference needs `{key}`"
        if not (isinstance(k, (int, float)) and abs(k - coef) < 1e-9):
            return False, f"`{key}` is divided by {k}; its unit needs {coef}"
        return True, f"{key} / {coef}"
    for m_, node, v in stores(tm, "last_vam_speed") + stores(tm, "last_vam_heading"):
        if v is None or is_none(v) or m_.name == "__init__" or id(node) not in ctx.flows.get(m_).before:
            continue
        attr = dotted(node.targets[0])[5:] if isinstance(node, ast.Assign) else dotted(node.target)[5:]
        fl_ = ctx.flows.get(m_)
        xv = fl_.expand(v, fl_.before[id(node)])
        if isinstance(xv, ast.Constant):
            continue
        n_ref += 1
        ok_u, why_u = unit_ok(xv, *REF_UNITS[attr])
        ctx.ob("C10.vam-min", m_.short(), f"reference-unit:{attr}", ok_u,
               f"self.{attr} keeps the value just sent in the report's unit ({why_u})" if ok_u else
               f"self.{attr} is kept in another scale than the report's ({why_u}): the dynamics trigger compares a report in m/s / degrees with a "
               "reference that is off by a power of ten and fires on every report - VAMs leave faster than T_GenVamMin", f"{m_.module.rel}:{node.lineno}")
    for m_, node, v in stores(tm, "last_sent_position"):
        if v is None or is_none(v) or m_.name == "__init__" or id(node) not in ctx.flows.get(m_).before:
            continue
        fl_ = ctx.flows.get(m_)
        xv = fl_.expand(v, fl_.before[id(node)])
        if not (isinstance(xv, ast.Tuple) and len(xv.elts) == 2):
            continue
        n_ref += 1
        res = [unit_ok(e_, k_, 10 ** 7) for e_, k_ in zip(xv.elts, ("latitude", "longitude"))]
        ok_u = all(r[0] for r in res)
        ctx.ob("C10.vam-min", m_.short(), "reference-unit:last_sent_position", ok_u,
               "the reference position is (latitude, longitude) / 10^7 of the VAM just sent" if ok_u else
               "the reference position is not (latitude / 10^7, longitude / 10^7) of the VAM just sent: " + "; ".join(r[1] for r in res if not r[0]),
               f"{m_.module.rel}:{node.lineno}")
    if n_ref < 3:
        raise AnalysisError(f"C10: only {n_ref} trigger references stored after a VAM (confirmed: speed, heading, position)")

    # ---- LF container: the guard of the attachment, interpreted on representatives (first VAM / 2 s boundary / cluster operation)
    lf = tm.methods["_attach_lf_container_if_due"]
    fl2 = ctx.flows.get(lf)
    lf_vam = lf.params[1] if len(lf.params) == 2 else None
    if lf_vam is None:
        raise AnalysisError("C10: _attach_lf_container_if_due(self, vam) changed its parameters")
    attaches = [n_ for n_ in ast.walk(lf.node) if isinstance(n_, ast.Assign) and any(sub_key(t) == "vruLowFrequencyContainer" for t in n_.targets)]
    stamps = [(node, v) for m, node, v in stores(tm, "last_lf_vam_time") if m is lf and not is_none(v)]
    others = [m.name for m, node, v in stores(tm, "last_lf_vam_time") if m is not lf and not is_none(v)]
    NOWS = 1_700_000_000.0

    def block_head(node):
        """First statement of the statement list `node` is in, when nothing between the two can leave the list: `node`
        runs exactly when that statement does, and the tests that lead there have not yet been overwritten."""
        par = fl2.parent.get(id(node))
        for fld in ("body", "orelse", "finalbody"):
            lst = getattr(par, fld, None)
            if isinstance(lst, list) and node in lst:
                k = lst.index(node)
                if not any(isinstance(x, (ast.Return, ast.Raise, ast.Break, ast.Continue)) for s_ in lst[:k] for x in ast.walk(s_)):
                    return lst[0]
        return node

    def decided(node):
        """Truth of the guards in front of `node` on the representatives -> list of (case, bool); None if undecidable."""
        st = fl2.state_at(block_head(node))
        conds = [(fold_consts(P, lf.module, f.xnode, set(st.defs)), f.pol) for f in st.facts if f.kind == "cond" and f.xnode is not f.node]
        out = []
        for is_first in (True, False):
            for last in (None, NOWS - 1.5, NOWS - 2.0, NOWS - 2.5, NOWS - 0.001, NOWS - 60.0):
                for has_op in (False, True):
                    params = {"vruHighFrequencyContainer": {}}
                    if has_op:
                        params["vruClusterOperationContainer"] = {}
                    env = {"self.is_first_vam": is_first, "self.last_lf_vam_time": last, f"{lf_vam}.vam": {"vam": {"vamParameters": params}}}
                    try:
                        val = all(bool(Exec(P, lf, dict(env), clock=NOWS).ev(n_)) == pol for n_, pol in conds)
                    except AnalysisError as e:
                        return None, str(e)
                    want_ = is_first or last is None or (NOWS - last) * 1000 >= tlf or has_op
                    out.append(((is_first, None if last is None else round(NOWS - last, 3), has_op), val, want_))
        return out, ""
    ok, why = len(attaches) == 1, ""
    att_table = None
    if ok:
        att_table, err = decided(attaches[0])
        if att_table is None:
            ok, why = False, f" - the guard of the attachment cannot be evaluated ({err})"
        else:
            bad = [(c, v, w) for c, v, w in att_table if v != w]
            ok = not bad
            if bad:
                c, v, w = bad[0]
                why = (f" - VIOLATED: first VAM={c[0]}, LF container last sent {'never' if c[1] is None else str(c[1]) + ' s ago'}, "
                       f"cluster operation container present={c[2]}: attached={v}, the standard says {w}")
    ctx.ob("C10.vam-lf", lf.short(), "rule", ok, "LF container in the first VAM, after >= 2 s, or with a cluster operation container" + why, lf.loc)
    for node, v in stamps:
        tab, err = decided(node)
        now_x = fl2.expand(v, fl2.state_at(node))
        clock = isinstance(now_x, ast.Call) and isinstance(now_x.func, ast.Attribute) and now_x.func.attr == "time" and not now_x.args
        ok = tab is not None and att_table is not None and [x[1] for x in tab] == [x[1] for x in att_table] and clock and not others
        ctx.ob("C10.vam-lf", lf.short(), "stamp-iff-attached", ok, "the LF timer restarts exactly when the container is attached", f"{lf.module.rel}:{node.lineno}")
    if not stamps:
        ctx.ob("C10.vam-lf", lf.short(), "stamp-iff-attached", False, "the LF timer is no longer restarted where the container is attached", lf.loc)
    # every VAM passes the LF rule: the helper has certainly been called on the VAM before it is encoded
    encs = [c for c in P.calls_in(sn) if isinstance(c.func, ast.Attribute) and c.func.attr == "encode" and dotted(c.func.value) == "self.vam_coder"]
    ok = bool(encs)
    for c in encs:
        st = fln.state_at(c)
        hit = False
        for f in st.facts:
            if f.kind == "call" and lf.qual in f.targets:
                bb = bind(lf, f.node)
                hit = hit or (lf_vam in bb and sem.same(fln.expand(bb[lf_vam], fln.state_at(f.node)), sn_vam))
        enc_arg = fln.expand(c.args[0], st) if c.args else None
        ok = ok and hit and enc_arg is not None and sem.same(enc_arg, f"{sn_vam}.vam")
    ctx.ob("C10.vam-lf", sn.short(), "applied", ok, "every VAM passes the LF rule (on every path, before it is encoded)", sn.loc)
    ctx.floor("C10.vam-min", 8)
    ctx.floor("C10.vam-gate", 5)
    ctx.floor("C10.vam-lf", 3)


def run(ctx):
    ctx.explanation = (
        "Guard rules (K1) on every generation / transmission site, decided as propositional implications over canonical "
        "condition atoms (truth tables, locals expanded, constants folded) including 'no extra guard' for the exactly-when "
        "clauses; arguments bound to callee parameters; bounds rules on every store to T_GenCam, the dynamics thresholds, "
        "the LF rules evaluated by interpreting the syntax trees on representatives of the threshold cells (K10); must-call "
        "on all exits (finally) for re-arming and for the VAM LF rule; paired rules for the low-frequency container; formula "
        "identity for generationDeltaTime. Each decided clause is a necessary condition of the timing bounds of C10; the "
        "bounds themselves (intervals over trajectories under a timer) are statements about runs and are declined.")
    ctx.declined = ["T_GenCamMin <= interval <= T_GenCamMax + check period over trajectories (run property)",
                    "'at the first check at which ...' as a timing statement", "VAM intervals over report streams",
                    "wall-clock use of time.time() for the VAM LF timer", "unit consistency of the VAM 4 m position trigger"]
    cam(ctx)
    vam(ctx)
