"""C04 - no received frame can stop or derail the receive path.

Decides: (a) no exception class can propagate from the wired receive callback closure (GN router ->
verify service -> BTP router -> CAM/DENM/VAM reception -> LDM adaptation -> clustering) out of either
receive loop, (b) no handler that catches such an exception leaves the loop, (c) nothing escapes the
thread function itself, (d) the raw link layer's address filter (own unicast, or broadcast not sent by us).
Does not decide: "processed exactly as if the bad frame had never been received" (state left behind by a
half-processed frame is value level), termination of third-party parsers.
"""
from __future__ import annotations

import ast
import re

from ..prog import AnalysisError, FuncInfo, dotted, unparse
from ..summaries import MayRaise, TOP, Wiring

PROP = "C04"


def _leaves_loop(stmts) -> str:
    """'break' / 'return' / 'raise' if the handler body can leave the enclosing loop, else ''."""
    def rec(nodes, in_loop):
        for n in nodes:
            if isinstance(n, (ast.FunctionDef, ast.AsyncFunctionDef, ast.ClassDef, ast.Lambda)):
                continue
            if isinstance(n, ast.Break) and not in_loop:
                return "break"
            if isinstance(n, ast.Return):
                return "return"
            if isinstance(n, ast.Raise):
                return "raise"
            inner_loop = in_loop or isinstance(n, (ast.For, ast.While))
            for fld in ("body", "orelse", "finalbody", "handlers"):
                v = getattr(n, fld, None)
                if isinstance(v, list):
                    sub = []
                    for x in v:
                        if isinstance(x, ast.ExceptHandler):
                            sub.extend(x.body)
                        elif isinstance(x, ast.stmt):
                            sub.append(x)
                    r = rec(sub, inner_loop if fld == "body" else in_loop)
                    if r:
                        return r
        return ""
    return rec(stmts, False)


def _loop_exits(loop):
    """break / return / raise statements that leave `loop` (nested loops' breaks and nested functions excluded)."""
    out = []

    def rec(nodes, depth):
        for n in nodes:
            if isinstance(n, (ast.FunctionDef, ast.AsyncFunctionDef, ast.ClassDef, ast.Lambda)):
                continue
            if isinstance(n, ast.Break) and depth == 0:
                out.append(n)
            if isinstance(n, (ast.Return, ast.Raise)):
                out.append(n)
            d2 = depth + (1 if isinstance(n, (ast.For, ast.While)) else 0)
            for fld in ("body", "orelse", "finalbody"):
                v = getattr(n, fld, None)
                if isinstance(v, list):
                    rec([x for x in v if isinstance(x, ast.stmt)], d2 if fld == "body" else depth)
            for h in getattr(n, "handlers", []) or []:
                rec(h.body, depth)
    rec(loop.body, 0)
    return out


def _guards_read(fl, handler, read_vars) -> bool:
    """The try statement owning `handler` contains the blocking read of the loop in its body."""
    t = fl.parent.get(id(handler))
    if not isinstance(t, ast.Try):
        return False
    for n in ast.walk(ast.Module(body=t.body, type_ignores=[])):
        if isinstance(n, ast.Assign) and isinstance(n.targets[0], ast.Name) and n.targets[0].id in read_vars:
            return True
    return False


def receive_loops(ctx, wiring):
    """[(FuncInfo, loop node, [callback Call nodes])] for every loop that calls the wired link-layer callback."""
    P = ctx.prog
    out = []
    for fi in P.iter_funcs():
        if fi.cls is None or not any(c.name == "LinkLayer" for c in fi.cls.mro()):
            continue
        calls = [c for c in P.calls_in(fi) if wiring.targets(fi, c) == [wiring.gn_indicate]]
        if not calls:
            continue
        fl = ctx.flows.get(fi)
        loops = {}
        for c in calls:
            cur = c
            loop = None
            while id(cur) in fl.parent:
                cur = fl.parent[id(cur)]
                if isinstance(cur, (ast.While, ast.For)):
                    loop = cur
                    break
            loops.setdefault(id(loop), (loop, []))[1].append(c)
        for loop, cs in loops.values():
            out.append((fi, loop, cs))
    return out


def run(ctx):
    P = ctx.prog
    ctx.explanation = (
        "Exception-escape analysis (K5). A may-raise summary (explicit raises resolved through the repo and builtin "
        "exception hierarchies, enum conversions => ValueError, non-exception raise => TypeError, constant-key subscripts "
        "on decoded mappings => KeyError, unguarded divisions => ZeroDivisionError, asn1tools/ecdsa/tinydb/dateutil/socket "
        "and application callbacks => Exception) is solved as a fixpoint over the whole call graph with the callback "
        "slots resolved by the wiring table (link layer -> GN router -> BTP router -> port handlers, cross-checked against "
        "examples/ and the registration sites). For each receive loop every exception class of the callback closure must "
        "be caught inside the loop by a handler that does not leave it; nothing may escape the thread function. The rule "
        "reasons about exception classes, not bytes, so it covers every frame. The address filter of the raw link layer "
        "is decided as a guard fact on the callback call.")
    ctx.declined = ["state equivalence after a discarded frame ('as if never received')", "termination of third-party parsers"]
    wiring = Wiring(P)
    for n in wiring.notes:
        ctx.note(n)
    mr = MayRaise(P, wiring)
    ctx.extra["may_raise_fixpoint_rounds"] = mr.iterations
    loops = receive_loops(ctx, wiring)
    if len(loops) < 2:
        raise AnalysisError(f"C04: {len(loops)} receive loops found (confirmed: RawLinkLayer.receive, "
                            f"PythonCV2XLinkLayer.callback_handler_loop)")
    closure = mr.of(wiring.gn_indicate)
    ctx.extra["callback_closure_exception_classes"] = sorted(closure)
    ctx.sample({"closure_witnesses": {k: v[:400] for k, v in sorted(closure.items())}})
    if TOP not in closure:
        ctx.note("closure has no unknown-exception source; the catch-all requirement comes from the listed classes only")
    for fi, loop, calls in loops:
        fl = ctx.flows.get(fi)
        con = fi.short()
        if loop is None:
            ctx.ob("C04.escape", con, "not-in-loop", False, "receive callback is not invoked from a loop", fi.loc)
            continue
        for c in calls:
            # enclosing try statements between the call and the loop, innermost first
            chain = []
            cur = c
            while cur is not loop:
                par = fl.parent[id(cur)]
                if isinstance(par, ast.Try) and cur in par.body:
                    chain.append(par)
                cur = par
            idx = calls.index(c)
            for exc, wit in sorted(closure.items()):
                verdict, detail = "escapes", f"no handler inside the loop catches {exc}"
                for t in chain:
                    hit = None
                    for h in t.handlers:
                        types = [] if h.type is None else (
                            [mr.alg.ident(fi, e) or TOP for e in h.type.elts] if isinstance(h.type, ast.Tuple)
                            else [mr.alg.ident(fi, h.type) or TOP])
                        if mr.alg.caught_by(exc, types):
                            hit = h
                            break
                    if hit is not None:
                        lv = _leaves_loop(hit.body)
                        if lv:
                            verdict, detail = "leaves", (f"`except {unparse(hit.type) if hit.type else ''}` at line {hit.lineno} "
                                                         f"catches it and leaves the loop ({lv})")
                        else:
                            verdict, detail = "ok", f"caught at line {hit.lineno}, loop continues"
                        break
                ctx.ob("C04.escape", con, f"call#{idx}:{exc.split('.')[-1]}", verdict == "ok",
                       f"{exc} raised under the receive callback: {detail}. Witness: {wit[:500]}",
                       f"{fi.module.rel}:{c.lineno}")
        # the loop may only be left through the link-down exits: OSError of the read call, or the stop sentinel of the queue
        read_vars = set()
        for n in ast.walk(loop):
            if isinstance(n, ast.Assign) and isinstance(n.value, ast.Call) and isinstance(n.value.func, ast.Attribute) \
                    and n.value.func.attr in ("recv", "recvfrom", "get", "receive") and isinstance(n.targets[0], ast.Name):
                read_vars.add(n.targets[0].id)
        k = 0
        for n in _loop_exits(loop):
            k += 1
            why = None
            par_chain = []
            cur = n
            while cur is not loop:
                cur = fl.parent[id(cur)]
                par_chain.append(cur)
            in_oserror = any(isinstance(p_, ast.ExceptHandler) and p_.type is not None and "OSError" in unparse(p_.type) and
                             _guards_read(fl, p_, read_vars) for p_ in par_chain)
            st = fl.state_at(n)
            sentinel = any(f.kind == "cond" and f.pol and re.fullmatch(r"(\w+) is None", f.key) and f.key.split(" ")[0] in read_vars
                           for f in st.facts) and fi.cls is not None and fi.cls.name != "RawLinkLayer"
            ok = in_oserror or sentinel
            ctx.ob("C04.loop-exits", con, f"{type(n).__name__.lower()}#{k}", ok,
                   f"`{type(n).__name__.lower()}` at line {n.lineno} leaves the receive loop " +
                   ("on the link-down exit (" + ("OSError of the read call" if in_oserror else "stop sentinel") + ")" if ok else
                    "under a condition that depends on the received frame / on frame processing: one frame can end reception for good"),
                   f"{fi.module.rel}:{n.lineno}")
        # nothing escapes the thread function at all
        own = mr.of(fi)
        ctx.ob("C04.thread-survives", con, "escaping-classes", not own,
               "exception classes that can propagate out of the receive thread function: " + (", ".join(sorted(own)) or "none"),
               fi.loc)
    ctx.floor("C04.escape", 16, "(loop, exception class) pairs")

    # ---- address filter of the raw link layer
    raw = P.func("linklayer.raw_link_layer.RawLinkLayer.receive")
    fl = ctx.flows.get(raw)
    cbs = [c for c in P.calls_in(raw) if wiring.targets(raw, c) == [wiring.gn_indicate]]
    for i, c in enumerate(cbs):
        st = fl.state_at(c)
        conds = [(f.xkey, f.pol) for f in st.facts if f.kind == "cond"]
        own_dst = any(p and "[0:6] ==" in k and "mac_address" in k for k, p in conds)
        bcast = any(p and "[0:6] ==" in k and "\\xff\\xff\\xff\\xff\\xff\\xff" in k for k, p in conds)
        not_self = any((not p) and "[6:12] ==" in k and "mac_address" in k for k, p in conds)
        ok = own_dst or (bcast and not_self)
        ctx.ob("C04.filter", raw.short(), f"callback#{i}", ok,
               "receive callback guarded by: " + "; ".join(("" if p else "not ") + k for k, p in conds if "[" in k)
               + (" - accepted frames must be addressed to our MAC, or be broadcasts not sent by us" if not ok else ""),
               f"{raw.module.rel}:{c.lineno}")
        arg = unparse(c.args[0]) if c.args else ""
        ctx.ob("C04.filter", raw.short(), f"callback#{i}:payload", arg.endswith("[14:]"),
               f"callback receives `{arg}` (ethernet header of 14 octets must be stripped)", f"{raw.module.rel}:{c.lineno}")
    ctx.floor("C04.filter", 4)
