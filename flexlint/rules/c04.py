"""C04 - no received frame can stop or derail the receive path.

Decides: (a) no exception class of the may-raise summary of the wired receive callback closure (GN router ->
verify service -> BTP router -> CAM/DENM/VAM reception -> LDM adaptation -> clustering) can propagate out of either
receive loop: each is caught inside the loop by a handler that does not leave it (escape); (b) every break / return
inside a loop sits on a link-down exit - the OSError handler of the read call or the queue's stop sentinel - never
under a condition on the frame (loop-exits), and no statement of a handler inside the loops can raise by itself
(handler-total); (c) nothing escapes the thread function itself (thread-survives); (d) the raw link layer's address
filter as an implication between guard formulas: every callback call is guarded by "own unicast, or broadcast not
sent by us", both kinds stay acceptable, and the callback receives the frame without its 14-octet ethernet header
(filter); (e) in every GeoNetworking receive handler no content-dependent rejection (decode / range / division error
not caught in the handler) can follow the first change of router or location-table state - a frame discarded for
what it contains has not touched the state before - and the dispatcher or a receive handler compares the Common
Header's payload-length field with a len(...) of received octets, the only way to notice a payload that lost its tail
(discard-before-state).
Does not decide: full state equivalence "as if the bad frame had never been received" beyond (e) - in particular not
that the payload-length comparison is the right one or rejects the frame -, exceptions outside the may-raise model
(implicit AttributeError / TypeError), termination of third-party parsers.
"""
from __future__ import annotations

import ast
import copy
import itertools
import re

from .. import sem
from ..prog import AnalysisError, FuncInfo, dotted, unparse
from ..summaries import MayRaise, TOP, Wiring

PROP = "C04"


# --------------------------------------------------------------------------------------------
# propositional reasoning over canonical condition atoms (sem.atoms): guards are compared by truth table, not by text
# --------------------------------------------------------------------------------------------
def _split_args(inner: str) -> list:
    out, depth, cur, q = [], 0, "", None
    for ch in inner:
        if q:
            cur += ch
            if ch == q:
                q = None
            continue
        if ch in "'\"":
            q = ch
        elif ch in "([{":
            depth += 1
        elif ch in ")]}":
            depth -= 1
        elif ch == "," and depth == 0:
            out.append(cur)
            cur = ""
            continue
        cur += ch
    out.append(cur)
    return out


def _lit(atom: str):
    """Literal formula of one canonical atom; `ge(x,y)` is expressed as `not gt(y,x)` so that complementary order
    tests share one propositional variable."""
    neg = atom.startswith("!")
    a = atom[1:] if neg else atom
    if a.startswith("ge(") and a.endswith(")"):
        parts = _split_args(a[3:-1])
        if len(parts) == 2:
            a, neg = f"gt({parts[1]},{parts[0]})", not neg
    f = ("lit", a)
    return ("not", f) if neg else f


def formula(node: ast.AST, pol: bool = True):
    """Propositional formula (True / False / ('lit', atom) / ('not', f) / ('and', [..]) / ('or', [..])) of a condition."""
    if isinstance(node, ast.UnaryOp) and isinstance(node.op, ast.Not):
        return formula(node.operand, not pol)
    if isinstance(node, ast.BoolOp):
        conj = isinstance(node.op, ast.And) == pol
        return ("and" if conj else "or", [formula(v, pol) for v in node.values])
    if isinstance(node, ast.Constant):
        return bool(node.value) == pol
    if isinstance(node, ast.Compare) and len(node.ops) > 1:
        parts, left = [], node.left
        for op, right in zip(node.ops, node.comparators):
            parts.append(formula(ast.Compare(left=left, ops=[op], comparators=[right]), True))
            left = right
        f = ("and", parts)
        return f if pol else ("not", f)
    if isinstance(node, ast.Compare) and isinstance(node.ops[0], (ast.In, ast.NotIn)) \
            and isinstance(node.comparators[0], (ast.Tuple, ast.List, ast.Set)):
        f = ("or", [formula(ast.Compare(left=node.left, ops=[ast.Eq()], comparators=[e]), True)
                    for e in node.comparators[0].elts])
        return f if pol != isinstance(node.ops[0], ast.NotIn) else ("not", f)
    ats = sem.atoms(node, pol)
    if len(ats) == 1:
        return _lit(ats[0])
    return ("and", [_lit(a) for a in ats])


def f_atoms(f, acc=None) -> set:
    acc = set() if acc is None else acc
    if isinstance(f, tuple):
        if f[0] == "lit":
            acc.add(f[1])
        elif f[0] == "not":
            f_atoms(f[1], acc)
        else:
            for x in f[1]:
                f_atoms(x, acc)
    return acc


def f_eval(f, env: dict) -> bool:
    if isinstance(f, bool):
        return f
    if f[0] == "lit":
        return env[f[1]]
    if f[0] == "not":
        return not f_eval(f[1], env)
    if f[0] == "and":
        return all(f_eval(x, env) for x in f[1])
    return any(f_eval(x, env) for x in f[1])


def f_show(f) -> str:
    if isinstance(f, bool):
        return str(f)
    if f[0] == "lit":
        return f[1]
    if f[0] == "not":
        return "not " + f_show(f[1])
    return "(" + (" and " if f[0] == "and" else " or ").join(f_show(x) for x in f[1]) + ")"


def relevant(premises: list, goal) -> list:
    """Premises that share an atom with the goal (a premise about something else cannot help to derive it)."""
    ga = f_atoms(goal)
    return [p for p in premises if f_atoms(p) & ga]


def valid(f, limit: int = 14):
    """True / False when `f` holds under every valuation of its atoms; None when there are too many atoms to decide."""
    names = sorted(f_atoms(f))
    if len(names) > limit:
        return None
    for vals in itertools.product((False, True), repeat=len(names)):
        if not f_eval(f, dict(zip(names, vals))):
            return False
    return True


def implies(premises: list, goal):
    return valid(("or", [("not", ("and", list(premises))), goal]))


def fold_consts(prog, mod, node: ast.AST, local_names=()) -> ast.AST:
    """Copy of `node` with every sub-expression that folds to a module-level constant replaced by that constant."""
    class T(ast.NodeTransformer):
        def _try(self, n):
            if isinstance(n, ast.Name) and (n.id in local_names or "@" in n.id):
                return None
            v = prog.try_fold(mod, n)
            if isinstance(v, (int, float, str, bytes)) and not isinstance(v, bool):
                return ast.Constant(value=v)
            return None

        def visit_Name(self, n):
            return self._try(n) or n

        def visit_Attribute(self, n):
            return self._try(n) or self.generic_visit(n)

        def visit_BinOp(self, n):
            n = self.generic_visit(n)
            return self._try(n) or n
    return T().visit(copy.deepcopy(node))


def guard_formulas(prog, fl, st, local_names=(), primary: bool = False) -> list:
    """Formulas of the conditions certainly in force in state `st` (locals expanded, constants folded).
    `primary`: only the tests written in the function itself (facts derived by inlining a predicate callee or by
    re-normalising an expansion are consequences of those and are left out)."""
    out, seen = [], set()
    for f in st.facts:
        if f.kind != "cond" or (primary and f.xnode is f.node):
            continue
        g = formula(fold_consts(prog, fl.fi.module, f.xnode, local_names), f.pol)
        k = repr(g)
        if k not in seen:
            seen.add(k)
            out.append(g)
    return out


# --------------------------------------------------------------------------------------------
# statements of an exception handler that cannot raise (stated list; implicit TypeErrors of `+` are decided here)
# --------------------------------------------------------------------------------------------
LOG_METHODS = {"debug", "info", "warning", "warn", "error", "exception", "critical", "log"}
_SPEC = re.compile(r"%(\([^)]*\))?[-#0 +]*(\*|\d+)?(?:\.(\*|\d+))?[hlL]?([a-zA-Z%])")


class HandlerSafety:
    """Decides, for the body of one `except` clause, that no statement in it can raise.

    Allowed: pass / continue / break / bare return; `name = <safe expr>`; print(...) and logger calls whose arguments
    are safe expressions; `if <safe test>:` over allowed statements.  Safe expressions: constants, bound names,
    f-strings, str()/repr()/ascii()/format() of a safe expression, type(x).__name__, `e.args` of the bound exception,
    `<str> + <str>` where BOTH operands are known to be strings, `<literal> % <args>` with matching %s/%r/%a
    conversions, tuples of safe expressions, sys.stdout / sys.stderr.  Everything else (in particular
    `<str literal> + <exception object>` and calls of anything else) is reported."""

    def __init__(self, prog, fi, fl, handler: ast.ExceptHandler, try_stmt: ast.Try):
        self.P, self.fi, self.fl, self.h = prog, fi, fl, handler
        self.bound_before = set(fl.state_at(try_stmt).defs)
        self.assigned = set()
        self.reasons: list = []

    # -- names
    def _builtin(self, call: ast.Call, names) -> bool:
        return isinstance(call.func, ast.Name) and call.func.id in names and \
            self.P.call_targets(self.fi, call, count=False) == [f"ext:{call.func.id}"]

    def _bound(self, name: str) -> bool:
        if name == self.h.name or name in self.assigned or name in self.bound_before:
            return True
        if self.P.resolve_name(self.fi.module, name) is not None or name in self.fi.module.imports:
            return True
        return hasattr(__import__("builtins"), name)

    # -- expressions: returns 'str' / 'exc' / 'num' / 'other' (safe, of that kind) or None (may raise)
    def kind(self, e: ast.AST, st):
        if isinstance(e, ast.Constant):
            if isinstance(e.value, str):
                return "str"
            return "num" if isinstance(e.value, (int, float)) and not isinstance(e.value, bool) else "other"
        if isinstance(e, ast.Name):
            if not self._bound(e.id):
                return None
            if e.id == self.h.name and e.id not in self.assigned:
                return "exc"
            x = self.fl.expand(e, st)
            if isinstance(x, ast.Name):
                return "other"
            k = self.kind_of_value(x)
            return k or "other"
        if isinstance(e, ast.JoinedStr):
            for v in e.values:
                if isinstance(v, ast.FormattedValue):
                    k = self.kind(v.value, st)
                    if k is None:
                        return None
                    if v.format_spec is not None and not (v.conversion != -1 or k == "str"):
                        return None
                    if v.format_spec is not None and any(not isinstance(x, ast.Constant) for x in v.format_spec.values):
                        return None
            return "str"
        if isinstance(e, ast.Call):
            if self._builtin(e, {"str", "repr", "ascii", "format"}) and len(e.args) == 1 and not e.keywords:
                return "str" if self.kind(e.args[0], st) is not None else None
            if self._builtin(e, {"type"}) and len(e.args) == 1 and not e.keywords:
                return "other" if self.kind(e.args[0], st) is not None else None
            return None
        if isinstance(e, ast.Attribute):
            if e.attr == "__name__":
                v = e.value
                if isinstance(v, ast.Call) and self._builtin(v, {"type"}) and len(v.args) == 1 and self.kind(v.args[0], st):
                    return "str"
                if isinstance(v, ast.Attribute) and v.attr == "__class__" and self.kind(v.value, st):
                    return "str"
                return None
            if e.attr == "args" and self.kind(e.value, st) == "exc":
                return "other"
            d = dotted(e)
            if d in ("sys.stdout", "sys.stderr") and self.fi.module.imports.get("sys") == ("mod", "sys"):
                return "other"
            return None
        if isinstance(e, ast.Tuple):
            return "other" if all(self.kind(x, st) is not None for x in e.elts) else None
        if isinstance(e, ast.BinOp) and isinstance(e.op, ast.Add):
            a, b = self.kind(e.left, st), self.kind(e.right, st)
            if a == "str" and b == "str":
                return "str"
            if a == "num" and b == "num":
                return "num"
            return None
        if isinstance(e, ast.BinOp) and isinstance(e.op, ast.Mod) and isinstance(e.left, ast.Constant) \
                and isinstance(e.left.value, str):
            specs = [m for m in _SPEC.finditer(e.left.value) if m.group(4) != "%"]
            if any(m.group(1) or m.group(2) == "*" or m.group(3) == "*" or m.group(4) not in "sra" for m in specs):
                return None
            if isinstance(e.right, ast.Tuple):
                ok = len(e.right.elts) == len(specs) and all(self.kind(x, st) is not None for x in e.right.elts)
            else:
                ok = len(specs) == 1 and self.kind(e.right, st) in ("str", "exc", "num")
            return "str" if ok else None
        return None

    def kind_of_value(self, x: ast.AST):
        """Kind of an already evaluated (expanded) definition: only its type matters."""
        if isinstance(x, ast.Constant):
            return "str" if isinstance(x.value, str) else "other"
        if isinstance(x, ast.JoinedStr):
            return "str"
        if isinstance(x, ast.Call) and isinstance(x.func, ast.Name) and x.func.id in ("str", "repr", "ascii", "format") \
                and self.P.resolve_name(self.fi.module, x.func.id) is None:
            return "str"
        if isinstance(x, ast.BinOp) and isinstance(x.op, ast.Add):
            return "str" if self.kind_of_value(x.left) == "str" and self.kind_of_value(x.right) == "str" else None
        if isinstance(x, ast.BinOp) and isinstance(x.op, ast.Mod) and isinstance(x.left, ast.Constant) \
                and isinstance(x.left.value, str):
            return "str"
        return None

    def _test_ok(self, t: ast.AST, st) -> bool:
        if isinstance(t, ast.UnaryOp) and isinstance(t.op, ast.Not):
            return self._test_ok(t.operand, st)
        if isinstance(t, ast.BoolOp):
            return all(self._test_ok(v, st) for v in t.values)
        if isinstance(t, ast.Call) and self._builtin(t, {"isinstance"}) and len(t.args) == 2 and not t.keywords:
            cls = t.args[1].elts if isinstance(t.args[1], ast.Tuple) else [t.args[1]]
            return self.kind(t.args[0], st) is not None and all(
                dotted(c) and self._bound(dotted(c).split(".")[0]) for c in cls)
        if isinstance(t, ast.Compare) and all(isinstance(o, (ast.Is, ast.IsNot)) for o in t.ops):
            return all(self.kind(x, st) is not None for x in [t.left] + t.comparators)
        return isinstance(t, (ast.Name, ast.Constant)) and self.kind(t, st) is not None

    def _is_logger(self, recv: ast.AST) -> bool:
        d = dotted(recv)
        if d and self.fi.module.imports.get(d) == ("mod", "logging"):
            return True
        ts = self.P.expr_types(self.fi, recv)
        return bool(ts) and all(isinstance(t, str) and t.split(":", 1)[-1] in ("logging.getLogger", "logging.Logger")
                                for t in ts)

    def _call_ok(self, c: ast.Call, st) -> str:
        if self._builtin(c, {"print"}):
            for a in c.args:
                if isinstance(a, ast.Starred) or self.kind(a, st) is None:
                    return f"argument `{unparse(a)[:60]}` of print can raise"
            for kw in c.keywords:
                if kw.arg in ("sep", "end", "flush") and isinstance(kw.value, ast.Constant):
                    continue
                if kw.arg == "file" and self.kind(kw.value, st) == "other" and dotted(kw.value) in ("sys.stdout", "sys.stderr"):
                    continue
                return f"keyword `{kw.arg}={unparse(kw.value)[:40]}` of print is not on the list"
            return ""
        if isinstance(c.func, ast.Attribute) and c.func.attr in LOG_METHODS and self._is_logger(c.func.value):
            for a in c.args:
                if isinstance(a, ast.Starred) or self.kind(a, st) is None:
                    return f"argument `{unparse(a)[:60]}` of the logging call can raise"
            for kw in c.keywords:
                if kw.arg in ("exc_info", "stack_info", "stacklevel") and (
                        isinstance(kw.value, ast.Constant) or self.kind(kw.value, st) == "exc"):
                    continue
                return f"keyword `{kw.arg}` of the logging call is not on the list"
            return ""
        return f"call `{unparse(c.func)[:60]}(...)` is not on the list of calls that cannot raise"

    def _stmts(self, stmts: list) -> None:
        for s in stmts:
            st = self.fl.state_at(s)
            where = f"line {s.lineno}"
            if isinstance(s, (ast.Pass, ast.Continue, ast.Break)):
                continue
            if isinstance(s, ast.Return):
                if s.value is not None and self.kind(s.value, st) is None:
                    self.reasons.append(f"{where}: return value `{unparse(s.value)[:60]}` can raise")
                continue
            if isinstance(s, ast.Expr):
                if isinstance(s.value, ast.Call):
                    why = self._call_ok(s.value, st)
                    if why:
                        self.reasons.append(f"{where}: {why}")
                elif self.kind(s.value, st) is None:
                    self.reasons.append(f"{where}: expression `{unparse(s.value)[:60]}` can raise")
                continue
            if isinstance(s, ast.Assign) and len(s.targets) == 1 and isinstance(s.targets[0], ast.Name):
                if self.kind(s.value, st) is None:
                    self.reasons.append(f"{where}: `{unparse(s.value)[:60]}` can raise")
                self.assigned.add(s.targets[0].id)
                continue
            if isinstance(s, ast.If):
                if not self._test_ok(s.test, st):
                    self.reasons.append(f"{where}: test `{unparse(s.test)[:60]}` is not on the list")
                before = set(self.assigned)
                self._stmts(s.body)
                a1 = self.assigned
                self.assigned = set(before)
                self._stmts(s.orelse)
                self.assigned = a1 & self.assigned
                continue
            self.reasons.append(f"{where}: statement `{type(s).__name__}` is not on the list of statements that cannot raise")

    def check(self) -> list:
        self._stmts(self.h.body)
        return self.reasons


def _leaves_loop(stmts) -> str:
    """'break' / 'return' / 'raise' if the handler body can leave the enclosing loop, else ''."""
    def rec(nodes, in_loop):
        for n in nodes:
            if isinstance(n, (ast.FunctionDef, ast.AsyncFunctionDef, ast.ClassDef, ast.Lambda)):
                continue
            if isinstance(n, ast.Break) and not in_loop:
                return "break"
            if isinstance(n, ast.Return):
                return "return"
            if isinstance(n, ast.Raise):
                return "raise"
            inner_loop = in_loop or isinstance(n, (ast.For, ast.While))
            for fld in ("body", "orelse", "finalbody", "handlers"):
                v = getattr(n, fld, None)
                if isinstance(v, list):
                    sub = []
                    for x in v:
                        if isinstance(x, ast.ExceptHandler):
                            sub.extend(x.body)
                        elif isinstance(x, ast.stmt):
                            sub.append(x)
                    r = rec(sub, inner_loop if fld == "body" else in_loop)
                    if r:
                        return r
        return ""
    return rec(stmts, False)


def _loop_exits(loop):
    """break / return / raise statements that leave `loop` (nested loops' breaks and nested functions excluded)."""
    out = []

    def rec(nodes, depth):
        for n in nodes:
            if isinstance(n, (ast.FunctionDef, ast.AsyncFunctionDef, ast.ClassDef, ast.Lambda)):
                continue
            if isinstance(n, ast.Break) and depth == 0:
                out.append(n)
            if isinstance(n, (ast.Return, ast.Raise)):
                out.append(n)
            d2 = depth + (1 if isinstance(n, (ast.For, ast.While)) else 0)
            for fld in ("body", "orelse", "finalbody"):
                v = getattr(n, fld, None)
                if isinstance(v, list):
                    rec([x for x in v if isinstance(x, ast.stmt)], d2 if fld == "body" else depth)
            for h in getattr(n, "handlers", []) or []:
                rec(h.body, depth)
    rec(loop.body, 0)
    return out


def _guards_read(fl, handler, read_vars) -> bool:
    """The try statement owning `handler` contains the blocking read of the loop in its body."""
    t = fl.parent.get(id(handler))
    if not isinstance(t, ast.Try):
        return False
    for n in ast.walk(ast.Module(body=t.body, type_ignores=[])):
        if isinstance(n, ast.Assign) and isinstance(n.targets[0], ast.Name) and n.targets[0].id in read_vars:
            return True
    return False


def receive_loops(ctx, wiring):
    """[(FuncInfo, loop node, [callback Call nodes])] for every loop that calls the wired link-layer callback."""
    P = ctx.prog
    out = []
    for fi in P.iter_funcs():
        if fi.cls is None or not any(c.name == "LinkLayer" for c in fi.cls.mro()):
            continue
        calls = [c for c in P.calls_in(fi) if wiring.targets(fi, c) == [wiring.gn_indicate]]
        if not calls:
            continue
        fl = ctx.flows.get(fi)
        loops = {}
        for c in calls:
            cur = c
            loop = None
            while id(cur) in fl.parent:
                cur = fl.parent[id(cur)]
                if isinstance(cur, (ast.While, ast.For)):
                    loop = cur
                    break
            loops.setdefault(id(loop), (loop, []))[1].append(c)
        for loop, cs in loops.values():
            out.append((fi, loop, cs))
    return out


def run(ctx):
    P = ctx.prog
    ctx.explanation = (
        "Exception-escape analysis (K5). A may-raise summary (explicit raises resolved through the repo and builtin "
        "exception hierarchies, enum conversions => ValueError, non-exception raise => TypeError, constant-key subscripts "
        "on decoded mappings => KeyError, unguarded divisions => ZeroDivisionError, asn1tools/ecdsa/tinydb/dateutil/socket "
        "and application callbacks => Exception) is solved as a fixpoint over the whole call graph with the callback "
        "slots resolved by the wiring table (link layer -> GN router -> BTP router -> port handlers, cross-checked against "
        "examples/ and the registration sites). For each receive loop every exception class of the callback closure must "
        "be caught inside the loop by a handler that does not leave it; nothing may escape the thread function. The rule "
        "reasons about exception classes, not bytes, so it covers every frame. The address filter of the raw link layer "
        "is decided as a guard fact on the callback call.")
    ctx.declined = ["full state equivalence after a discarded frame ('as if never received') - decided only as: no content-dependent "
                    "rejection after the first state change in a GN receive handler", "termination of third-party parsers"]
    wiring = Wiring(P)
    for n in wiring.notes:
        ctx.note(n)
    mr = MayRaise(P, wiring)
    ctx.extra["may_raise_fixpoint_rounds"] = mr.iterations
    loops = receive_loops(ctx, wiring)
    if len(loops) < 2:
        raise AnalysisError(f"C04: {len(loops)} receive loops found (confirmed: RawLinkLayer.receive, "
                            f"PythonCV2XLinkLayer.callback_handler_loop)")
    closure = mr.of(wiring.gn_indicate)
    ctx.extra["callback_closure_exception_classes"] = sorted(closure)
    ctx.sample({"closure_witnesses": {k: v[:400] for k, v in sorted(closure.items())}})
    if TOP not in closure:
        ctx.note("closure has no unknown-exception source; the catch-all requirement comes from the listed classes only")
    for fi, loop, calls in loops:
        fl = ctx.flows.get(fi)
        con = fi.short()
        if loop is None:
            ctx.ob("C04.escape", con, "not-in-loop", False, "receive callback is not invoked from a loop", fi.loc)
            continue
        for c in calls:
            # enclosing try statements between the call and the loop, innermost first
            chain = []
            cur = c
            while cur is not loop:
                par = fl.parent[id(cur)]
                if isinstance(par, ast.Try) and cur in par.body:
                    chain.append(par)
                cur = par
            idx = calls.index(c)
            for exc, wit in sorted(closure.items()):
                verdict, detail = "escapes", f"no handler inside the loop catches {exc}"
                for t in chain:
                    hit = None
                    for h in t.handlers:
                        types = [] if h.type is None else (
                            [mr.alg.ident(fi, e) or TOP for e in h.type.elts] if isinstance(h.type, ast.Tuple)
                            else [mr.alg.ident(fi, h.type) or TOP])
                        if mr.alg.caught_by(exc, types):
                            hit = h
                            break
                    if hit is not None:
                        lv = _leaves_loop(hit.body)
                        if lv:
                            verdict, detail = "leaves", (f"`except {unparse(hit.type) if hit.type else ''}` at line {hit.lineno} "
                                                         f"catches it and leaves the loop ({lv})")
                        else:
                            verdict, detail = "ok", f"caught at line {hit.lineno}, loop continues"
                        break
                ctx.ob("C04.escape", con, f"call#{idx}:{exc.split('.')[-1]}", verdict == "ok",
                       f"{exc} raised under the receive callback: {detail}. Witness: {wit[:500]}",
                       f"{fi.module.rel}:{c.lineno}")
        # the loop may only be left through the link-down exits: OSError of the read call, or the stop sentinel of the queue
        read_vars = set()
        for n in ast.walk(loop):
            if isinstance(n, ast.Assign) and isinstance(n.value, ast.Call) and isinstance(n.value.func, ast.Attribute) \
                    and n.value.func.attr in ("recv", "recvfrom", "get", "receive") and isinstance(n.targets[0], ast.Name):
                read_vars.add(n.targets[0].id)

        def only_oserror(h):
            if h.type is None:
                return False
            ids = [mr.alg.ident(fi, e) for e in (h.type.elts if isinstance(h.type, ast.Tuple) else [h.type])]
            return bool(ids) and all(i is not None and mr.alg.is_sub(i, "OSError") for i in ids)
        k = 0
        for n in _loop_exits(loop):
            k += 1
            par_chain = []
            cur = n
            while cur is not loop:
                cur = fl.parent[id(cur)]
                par_chain.append(cur)
            in_oserror = any(isinstance(p_, ast.ExceptHandler) and only_oserror(p_) and
                             _guards_read(fl, p_, read_vars) for p_ in par_chain)
            fs = sem.facts(fl, n, expanded=False)
            sentinel = any(sem.holds(fs, f"{v} is None") for v in sorted(read_vars)) \
                and fi.cls is not None and fi.cls.name != "RawLinkLayer"
            ok = in_oserror or sentinel
            ctx.ob("C04.loop-exits", con, f"{type(n).__name__.lower()}#{k}", ok,
                   f"`{type(n).__name__.lower()}` at line {n.lineno} leaves the receive loop " +
                   ("on the link-down exit (" + ("OSError of the read call" if in_oserror else "stop sentinel") + ")" if ok else
                    "under a condition that depends on the received frame / on frame processing: one frame can end reception for good"),
                   f"{fi.module.rel}:{n.lineno}")
        # no statement of a handler inside the loop can raise by itself (an exception raised while a bad frame is being
        # reported leaves the thread just like an uncaught one)
        hk = 0
        for t in [x for x in ast.walk(loop) if isinstance(x, ast.Try)]:
            for h in t.handlers:
                reasons = HandlerSafety(P, fi, fl, h, t).check()
                tname = "bare" if h.type is None else re.sub(r"\s+", "", unparse(h.type))
                ctx.ob("C04.handler-total", con, f"handler#{hk}:{tname}", not reasons,
                       f"`except {'' if h.type is None else unparse(h.type)}` at line {h.lineno}: " +
                       ("every statement of the handler is on the cannot-raise list" if not reasons else
                        "the handler itself can raise, which ends the receive thread on the first bad frame - " + "; ".join(reasons[:4])),
                       f"{fi.module.rel}:{h.lineno}")
                hk += 1
        # nothing escapes the thread function at all
        own = mr.of(fi)
        ctx.ob("C04.thread-survives", con, "escaping-classes", not own,
               "exception classes that can propagate out of the receive thread function: " + (", ".join(sorted(own)) or "none"),
               fi.loc)
    ctx.floor("C04.escape", 16, "(loop, exception class) pairs")
    discard_before_state(ctx, mr)

    ctx.floor("C04.handler-total", 5, "handlers inside the receive loops")

    # ---- address filter of the raw link layer
    raw = P.func("linklayer.raw_link_layer.RawLinkLayer.receive")
    fl = ctx.flows.get(raw)
    cbs = [c for c in P.calls_in(raw) if wiring.targets(raw, c) == [wiring.gn_indicate]]
    if raw.cls is None or "mac_address" not in raw.cls.attr_types:
        raise AnalysisError("C04: RawLinkLayer no longer stores its own address in `mac_address`")
    reads = [n for n in ast.walk(raw.node) if isinstance(n, ast.Assign) and isinstance(n.value, ast.Call)
             and isinstance(n.value.func, ast.Attribute) and n.value.func.attr in ("recv", "recvfrom")
             and len(n.targets) == 1 and isinstance(n.targets[0], ast.Name)]
    if len(reads) != 1:
        raise AnalysisError(f"C04: {len(reads)} socket reads bound to a name in RawLinkLayer.receive (confirmed: 1)")
    frame_var = reads[0].targets[0].id
    if not cbs:
        raise AnalysisError("C04: RawLinkLayer.receive no longer calls the receive callback")
    BCAST = b"\xff" * 6
    accepted, bad_guard, bad_payload, shown = [], [], [], []
    to_us = foreign_bcast = None
    for i, c in enumerate(cbs):
        st = fl.state_at(c)
        local_names = set(st.defs)
        frame = fold_consts(P, raw.module, fl.expand(ast.Name(id=frame_var, ctx=ast.Load()), st), local_names)
        own = fold_consts(P, raw.module, fl.expand(ast.parse("self.mac_address", mode="eval").body, st), local_names)

        def field(lo, hi):
            return ast.Subscript(value=copy.deepcopy(frame), slice=ast.Slice(lower=ast.Constant(lo), upper=ast.Constant(hi)),
                                 ctx=ast.Load())

        def eq(a, b):
            return formula(ast.Compare(left=a, ops=[ast.Eq()], comparators=[b]))
        to_us = eq(field(0, 6), own)
        foreign_bcast = ("and", [eq(field(0, 6), ast.Constant(BCAST)), ("not", eq(field(6, 12), own))])
        goal = ("or", [to_us, foreign_bcast])
        guards = relevant(guard_formulas(P, fl, st, local_names), goal)
        accepted.append(("and", guards))
        shown.append(f"line {c.lineno}: " + (" and ".join(f_show(g) for g in guards) or "no test of the address fields"))
        if implies(guards, goal) is not True:
            bad_guard.append(f"line {c.lineno}")
        # payload: the frame without its 14-octet ethernet header
        arg = fold_consts(P, raw.module, fl.expand(c.args[0], st), local_names) if c.args else None
        ok = isinstance(arg, ast.Subscript) and isinstance(arg.slice, ast.Slice) and sem.cx(arg.value) == sem.cx(frame) \
            and arg.slice.step is None and isinstance(arg.slice.lower, ast.Constant) and arg.slice.lower.value == 14 \
            and (arg.slice.upper is None or sem.same(arg.slice.upper, ast.Call(func=ast.Name(id="len", ctx=ast.Load()),
                                                                               args=[copy.deepcopy(frame)], keywords=[])))
        if not ok:
            bad_payload.append(f"line {c.lineno}: `{sem.cx(arg) if arg is not None else ''}`")
    # one obligation per clause of the filter (the number of callback call sites is free: one merged test or several)
    ctx.ob("C04.filter", raw.short(), "rejects-unaddressed", not bad_guard,
           "address guards of the callback calls - " + "; ".join(shown) +
           ("" if not bad_guard else " - the guards at " + ", ".join(bad_guard) + " do not imply `destination == own MAC or "
            "(destination == broadcast and source != own MAC)`: accepted frames must be addressed to our MAC, or be broadcasts not sent by us"),
           f"{raw.module.rel}:{cbs[0].lineno}")
    for disc, case, what in (("accepts:unicast-to-us", to_us, "frames addressed to our MAC"),
                             ("accepts:foreign-broadcast", foreign_bcast, "broadcasts of other stations")):
        ok = implies([case], ("or", accepted))
        ctx.ob("C04.filter", raw.short(), disc, ok is True,
               what + (" are compatible with the address guards of some callback call (necessary for delivery)" if ok else
                       " are excluded by the address guards of every callback call (" + " | ".join(shown) + ")"), raw.loc)
    ctx.ob("C04.filter", raw.short(), "payload", not bad_payload,
           "every callback receives the frame read from the socket with its ethernet header of 14 octets stripped" if not bad_payload
           else "callback payload is not `<frame>[14:]`: " + "; ".join(bad_payload), f"{raw.module.rel}:{cbs[0].lineno}")
    ctx.floor("C04.filter", 4)


# ---------------------------------------------------------------------------------------------------------------------
# a frame that is going to be discarded because of what it CONTAINS must be discarded before it changed any state
# ---------------------------------------------------------------------------------------------------------------------
STATE = [("geonet.location_table.LocationTable", "loc_t"),
         ("geonet.location_table.LocationTableEntry", "position_vector"), ("geonet.location_table.LocationTableEntry", "tst"),
         ("geonet.location_table.LocationTableEntry", "pdr"), ("geonet.location_table.LocationTableEntry", "is_neighbour"),
         ("geonet.location_table.LocationTableEntry", "dpl_set"), ("geonet.location_table.LocationTableEntry", "dpl_deque"),
         ("geonet.location_table.LocationTableEntry", "ls_pending"),
         ("geonet.router.Router", "_cbf_buffer"), ("geonet.router.Router", "_ls_packet_buffers"), ("geonet.router.Router", "_ls_timers"),
         ("geonet.router.Router", "_ls_retransmit_counters")]
# exception classes that are a verdict on the frame's content (malformed / out-of-range fields)
CONTENT_ERRORS = ("DecodeError", "DecapError", "ValueError", "KeyError", "IndexError", "ZeroDivisionError", "struct.error", "error",
                  "TypeError", "OverflowError", "AssertionError", "UnicodeDecodeError", "AttributeError")


# failures inside these functions concern a locally buffered REQUEST that is re-issued (LS reply flush), not the received frame
LOCAL_REQUEST_FUNCS = {"gn_data_request_guc", "gn_data_request_gbc", "gn_data_request_shb", "gn_data_request"}


def _origin_function(P, witness: str):
    """The function containing the raise site a may-raise witness ends in (last `file:line` of the witness)."""
    locs = re.findall(r"(src/[\w/\.]+\.py):(\d+)", witness)
    if not locs:
        return None
    rel, line = locs[-1][0], int(locs[-1][1])
    best = None
    for f in P.iter_funcs():
        if f.module.rel == rel and f.node.lineno <= line <= (f.node.end_lineno or f.node.lineno):
            if best is None or f.node.lineno >= best.node.lineno:
                best = f
    return best


def _positions(fi):
    """node id -> list of (id(block list), index) from the function body down to the statement holding the node."""
    pos = {}

    def walk_block(lst, prefix):
        for i, s in enumerate(lst):
            here = prefix + [(id(lst), i)]
            for n in ast.walk(s):
                if id(n) not in pos or len(pos[id(n)]) < len(here):
                    pos[id(n)] = here
            for fld in ("body", "orelse", "finalbody"):
                sub = getattr(s, fld, None)
                if isinstance(sub, list) and sub and isinstance(sub[0], ast.stmt):
                    walk_block(sub, here)
            for h in getattr(s, "handlers", []) or []:
                walk_block(h.body, here)
    walk_block(fi.node.body, [])
    return pos


def _after(pos, a, b) -> bool:
    """b can execute after a on some path of straight-line order: they share a block in which a's statement comes first."""
    pa, pb = pos.get(id(a)), pos.get(id(b))
    if not pa or not pb:
        return False
    for (ba, ia), (bb, ib) in zip(pa, pb):
        if ba != bb:
            return False
        if ia < ib:
            return True
        if ia > ib:
            return False
    return False


def discard_before_state(ctx, mr):
    from . import gnutil as G
    from ..summaries import Writes
    P = ctx.prog
    W = Writes(ctx, STATE)
    n_handlers = 0
    for h in G.receive_handlers(ctx):
        fi = h.fi
        fl = ctx.flows.get(fi)
        pos = _positions(fi)
        calls = sorted(P.calls_in(fi), key=lambda c: (c.lineno, c.col_offset))
        mut = []
        for c in calls:
            callees, _direct = mr.call_effect(fi, c)
            w = set()
            for t in callees:
                w |= W.of(t)
            if w:
                mut.append((c, w))
        if not mut:
            continue
        n_handlers += 1
        first, wset = mut[0]
        late = []
        # functions already evaluated on this frame BEFORE the first state change: their content errors (which depend only on
        # the frame's own fields - for the geometric function: sub-type and area, tied to the packet by C07.area-from-packet)
        # have been raised by then, a second evaluation on the same frame cannot raise them
        prevalidated = set()
        for c in calls:
            if c is first or _after(pos, first, c) or not _after(pos, c, first):
                continue
            for t in mr.call_effect(fi, c)[0]:
                prevalidated.add(t.qual)
        # calls after the first state change that can still raise a content error not caught inside the handler
        for c in calls:
            if c is first or not _after(pos, first, c):
                continue
            callees, direct = mr.call_effect(fi, c)
            exc = dict(direct)
            for t in callees:
                for e, wit in mr.of(t).items():
                    exc.setdefault(e, wit)
            for e, wit in exc.items():
                base = e.split(".")[-1]
                if base not in CONTENT_ERRORS and e not in CONTENT_ERRORS:
                    continue
                origin = _origin_function(P, wit)
                if origin is not None and origin.qual in prevalidated:
                    continue
                if origin is not None and origin.name in LOCAL_REQUEST_FUNCS:
                    continue
                caught = False
                for t_, _k in fl.enclosing_handlers(c):
                    if isinstance(t_, ast.Try):
                        for hh in t_.handlers:
                            types = [] if hh.type is None else ([mr.alg.ident(fi, x) or TOP for x in hh.type.elts] if isinstance(hh.type, ast.Tuple)
                                                                else [mr.alg.ident(fi, hh.type) or TOP])
                            if mr.alg.caught_by(e, types):
                                caught = True
                if not caught:
                    late.append((c, e, wit))
        # divisions evaluated in the handler itself after the first state change
        for n in ast.walk(fi.node):
            if isinstance(n, ast.BinOp) and isinstance(n.op, (ast.Div, ast.FloorDiv, ast.Mod)) and _after(pos, first, n):
                if P.try_fold(fi.module, n.right, default=None) is None and not mr._divisor_guarded(fi, n):
                    late.append((n, "ZeroDivisionError", f"{fi.module.rel}:{n.lineno} division by `{unparse(n.right)[:40]}`"))
        ok = not late
        detail = (f"the first state change ({unparse(first.func)}(...), writes {sorted(wset)[:3]}) comes after every step that can reject the frame "
                  "for its content") if ok else (
            f"after the state change at line {first.lineno} ({unparse(first.func)}(...)) the frame can still be rejected: "
            + "; ".join(f"line {getattr(c, 'lineno', '?')}: {e} ({wit[:140]})" for c, e, wit in late[:3])
            + " - a frame discarded for its content has already updated the location table / duplicate list, so a later well-formed "
              "frame is treated differently (e.g. dropped as duplicate)")
        ctx.ob("C04.discard-before-state", fi.short(), "content-errors-precede-state", ok, detail, f"{fi.module.rel}:{first.lineno}")
    if n_handlers < 5:
        raise AnalysisError(f"C04: only {n_handlers} receive handlers with a state change found (confirmed: 8)")
    # truncation that leaves the headers intact is only detectable through the payload-length field: it has to be compared
    # with the octets actually received before a handler changes state
    pch = P.func(f"{G.ROUTER}.process_common_header")
    users = [pch] + [h.fi for h in G.receive_handlers(ctx)]
    checked = False
    for f in users:
        for n in ast.walk(f.node):
            if isinstance(n, ast.Compare):
                txt = unparse(n)
                if ".pl" in txt and "len(" in txt:
                    checked = True
    ctx.ob("C04.discard-before-state", pch.short(), "payload-length-checked", checked,
           "the payload-length field is compared with the number of octets received before dispatch" if checked else
           "the Common Header's PL field is never compared with the octets actually received: a frame that lost the tail of its payload "
           "(headers intact) is processed as valid - location table and duplicate list updated, packet forwarded - and the intact copy "
           "arriving later is dropped as a duplicate", pch.loc)
