"""Shared K6 rule bodies for C15 (GeoNetworking router) and C16 (LDM)."""
from __future__ import annotations

import ast

from ..prog import AnalysisError, FuncInfo, dotted, unparse
from ..locks import LockAnalysis


def constructor_time_only(P, fi: FuncInfo) -> bool:
    """fi is only called from __init__ of its own class (object not shared yet)."""
    callers = P.callers_of(fi)
    return bool(callers) and all(c.name == "__init__" and c.cls is not None and fi.cls is not None
                                 and (c.cls is fi.cls or fi.cls in c.cls.mro()) for c, _ in callers)


def check_lockset(ctx, la: LockAnalysis, table, rule: str):
    """table rows: (class, field, lock, mode, reason).  mode: all | write | rmw"""
    P = ctx.prog
    for cls_name, field, lock, mode, reason in table:
        if lock not in la.lock_kinds:
            raise AnalysisError(f"{rule}: lock {lock} named by the shared-state table is not created in any __init__")
        acc = la.accesses(cls_name, field, lock)
        if not acc:
            raise AnalysisError(f"{rule}: no access to {cls_name}.{field} found (field renamed?)")
        n_checked = 0
        for a in acc:
            if constructor_time_only(P, a.fi):
                continue
            need = (mode == "all") or (mode == "write" and a.kind in ("write", "rmw")) or (mode == "rmw" and a.kind == "rmw")
            if not need:
                continue
            n_checked += 1
            ok = lock in a.locks
            ctx.ob(rule, a.fi.short(), f"{field}:{a.kind}:{a.how}:{_ordinal(acc, a)}", ok,
                   f"{a.kind} of {cls_name.split('.')[-1]}.{field} ({a.how}, `{unparse(a.stmt)[:70] if a.stmt is not None else ''}`) "
                   + (f"holds {lock}" if ok else f"without {lock} (held: {list(a.locks) or 'none'}) - {reason}"),
                   f"{a.fi.module.rel}:{a.line}")
        if n_checked == 0:
            raise AnalysisError(f"{rule}: table row {cls_name}.{field}/{mode} matched no access")


def _ordinal(acc, a) -> int:
    same = [x for x in acc if x.fi is a.fi and x.kind == a.kind and x.how == a.how]
    return same.index(a)


def check_single_section(ctx, la: LockAnalysis, table, rule: str):
    """Check-then-act atomicity: inside one function, a read of a guarded field in one critical section followed by
    a write of the same field in a *different* critical section of the same lock splits a read-modify-write."""
    n = 0
    for cls_name, field, lock, mode, reason in table:
        acc = [a for a in la.accesses(cls_name, field, lock) if lock in a.locks]
        by_fn = {}
        for a in acc:
            by_fn.setdefault(a.fi.qual, []).append(a)
        for q, lst in by_fn.items():
            lst.sort(key=lambda a: (a.line, getattr(a.node, "col_offset", 0)))
            fi = lst[0].fi
            sections = []
            for a in lst:
                if a.with_node is not None and a.with_node not in sections:
                    sections.append(a.with_node)
            n += 1
            bad = None
            for i, r in enumerate(lst):
                if r.kind not in ("read", "rmw"):
                    continue
                for w in lst[i + 1:]:
                    if w.kind in ("write", "rmw") and w.with_node is not r.with_node and r.with_node is not None \
                            and w.with_node is not None:
                        # a return/raise between the two sections on every path makes them alternatives, not a sequence
                        if _section_always_exits_before(la.flow(fi), r.with_node, w.with_node):
                            continue
                        bad = (r, w)
                        break
                if bad:
                    break
            ctx.ob(rule, fi.short(), f"{field}:sections", bad is None,
                   f"{len(sections)} critical section(s) of {lock} touch {field}" +
                   (f"; read at line {bad[0].line} and write at line {bad[1].line} are in different sections: the "
                    f"check-then-act on {field} is not atomic" if bad else ""),
                   f"{fi.module.rel}:{lst[0].line}")
    return n


def _section_always_exits_before(fl, w1, w2) -> bool:
    """True when control cannot flow from section w1 to section w2 (w1 always returns/raises)."""
    def exits(stmts):
        if not stmts:
            return False
        last = stmts[-1]
        if isinstance(last, (ast.Return, ast.Raise)):
            return True
        if isinstance(last, ast.If):
            return exits(last.body) and exits(last.orelse)
        return False
    return exits(w1.body)


def check_order(ctx, la: LockAnalysis, classes: set, rule: str, wiring=None):
    edges = la.order_edges(classes, wiring)
    seen = set()
    for h, k, site in edges:
        if (h, k) in seen:
            continue
        seen.add((h, k))
        if h == k:
            kind = la.lock_kinds.get(h, "?")
            ctx.ob(rule, "lock-order", f"reacquire:{h}", kind == "RLock",
                   f"{site}: {h} is a {kind}" + ("" if kind == "RLock" else " - re-acquisition self-deadlocks"), site.split(" ")[0])
        else:
            ctx.ob(rule, "lock-order", f"edge:{h}->{k}", True, site, site.split(" ")[0])
    cyc = la.find_cycle(edges)
    ctx.ob(rule, "lock-order", "acyclic", cyc is None,
           "acquired-while-held graph: " + ", ".join(sorted(f"{a}->{b}" for a, b in seen)) +
           (f"; CYCLE {' -> '.join(cyc)}" if cyc else " (acyclic)"))
    return edges
