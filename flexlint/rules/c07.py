"""C07 - geo-addressed packets are delivered exactly inside the destination area.

Decides: the delivery decision of the GBC and GAC receivers IS the sign of the geometric function F evaluated on the
area decoded from the packet (field by field), the packet's shape sub-type and the ego position; the three shape
formulas of EN 302 931 as formula identities (polynomial normal form) and their use of every area parameter; the
area-size formulas and the size guard in front of every origination and forward; the Annex D decision table and that
no packet is emitted on a DISCARD outcome.
Does not decide the numerical accuracy of the distance projection over the continuous plane.
"""
from __future__ import annotations

import ast
import re

from ..prog import AnalysisError, ClassInfo, FuncInfo, dotted, unparse
from ..absint import to_poly
from ..match import pretty
from . import gnutil as G

PROP = "C07"
ROUTER = "geonet.router.Router"


def norm(s):
    return re.sub(r"\s+", "", s)


F_RE = (r"self\.gn_geometric_function_f\(common_header\.hst,Area\((?P<area>[^()]*(?:\([^()]*\)[^()]*)*)\),"
        r"self\.ego_position_vector\.latitude,self\.ego_position_vector\.longitude\)")


def run(ctx):
    P = ctx.prog
    ctx.explanation = (
        "Guard rules (K1) tie every GNDataIndication of the GBC/GAC receivers to `F >= 0`, where F must expand to the "
        "geometric function applied to the area built field-by-field from the decoded header, the packet's own shape "
        "sub-type and the ego position; formula-identity rules compare the three shape branches of "
        "gn_geometric_function_f and of the area-size function with EN 302 931 / Annex B.3 after normalising to "
        "polynomials (so any algebraically equal rewrite passes and any other fails) and demand dependence on the azimuth; "
        "the size guard and the Annex D outcome must dominate every emission. The rules cover every area, position and "
        "shape because they are identities / path-universal guards.")
    ctx.declined = ["numerical accuracy of calculate_distance (equirectangular projection) over the continuous plane",
                    "antimeridian / pole behaviour"]
    handlers = {h.fi.name: h for h in G.receive_handlers(ctx)}
    # ------------------------------------------------------------------ deliver iff inside
    for name in ("gn_data_indicate_gbc", "gn_data_indicate_gac"):
        h = handlers.get(name)
        if h is None:
            raise AnalysisError(f"C07: handler {name} vanished")
        fl = ctx.flows.get(h.fi)
        sinks = G.sinks_of(ctx, h)
        dels = [s for s in sinks if s.kind == "deliver"]
        if not dels:
            raise AnalysisError(f"C07: {name} has no delivery sink")
        dec = norm(pretty(unparse(fl.expand(h.decode_call, fl.state_at(h.decode_call)))))
        for i, s in enumerate(dels):
            st = fl.state_at(s.node)
            loc = f"{h.fi.module.rel}:{s.node.lineno}"
            hit = None
            for f in st.facts:
                if f.kind == "cond" and f.pol:
                    k = norm(pretty(f.xkey))
                    m = re.fullmatch(F_RE + r">=0(\.0)?", k)
                    if m:
                        hit = m
            ctx.ob("C07.deliver-iff-inside", h.fi.short(), f"deliver#{i}:guard", hit is not None,
                   "delivery guarded by F(area from packet, packet's shape, ego position) >= 0" if hit else
                   "delivery is not guarded on every path by `gn_geometric_function_f(common_header.hst, <area decoded from the "
                   "packet>, ego lat, ego lon) >= 0` (inside or on the border)", loc)
            if hit:
                kws = dict(p.split("=", 1) for p in _split_top(hit.group("area")))
                for fld in ("latitude", "longitude", "a", "b", "angle"):
                    ctx.ob("C07.deliver-iff-inside", h.fi.short(), f"deliver#{i}:area.{fld}", kws.get(fld) == f"{dec}.{fld}",
                           f"Area.{fld} = `{kws.get(fld, '<absent>')[:70]}`; must be the packet's `{fld}` field", loc)
            kws = {kw.arg: kw.value for kw in s.node.keywords if kw.arg}
            da = norm(pretty(unparse(fl.expand(kws.get("destination_area", ast.Constant(None)), st))))
            ctx.ob("C07.deliver-iff-inside", h.fi.short(), f"deliver#{i}:indicated-area", da.startswith("Area(") and dec in da,
                   f"indication carries the decoded destination area (`{da[:60]}`)", loc)
        # outside => never delivered: the only non-None values returned are the guarded constructions
        for k, s_, st in fl.exits:
            if k == "return" and s_.value is not None:
                for alt in fl.alternatives(s_.value, st):
                    t = norm(pretty(unparse(alt)))
                    ok = t == "None" or t.startswith("GNDataIndication(")
                    ctx.ob("C07.deliver-iff-inside", h.fi.short(), f"return:{t[:24]}", ok,
                           f"handler returns `{t[:60]}`", f"{h.fi.module.rel}:{s_.lineno}")
        if name == "gn_data_indicate_gac":
            for s in sinks:
                if s.kind == "send":
                    st = fl.state_at(s.node)
                    outside = any(f.kind == "cond" and f.pol and re.fullmatch(r"0(\.0)?>" + F_RE, norm(pretty(f.xkey)))
                                  for f in st.facts)
                    ctx.ob("C07.deliver-iff-inside", h.fi.short(), "gac-forward-only-outside", outside,
                           "GeoAnycast is forwarded only when the station is outside the area (F < 0)", f"{h.fi.module.rel}:{s.node.lineno}")
    ctx.floor("C07.deliver-iff-inside", 16)
    shapes(ctx)
    size_control(ctx, handlers)
    annex_d(ctx, handlers)


def _split_top(s: str) -> list:
    out, depth, cur = [], 0, ""
    for ch in s:
        if ch in "([":
            depth += 1
        elif ch in ")]":
            depth -= 1
        if ch == "," and depth == 0:
            out.append(cur)
            cur = ""
        else:
            cur += ch
    if cur:
        out.append(cur)
    return out


def _shape_of(test: ast.AST) -> str:
    t = unparse(test)
    for k in ("CIRCLE", "RECT", "ELIP"):
        if k in t:
            return k
    return ""


def shapes(ctx):
    P = ctx.prog
    fi = P.func(f"{ROUTER}.gn_geometric_function_f")
    fl = ctx.flows.get(fi)
    mod = fi.module
    ren = lambda s: pretty(s)
    spec = {"CIRCLE": "1 - (X/area.a)**2 - (Y/area.a)**2",
            "ELIP": "1 - (X/area.a)**2 - (Y/area.b)**2",
            "RECT": "min(1 - (X/area.a)**2, 1 - (Y/area.b)**2)"}
    found = set()
    for node in ast.walk(fi.node):
        if isinstance(node, ast.If) and _shape_of(node.test):
            shape = _shape_of(node.test)
            rets = [b for b in node.body if isinstance(b, ast.Return)]
            if not rets:
                continue
            found.add(shape)
            r = rets[0]
            st = fl.state_at(r)
            raw = r.value
            # name the two projected distances X, Y: they are the components of calculate_distance(centre, point)
            x = fl.expand(raw, st)
            xt = pretty(unparse(x))
            m = re.search(r"Router\.calculate_distance\((.*?)\)\[0\]", xt)
            dist_args = m.group(1) if m else ""
            sub = xt.replace(f"Router.calculate_distance({dist_args})[0]", "X").replace(f"Router.calculate_distance({dist_args})[1]", "Y")
            try:
                got = to_poly(P, mod, ast.parse(sub, mode="eval").body, ren)
                want = to_poly(P, mod, ast.parse(spec[shape], mode="eval").body, ren)
                same = repr(got) == repr(want)
            except SyntaxError:
                same, got, want = False, sub, spec[shape]
            loc = f"{mod.rel}:{r.lineno}"
            ctx.ob("C07.shape-formula", fi.short(), f"{shape}:formula", same,
                   f"F for {shape} is `{sub[:100]}`" + ("" if same else f"; EN 302 931 gives `{spec[shape]}` (X, Y = distances "
                                                                       f"of the point from the centre along the axes)"), loc)
            both = [shape in unparse(node.test) and "GeoBroadcastHST" in unparse(node.test), "GeoAnycastHST" in unparse(node.test)]
            ctx.ob("C07.shape-formula", fi.short(), f"{shape}:both-transports", all(both),
                   "branch covers the GBC and the GAC sub-type of the shape", loc)
            centre_ok = norm(dist_args).startswith("(area.latitude/10000000,area.longitude/10000000),(lat/10000000,lon/10000000)")
            ctx.ob("C07.shape-formula", fi.short(), f"{shape}:inputs", centre_ok,
                   f"distances are taken between the area centre and the point (`{dist_args[:90]}`)", loc)
            uses_angle = "area.angle" in xt
            if shape == "CIRCLE":
                continue        # a circle is rotation invariant
            ctx.ob("C07.uses-all-params", fi.short(), f"{shape}:angle", uses_angle,
                   f"F for {shape} " + ("uses the azimuth angle" if uses_angle else
                                        "never reads area.angle: a rotated rectangle/ellipse is evaluated as if its azimuth were 0 "
                                        "(transform_distance_angle exists but has no caller)"), loc)
    if found != {"CIRCLE", "RECT", "ELIP"}:
        raise AnalysisError(f"C07: shape branches found {sorted(found)}")
    # distance projection: sign conventions and axes
    cd = P.func(f"{ROUTER}.calculate_distance")
    src = norm(unparse(cd.node))
    ctx.ob("C07.shape-formula", cd.short(), "returns-x-y", "returnx_distance,y_distance" in src.replace("(", "").replace(")", ""),
           "calculate_distance returns (x, y)", cd.loc)
    # area size
    az = P.func(f"{ROUTER}._compute_area_size_m2")
    fl = ctx.flows.get(az)
    want = {"CIRCLE": "math.pi*area.a*area.a", "ELIP": "math.pi*area.a*area.b"}
    seen = set()
    for node in ast.walk(az.node):
        if isinstance(node, ast.If) and _shape_of(node.test):
            shape = _shape_of(node.test)
            r = [b for b in node.body if isinstance(b, ast.Return)][0]
            got = to_poly(P, az.module, r.value, ren)
            w = to_poly(P, az.module, ast.parse(want[shape], mode="eval").body, ren)
            seen.add(shape)
            ctx.ob("C07.size-control", az.short(), f"{shape}:area", repr(got) == repr(w),
                   f"area of {shape} = `{unparse(r.value)}` (must equal {want[shape]})", f"{az.module.rel}:{r.lineno}")
    last = [b for b in az.node.body if isinstance(b, ast.Return)]
    if last:
        got = to_poly(P, az.module, last[-1].value, ren)
        w = to_poly(P, az.module, ast.parse("4*area.a*area.b", mode="eval").body, ren)
        ctx.ob("C07.size-control", az.short(), "RECT:area", repr(got) == repr(w),
               f"area of RECT = `{unparse(last[-1].value)}` (must equal 4*a*b: a, b are half side lengths)", f"{az.module.rel}:{last[-1].lineno}")
    ctx.floor("C07.shape-formula", 9)


SIZE_OK = r"self\.mib\.itsGnMaxGeoAreaSize\*1000000>=Router\._compute_area_size_m2\((cast\(.*?\),|.*?header_subtype,|common_header\.hst,)"


def size_control(ctx, handlers):
    P = ctx.prog
    # origination
    fi = P.func(f"{ROUTER}.gn_data_request_gbc")
    fl = ctx.flows.get(fi)
    n = 0
    for c in P.calls_in(fi):
        if G.is_ll_send(P, fi, c):
            n += 1
            st = fl.state_at(c)
            ok = any(f.kind == "cond" and f.pol and re.match(SIZE_OK, norm(pretty(f.xkey))) and "request.area" in f.xkey for f in st.facts)
            ctx.ob("C07.size-control", fi.short(), f"origin-send#{n}", ok,
                   "origination emits only when area size <= itsGnMaxGeoAreaSize km^2 (compared in m^2)" if ok else
                   "an origination send is reachable without the established guard `area_m2 <= itsGnMaxGeoAreaSize * 10^6`",
                   f"{fi.module.rel}:{c.lineno}")
    too_large = False
    for k, s, st in fl.exits:
        if k == "return" and "GEOGRAPHICAL_SCOPE_TOO_LARGE" in unparse(s.value):
            too_large = any(f.kind == "cond" and f.pol and "_compute_area_size_m2" in f.xkey and
                            norm(pretty(f.xkey)).endswith(">self.mib.itsGnMaxGeoAreaSize*1000000") for f in st.facts)
    ctx.ob("C07.size-control", fi.short(), "refusal-code", too_large,
           "over-size requests are refused with GEOGRAPHICAL_SCOPE_TOO_LARGE", fi.loc)
    gac = P.func(f"{ROUTER}.gn_data_request_gac")
    ctx.ob("C07.size-control", gac.short(), "delegates", "returnself.gn_data_request_gbc(request)" in norm(unparse(gac.node)),
           "GAC origination shares the GBC source operations (incl. the size guard)", gac.loc)
    # forwarders
    for name in ("gn_data_indicate_gbc", "gn_data_indicate_gac"):
        h = handlers[name]
        for s in G.sinks_of(ctx, h):
            if s.kind not in ("send", "deferred-send"):
                continue
            fl = G.flow_for(ctx, s.fi, h)
            st = fl.state_at(s.node)
            ok = any(f.kind == "cond" and f.pol and re.match(SIZE_OK, norm(pretty(f.xkey))) for f in st.facts)
            ctx.ob("C07.size-control", s.fi.short(), f"forward:{s.kind}#{s.node.lineno - s.fi.node.lineno}", ok,
                   "forwarding only for areas within itsGnMaxGeoAreaSize" if ok else
                   "a forward is reachable without the established guard `area_m2 <= itsGnMaxGeoAreaSize * 10^6`",
                   f"{s.fi.module.rel}:{s.node.lineno}")
    ctx.floor("C07.size-control", 9)


def annex_d(ctx, handlers):
    P = ctx.prog
    fi = P.func(f"{ROUTER}.gn_forwarding_algorithm_selection")
    fl = ctx.flows.get(fi)
    FEGO = r"self\.gn_geometric_function_f\(request\.packet_transport_type\.header_subtype,request\.area,self\.ego_position_vector\.latitude,self\.ego_position_vector\.longitude\)"
    seen = set()
    for k, s, st in fl.exits:
        if k != "return":
            continue
        v = (dotted(s.value) or "").split(".")[-1]
        conds = {norm(pretty(f.xkey)): f.pol for f in st.facts if f.kind == "cond"}
        inside = any(p and re.fullmatch(FEGO + r">=0(\.0)?", c) for c, p in conds.items())
        outside = any(p and re.fullmatch(r"0(\.0)?>" + FEGO, c) for c, p in conds.items())
        seen.add(v)
        loc = f"{fi.module.rel}:{s.lineno}"
        if v == "AREA_FORWARDING":
            ctx.ob("C07.annex-d", fi.short(), "AREA_FORWARDING", inside, "AREA forwarding exactly when F(ego) >= 0", loc)
        elif v == "DISCARTED":
            se = [c for c, p in conds.items() if p and "gn_geometric_function_f(" in c and ".latitude" in c and c.endswith(">=0")
                  and "ego_position_vector" not in c]
            pai = any(p and c.endswith(".pai") for c, p in conds.items()) or any(
                (not p) and "isNone" in c for c, p in conds.items())
            pai_fact = any(c.endswith(".pai") and p for c, p in conds.items()) or any(
                p and "isnotNoneand" in c and c.endswith(".pai") for c, p in conds.items())
            ctx.ob("C07.annex-d", fi.short(), "DISCARD", outside and bool(se) and pai_fact,
                   "DISCARD only when ego is outside, the sender's position is known and accurate (PAI) and the sender is inside "
                   f"(F(sender) >= 0) [outside={outside}, sender-inside={bool(se)}, pai={pai_fact}]", loc)
        elif v == "NON_AREA_FORWARDING":
            ctx.ob("C07.annex-d", fi.short(), "NON_AREA_FORWARDING", outside, "NON-AREA forwarding only when F(ego) < 0", loc)
    ctx.ob("C07.annex-d", fi.short(), "three-outcomes", seen == {"AREA_FORWARDING", "DISCARTED", "NON_AREA_FORWARDING"},
           f"outcomes returned: {sorted(seen)}", fi.loc)
    # users of the decision: no emission unless the outcome is AREA or NON-AREA
    for uname in ("gn_data_forward_gbc", "gn_data_request_gbc"):
        u = P.func(f"{ROUTER}.{uname}")
        fl = ctx.flows.get(u)
        sel_calls = [c for c in P.calls_in(u) if isinstance(c.func, ast.Attribute) and c.func.attr == "gn_forwarding_algorithm_selection"]
        if not sel_calls:
            raise AnalysisError(f"C07: {uname} no longer consults the Annex D selection")
        sel_line = sel_calls[0].lineno
        for c in P.calls_in(u):
            emits = G.is_ll_send(P, u, c) or (isinstance(c.func, ast.Attribute) and c.func.attr == "gn_area_cbf_forwarding")
            if not emits or c.lineno < sel_line:
                continue
            st = fl.state_at(c)
            conds = {norm(pretty(f.xkey)): f.pol for f in st.facts if f.kind == "cond"}
            alg = [cname for cname, p in conds.items() if p and re.fullmatch(
                r"self\.gn_forwarding_algorithm_selection\(.*\)==GNForwardingAlgorithmResponse\.(AREA_FORWARDING|NON_AREA_FORWARDING)", cname)]
            # sends that are not under the algorithm at all (SCF buffering branch) are outside this rule
            mentions = any("gn_forwarding_algorithm_selection" in cname for cname in conds)
            if not mentions:
                continue
            ctx.ob("C07.annex-d", u.short(), f"emit@+{c.lineno - u.node.lineno}", bool(alg),
                   "emission under an explicit AREA / NON-AREA outcome" if alg else
                   "a packet is emitted on a path where the Annex D outcome is only known NOT to be one value: the DISCARD "
                   "outcome falls through to forwarding", f"{u.module.rel}:{c.lineno}")
    ctx.floor("C07.annex-d", 8)
