"""C07 - geo-addressed packets are delivered exactly inside the destination area.

Decides: the delivery decision of the GBC and GAC receivers IS the sign of the geometric function F (deliver-iff-inside:
every indication is built under F >= 0 evaluated on the area decoded from the packet field by field, the packet's shape
sub-type and the ego position; it carries that area; the handlers return nothing but None or such an indication; GAC
forwards only under F < 0); the three shape formulas of EN 302 931 as formula identities (shape-formula: polynomial
normal form, each branch serving exactly the GBC and GAC sub-type of its shape, distances taken between area centre and
point, calculate_distance returning (x along latitude, y along longitude) and containing a reduction of the longitude
difference to the short way round - modulo 360 or a +-180 correction) and their use of the azimuth (uses-all-params);
the area-size formulas, the size guard `area <= itsGnMaxGeoAreaSize` in front of every origination send and forward,
the refusal code and GAC sharing the GBC source operations (size-control); the Annex D decision table (annex-d: F(ego)
and F(sender) on the request's shape / area, AREA exactly when F(ego) >= 0, DISCARD exactly when ego outside and the
sender's PV known, accurate and inside, NON-AREA only when outside; the forwarder hands the selection the packet's own
shape and source address) and that EVERY emission of the GBC origination / forwarding functions lies under an explicit
AREA or NON-AREA outcome - a send that bypasses the selection or sits under "not one value" fails -, handlers that
forward without the selection applying the sender-inside discard inline, on a sender entry read after this packet was filed in
the location table; once the indication of a station inside the area is built, every later return hands it back unless F < 0.
Does not decide the numerical accuracy of the distance projection over the continuous plane, pole behaviour, nor that
the meridian correction is numerically right (only that one is present).
"""
from __future__ import annotations

import ast
import re

from ..prog import AnalysisError, ClassInfo, FuncInfo, dotted, unparse
from ..absint import to_poly
from ..match import pretty
from . import gnutil as G
from .. import sem

PROP = "C07"
ROUTER = "geonet.router.Router"


def norm(s):
    return re.sub(r"\s+", "", s)


def run(ctx):
    P = ctx.prog
    ctx.explanation = (
        "Guard rules (K1) tie every GNDataIndication of the GBC/GAC receivers to `F >= 0`, where F must expand to the "
        "geometric function applied to the area built field-by-field from the decoded header, the packet's own shape "
        "sub-type and the ego position; formula-identity rules compare the three shape branches of "
        "gn_geometric_function_f and of the area-size function with EN 302 931 / Annex B.3 after normalising to "
        "polynomials (so any algebraically equal rewrite passes and any other fails) and demand dependence on the azimuth; "
        "the size guard and the Annex D outcome must dominate every emission. The rules cover every area, position and "
        "shape because they are identities / path-universal guards.")
    ctx.declined = ["numerical accuracy of calculate_distance (equirectangular projection) over the continuous plane",
                    "antimeridian / pole behaviour"]
    handlers = {h.fi.name: h for h in G.receive_handlers(ctx)}
    # ------------------------------------------------------------------ deliver iff inside
    for name in ("gn_data_indicate_gbc", "gn_data_indicate_gac"):
        h = handlers.get(name)
        if h is None:
            raise AnalysisError(f"C07: handler {name} vanished")
        fl = ctx.flows.get(h.fi)
        sinks = G.sinks_of(ctx, h)
        dels = [s for s in sinks if s.kind == "deliver"]
        if not dels:
            raise AnalysisError(f"C07: {name} has no delivery sink")
        con = h.fi.short()
        # the evaluations of F at the ego position on the packet's own shape
        egos = [c for c in _f_calls(ctx, h.fi, fl) if c.is_ego() and isinstance(c.x[0], ast.Attribute) and c.x[0].attr == "hst"
                and _is_handler_param(ctx, h, c.x[0].value, "CommonHeader")]
        for i, s in enumerate(dels):
            st = fl.state_at(s.node)
            loc = f"{h.fi.module.rel}:{s.node.lineno}"
            facts = _xfacts(st)
            hit = next((c for c in egos if facts & _nonneg_atoms(c.xcall)), None)
            ctx.ob("C07.deliver-iff-inside", con, f"deliver#{i}:guard", hit is not None,
                   "delivery guarded by F(area from packet, packet's shape, ego position) >= 0" if hit else
                   "delivery is not guarded on every path by `gn_geometric_function_f(common_header.hst, <area decoded from the "
                   "packet>, ego lat, ego lon) >= 0` (inside or on the border)", loc)
            if hit:
                _area_from_packet(ctx, h, h.fi, hit.x[1], "C07.deliver-iff-inside", con, f"deliver#{i}:area", loc)
            kws = {kw.arg: kw.value for kw in s.node.keywords if kw.arg}
            da = fl.expand(kws.get("destination_area", ast.Constant(None)), st)
            ok_da = hit is not None and sem.cx(da) == sem.cx(hit.x[1])
            ctx.ob("C07.deliver-iff-inside", con, f"deliver#{i}:indicated-area", ok_da,
                   f"indication carries the decoded destination area (`{pretty(unparse(da))[:60]}`)" if ok_da else
                   f"the indicated destination area `{pretty(unparse(da))[:60]}` is not the area the delivery decision was taken on", loc)
        # outside => never delivered: the only non-None values returned are the guarded constructions
        guarded = {sem.cx(fl.expand(s.node, fl.state_at(s.node))) for s in dels}
        for k, s_, st in fl.exits:
            if k == "return" and s_.value is not None:
                for alt in fl.alternatives(s_.value, st):
                    t = norm(pretty(unparse(alt)))
                    ok = (isinstance(alt, ast.Constant) and alt.value is None) or sem.cx(alt) in guarded
                    ctx.ob("C07.deliver-iff-inside", con, f"return:{t[:24]}", ok,
                           f"handler returns `{t[:60]}`" + ("" if ok else " - neither None nor one of the guarded indications"),
                           f"{h.fi.module.rel}:{s_.lineno}")
        if name == "gn_data_indicate_gac":
            for s in sinks:
                if s.kind == "send":
                    facts = _xfacts(fl.state_at(s.node))
                    outside = any(facts & _neg_atoms(c.xcall) for c in egos)
                    ctx.ob("C07.deliver-iff-inside", con, "gac-forward-only-outside", outside,
                           "GeoAnycast is forwarded only when the station is outside the area (F < 0)", f"{h.fi.module.rel}:{s.node.lineno}")
    ctx.floor("C07.deliver-iff-inside", 16)
    shapes(ctx)
    size_control(ctx, handlers)
    annex_d(ctx, handlers)


def _split_top(s: str) -> list:
    out, depth, cur = [], 0, ""
    for ch in s:
        if ch in "([":
            depth += 1
        elif ch in ")]":
            depth -= 1
        if ch == "," and depth == 0:
            out.append(cur)
            cur = ""
        else:
            cur += ch
    if cur:
        out.append(cur)
    return out


def _enum_ref(P, mod, e: ast.AST):
    r = P.resolve_expr_entity(mod, e) if isinstance(e, (ast.Attribute, ast.Name)) else None
    return (r[1].name, r[2]) if isinstance(r, tuple) and r[0] == "enum" else None


def _membership(P, mod, node: ast.AST, var: str):
    """Set of enum members M such that `node` states `var in M` (==, in, or-combinations); None for other conditions."""
    if isinstance(node, ast.BoolOp) and isinstance(node.op, ast.Or):
        out = set()
        for v in node.values:
            m = _membership(P, mod, v, var)
            if m is None:
                return None
            out |= m
        return out
    if isinstance(node, ast.Compare) and len(node.ops) == 1:
        a, b, op = node.left, node.comparators[0], node.ops[0]
        if isinstance(op, ast.In) and isinstance(a, ast.Name) and a.id == var and isinstance(b, (ast.Tuple, ast.List, ast.Set)):
            ms = [_enum_ref(P, mod, e) for e in b.elts]
            return set(ms) if ms and all(ms) else None
        if isinstance(op, ast.Eq):
            for x, y in ((a, b), (b, a)):
                if isinstance(x, ast.Name) and x.id == var and _enum_ref(P, mod, y):
                    return {_enum_ref(P, mod, y)}
    return None


def _shape_exits(ctx, fi: FuncInfo, var: str) -> list:
    """[(shape | None, set of enum members | None, return stmt, state)] for every `return` of a per-shape function:
    the shape is read off the guard facts of the exit (the members `var` is known to be among); None = default exit."""
    P = ctx.prog
    fl = ctx.flows.get(fi)
    out = []
    for k, s, st in fl.exits:
        if k != "return" or s.value is None:
            continue
        members = None
        for f in st.facts:
            if f.kind == "cond" and f.pol:
                m = _membership(P, fi.module, f.node, var)
                if m is not None:
                    members = m if members is None else (members & m)
        shape = None
        if members:
            kinds = {name.rsplit("_", 1)[-1] for _, name in members}
            shape = kinds.pop() if len(kinds) == 1 else "?"
        out.append((shape, members, s, st))
    return out


def _poly_eq(P, mod, a: ast.AST, src: str) -> bool:
    try:
        return to_poly(P, mod, a, pretty) == to_poly(P, mod, ast.parse(src, mode="eval").body, pretty)
    except Exception:
        return False


def shapes(ctx):
    P = ctx.prog
    fi = P.func(f"{ROUTER}.gn_geometric_function_f")
    fl = ctx.flows.get(fi)
    mod = fi.module
    ren = lambda s: pretty(s)
    if len(fi.params) != 5:
        raise AnalysisError("C07: gn_geometric_function_f no longer takes (shape, area, lat, lon)")
    p_type, p_area, p_lat, p_lon = fi.params[1:5]
    spec = {"CIRCLE": f"1 - (X/{p_area}.a)**2 - (Y/{p_area}.a)**2",
            "ELIP": f"1 - (X/{p_area}.a)**2 - (Y/{p_area}.b)**2",
            "RECT": f"min(1 - (X/{p_area}.a)**2, 1 - (Y/{p_area}.b)**2)"}
    cd = P.func(f"{ROUTER}.calculate_distance")
    found = set()
    mixed = False
    for shape, members, r, st in _shape_exits(ctx, fi, p_type):
        if shape == "?":
            mixed = True
            ctx.ob("C07.shape-formula", fi.short(), f"mixed-branch:{'+'.join(sorted(n_ for _, n_ in members))[:60]}", False,
                   f"one formula serves sub-types of different shapes: {sorted(members)}", f"{mod.rel}:{r.lineno}")
            continue
        if shape not in spec:
            continue
        found.add(shape)
        # name the two projected distances X, Y: they are the components of calculate_distance(centre, point)
        x = fl.expand(r.value, st)
        dist_calls = []

        class XY(ast.NodeTransformer):
            def visit_Subscript(self, n):
                v = n.value
                if isinstance(v, ast.Call) and P.resolve_expr_entity(mod, v.func) is cd and isinstance(n.slice, ast.Constant) \
                        and n.slice.value in (0, 1):
                    dist_calls.append(v)
                    return ast.Name(id="XY"[n.slice.value], ctx=ast.Load())
                return self.generic_visit(n)
        sub_node = XY().visit(x)
        sub = pretty(unparse(sub_node))
        try:
            same = to_poly(P, mod, sub_node, ren) == to_poly(P, mod, ast.parse(spec[shape], mode="eval").body, ren)
        except Exception:
            same = False
        loc = f"{mod.rel}:{r.lineno}"
        ctx.ob("C07.shape-formula", fi.short(), f"{shape}:formula", same,
               f"F for {shape} is `{sub[:100]}`" + ("" if same else f"; EN 302 931 gives `{spec[shape]}` (X, Y = distances "
                                                                   f"of the point from the centre along the axes)"), loc)
        both = members == {("GeoBroadcastHST", f"GEOBROADCAST_{shape}"), ("GeoAnycastHST", f"GEOANYCAST_{shape}")}
        ctx.ob("C07.shape-formula", fi.short(), f"{shape}:both-transports", both,
               "branch covers the GBC and the GAC sub-type of the shape" if both else
               f"branch is taken for {sorted(members or [])}: must be exactly the GBC and the GAC sub-type of {shape}", loc)
        centre_ok = bool(dist_calls)
        for c in dist_calls:
            amap = G.bind_args(cd, c) or {}
            a0, a1 = amap.get(cd.params[0]), amap.get(cd.params[1])
            if not (isinstance(a0, ast.Tuple) and isinstance(a1, ast.Tuple) and len(a0.elts) == 2 and len(a1.elts) == 2
                    and _poly_eq(P, mod, a0.elts[0], f"{p_area}.latitude/10000000") and _poly_eq(P, mod, a0.elts[1], f"{p_area}.longitude/10000000")
                    and _poly_eq(P, mod, a1.elts[0], f"{p_lat}/10000000") and _poly_eq(P, mod, a1.elts[1], f"{p_lon}/10000000")):
                centre_ok = False
        shown = pretty(unparse(dist_calls[0]))[:90] if dist_calls else "<no distance call>"
        ctx.ob("C07.shape-formula", fi.short(), f"{shape}:inputs", centre_ok,
               f"distances are taken between the area centre and the point (`{shown}`)", loc)
        uses_angle = any(isinstance(n, ast.Attribute) and n.attr == "angle" and isinstance(n.value, ast.Name) and n.value.id == p_area
                         for n in ast.walk(x))
        if shape == "CIRCLE":
            continue        # a circle is rotation invariant
        ctx.ob("C07.uses-all-params", fi.short(), f"{shape}:angle", uses_angle,
               f"F for {shape} " + ("uses the azimuth angle" if uses_angle else
                                    "never reads area.angle: a rotated rectangle/ellipse is evaluated as if its azimuth were 0 "
                                    "(transform_distance_angle exists but has no caller)"), loc)
    if found != {"CIRCLE", "RECT", "ELIP"} and not mixed:
        raise AnalysisError(f"C07: shape branches found {sorted(found)}")
    # distance projection: the first component is the latitude (x) axis, the second the longitude (y) axis
    cfl = ctx.flows.get(cd)
    ok_xy = False
    rets = [(s, st) for k, s, st in cfl.exits if k == "return"]
    if len(rets) == 1 and isinstance(rets[0][0].value, ast.Tuple) and len(rets[0][0].value.elts) == 2 and len(cd.params) == 2:
        s_, st_ = rets[0]

        def comps(e):
            out = set()
            for alt in cfl.alternatives(e, st_):           # every reaching definition of branch-merged locals
                for n in ast.walk(alt):
                    if isinstance(n, ast.Subscript) and isinstance(n.value, ast.Name) and n.value.id in cd.params and \
                            isinstance(n.slice, ast.Constant):
                        out.add((n.value.id, n.slice.value))
            return out
        cx_, cy_ = comps(s_.value.elts[0]), comps(s_.value.elts[1])
        ok_xy = cx_ == {(p_, 0) for p_ in cd.params} and {(p_, 1) for p_ in cd.params} <= cy_
    ctx.ob("C07.shape-formula", cd.short(), "returns-x-y", ok_xy,
           "calculate_distance returns (x, y)" if ok_xy else
           "calculate_distance does not return (distance along latitude, distance along longitude) of its two coordinates", cd.loc)
    # the longitude difference must be taken the short way round: near the +-180 degree meridian `lon2 - lon1` is off by 360
    import math as _math

    def _is(e, *vals):
        v = P.try_fold(cd.module, e)
        return isinstance(v, (int, float)) and any(abs(v - x) < 1e-9 for x in vals)
    FULL, HALF = (2 * _math.pi, 360.0), (_math.pi, 180.0)
    mod_wrap = any(isinstance(n, ast.BinOp) and isinstance(n.op, ast.Mod) and _is(n.right, *FULL) for n in ast.walk(cd.node))
    plus = minus = False
    for n in ast.walk(cd.node):
        if isinstance(n, (ast.If, ast.While)) and isinstance(n.test, ast.Compare) and len(n.test.ops) == 1:
            sides = [n.test.left, n.test.comparators[0]]
            against_half = any(_is(x, *HALF) or (isinstance(x, ast.UnaryOp) and isinstance(x.op, ast.USub) and _is(x.operand, *HALF)) for x in sides)
            if not against_half:
                continue
            for b in n.body:
                if isinstance(b, ast.AugAssign) and _is(b.value, *FULL):
                    plus = plus or isinstance(b.op, ast.Add)
                    minus = minus or isinstance(b.op, ast.Sub)
                if isinstance(b, ast.Assign) and isinstance(b.value, ast.BinOp) and _is(b.value.right, *FULL):
                    plus = plus or isinstance(b.value.op, ast.Add)
                    minus = minus or isinstance(b.value.op, ast.Sub)
    wrap_ok = mod_wrap or (plus and minus)
    ctx.ob("C07.shape-formula", cd.short(), "longitude-wrap", wrap_ok,
           "the longitude difference is reduced to the short way round (+-180 degrees)" if wrap_ok else
           "the longitude difference `lon2 - lon1` is used as it is: for an area next to the +-180 degree meridian a station a few metres "
           "across the meridian is computed ~40 000 km away and never gets the packet", cd.loc)
    # area size
    az = P.func(f"{ROUTER}._compute_area_size_m2")
    afl = ctx.flows.get(az)
    a_type, a_area = az.params[0], az.params[1]
    want = {"CIRCLE": f"math.pi*{a_area}.a*{a_area}.a", "ELIP": f"math.pi*{a_area}.a*{a_area}.b", "RECT": f"4*{a_area}.a*{a_area}.b"}
    seen = set()
    for shape, members, r, st in _shape_exits(ctx, az, a_type):
        shape = shape or "RECT"        # the default exit serves the remaining shape
        if shape not in want or shape in seen:
            continue
        seen.add(shape)
        val = afl.expand(r.value, st)
        ok = _poly_eq(P, az.module, val, want[shape])
        ctx.ob("C07.size-control", az.short(), f"{shape}:area", ok,
               f"area of {shape} = `{pretty(unparse(val))}` (must equal {want[shape]}" +
               (": a, b are half side lengths)" if shape == "RECT" else ")"), f"{az.module.rel}:{r.lineno}")
    for shape in want:
        if shape not in seen:
            ctx.ob("C07.size-control", az.short(), f"{shape}:area", False, f"no area formula for {shape}", az.loc)
    ctx.floor("C07.shape-formula", 10)


def _strip_cast(e: ast.AST) -> ast.AST:
    """typing.cast(T, x) is x."""
    while isinstance(e, ast.Call) and (dotted(e.func) or "").split(".")[-1] == "cast" and len(e.args) == 2 and not e.keywords:
        e = e.args[1]
    return e


def _size_guards(ctx, fi: FuncInfo, facts) -> list:
    """[(within, shape arg, area arg)] for every guard fact comparing Router._compute_area_size_m2(shape, area) with
    itsGnMaxGeoAreaSize km^2 expressed in m^2; within=True: size <= limit, False: size > limit."""
    P = ctx.prog
    size_fn = P.func(f"{ROUTER}._compute_area_size_m2")
    limit = to_poly(P, fi.module, ast.parse("self.mib.itsGnMaxGeoAreaSize * 1000000", mode="eval").body)
    out = []
    for f in facts:
        if f.kind != "cond" or not f.pol or not isinstance(f.xnode, ast.Compare) or len(f.xnode.ops) != 1:
            continue
        op, a, b = f.xnode.ops[0], f.xnode.left, f.xnode.comparators[0]
        # facts are canonical: `X >= Y` / `X > Y`
        if isinstance(op, ast.GtE):
            lim, call, within = a, b, True
        elif isinstance(op, ast.Gt):
            lim, call, within = b, a, False
        else:
            continue
        if not (isinstance(call, ast.Call) and (dotted(call.func) or "").split(".")[-1] == size_fn.name):
            continue
        r = P.resolve_expr_entity(fi.module, call.func)
        if r is not size_fn and not (isinstance(call.func, ast.Attribute) and sem.cx(call.func.value) in ("self", "Router")):
            continue
        amap = G.bind_args(size_fn, call)      # a static method: no receiver parameter
        if not amap or len(size_fn.params) < 2 or any(p_ not in amap for p_ in size_fn.params[:2]):
            continue
        try:
            if to_poly(P, fi.module, lim) != limit:
                continue
        except Exception:
            continue
        out.append((within, _strip_cast(amap[size_fn.params[0]]), amap[size_fn.params[1]]))
    return out


def _packet_area(ctx, h, fi: FuncInfo, area_x) -> bool:
    """area_x (fi's terms) is Area(every field = the decoded header's field)."""
    P = ctx.prog
    dec_cx = sem.cx(G.decoded_x(ctx, h))
    if not isinstance(area_x, ast.Call):
        return False
    r = P.resolve_expr_entity(fi.module, area_x.func)
    if not (isinstance(r, ClassInfo) and r.name == "Area"):
        return False
    given = G.bind_ctor(r, area_x)
    if given is None:
        return False
    for fld in G.ctor_fields(r):
        got = [sem.cx(x) for x in G.to_handler_terms(ctx, h, fi, given[fld])] if fld in given else []
        if not got or any(g != f"{dec_cx}.{fld}" for g in got):
            return False
    return True


def size_control(ctx, handlers):
    P = ctx.prog
    # origination
    fi = P.func(f"{ROUTER}.gn_data_request_gbc")
    fl = ctx.flows.get(fi)
    req = fi.params[1]

    def own_request(shape, area):
        return sem.cx(shape) == f"{req}.packet_transport_type.header_subtype" and sem.cx(area) == f"{req}.area"
    n = 0
    for c in P.calls_in(fi):
        if G.is_ll_send(P, fi, c):
            n += 1
            st = fl.state_at(c)
            ok = any(w and own_request(sh, ar) for w, sh, ar in _size_guards(ctx, fi, st.facts))
            ctx.ob("C07.size-control", fi.short(), f"origin-send#{n}", ok,
                   "origination emits only when area size <= itsGnMaxGeoAreaSize km^2 (compared in m^2)" if ok else
                   "an origination send is reachable without the established guard `area_m2 <= itsGnMaxGeoAreaSize * 10^6`",
                   f"{fi.module.rel}:{c.lineno}")
    too_large = False
    for k, s, st in fl.exits:
        if k != "return" or not isinstance(s.value, ast.Call):
            continue
        code = next((kw.value for kw in s.value.keywords if kw.arg == "result_code"), s.value.args[0] if s.value.args else None)
        r = P.resolve_expr_entity(fi.module, code) if code is not None else None
        if isinstance(r, tuple) and r[0] == "enum" and r[2] == "GEOGRAPHICAL_SCOPE_TOO_LARGE":
            too_large = any((not w) and own_request(sh, ar) for w, sh, ar in _size_guards(ctx, fi, st.facts))
    ctx.ob("C07.size-control", fi.short(), "refusal-code", too_large,
           "over-size requests are refused with GEOGRAPHICAL_SCOPE_TOO_LARGE", fi.loc)
    gac = P.func(f"{ROUTER}.gn_data_request_gac")
    gfl = ctx.flows.get(gac)
    exits = [(k, s) for k, s, _ in gfl.exits]
    delegates = bool(exits) and all(
        k == "return" and isinstance(s.value, ast.Call) and any(t is fi for t in P.call_targets(gac, s.value, count=False))
        and (G.bind_args(fi, s.value) or {}).get(req) is not None
        and sem.cx((G.bind_args(fi, s.value) or {}).get(req)) == gac.params[1] for k, s in exits)
    ctx.ob("C07.size-control", gac.short(), "delegates", delegates,
           "GAC origination shares the GBC source operations (incl. the size guard)", gac.loc)
    # forwarders
    for name in ("gn_data_indicate_gbc", "gn_data_indicate_gac"):
        h = handlers[name]
        for s in G.sinks_of(ctx, h):
            if s.kind not in ("send", "deferred-send"):
                continue
            fl = G.flow_for(ctx, s.fi, h)
            st = fl.state_at(s.node)
            ok = False
            for w, sh, ar in _size_guards(ctx, s.fi, st.facts):
                shapes_ = G.to_handler_terms(ctx, h, s.fi, sh)
                if w and shapes_ and all(isinstance(x, ast.Attribute) and x.attr == "hst" and _is_handler_param(ctx, h, x.value, "CommonHeader")
                                         for x in shapes_) and _packet_area(ctx, h, s.fi, ar):
                    ok = True
            ctx.ob("C07.size-control", s.fi.short(), f"forward:{s.kind}#{s.node.lineno - s.fi.node.lineno}", ok,
                   "forwarding only for areas within itsGnMaxGeoAreaSize" if ok else
                   "a forward is reachable without the established guard `area_m2(packet's shape, packet's area) <= "
                   "itsGnMaxGeoAreaSize * 10^6`", f"{s.fi.module.rel}:{s.node.lineno}")
    ctx.floor("C07.size-control", 9)


def _xfacts(st) -> set:
    """Canonical atoms of the guard facts of a state, locals expanded."""
    out = set()
    for f in st.facts:
        if f.kind == "cond":
            out.update(sem.atoms(f.xnode, f.pol))
    return out


def _attr(v: ast.AST, name: str) -> ast.Attribute:
    return ast.Attribute(value=v, attr=name, ctx=ast.Load())


def _nonneg_atoms(x: ast.AST) -> set:
    """Atoms of `x >= 0` (integer or float zero)."""
    return {a for z in (0, 0.0) for a in sem.atoms(ast.Compare(left=x, ops=[ast.GtE()], comparators=[ast.Constant(z)]), True)}


def _neg_atoms(x: ast.AST) -> set:
    return {a for z in (0, 0.0) for a in sem.atoms(ast.Compare(left=x, ops=[ast.Lt()], comparators=[ast.Constant(z)]), True)}


class _FCall:
    """One call of the geometric function: arguments bound to the parameter names and expanded at the call."""

    def __init__(self, ctx, fi, fl, call):
        P = ctx.prog
        F = P.func(f"{ROUTER}.gn_geometric_function_f")
        self.call, self.fi, self.fl = call, fi, fl
        self.st = fl.state_at(call)
        amap = G.bind_args(F, call) or {}
        names = F.params[1:5]
        if len(names) != 4:
            raise AnalysisError("C07: gn_geometric_function_f no longer takes (shape, area, lat, lon)")
        self.raw = [amap.get(n) for n in names]
        self.x = [fl.expand(a, self.st) if a is not None else None for a in self.raw]
        self.xcall = fl.expand(call, self.st)

    @property
    def complete(self):
        return all(a is not None for a in self.x)

    def point_owner(self):
        """V when the point is (V.latitude, V.longitude) for one expression V (as written), else None."""
        la, lo = self.raw[2], self.raw[3]
        if isinstance(la, ast.Attribute) and isinstance(lo, ast.Attribute) and la.attr == "latitude" and lo.attr == "longitude" \
                and sem.cx(la.value) == sem.cx(lo.value):
            return la.value
        return None

    def is_ego(self):
        v = self.point_owner()
        return v is not None and sem.cx(self.fl.expand(v, self.st)) == "self.ego_position_vector"


def _f_calls(ctx, fi, fl) -> list:
    P = ctx.prog
    out = []
    for c in P.calls_in(fi):
        if any(isinstance(t, FuncInfo) and t.qual.endswith(".Router.gn_geometric_function_f")
               for t in P.call_targets(fi, c, count=False)):
            fc = _FCall(ctx, fi, fl, c)
            if fc.complete:
                out.append(fc)
    return out


def _is_table_pv_of(ctx, fi, fl, st, v: ast.AST, addr_cx: set) -> bool:
    """Every non-None value of `v` is <location table>.get_entry(<addr>).position_vector for an addr in addr_cx."""
    P = ctx.prog
    alts = [a for a in fl.alternatives(v, st) if not (isinstance(a, ast.Constant) and a.value is None)]
    if not alts:
        return False
    for a in alts:
        if not (isinstance(a, ast.Attribute) and a.attr == "position_vector" and isinstance(a.value, ast.Call)
                and isinstance(a.value.func, ast.Attribute) and a.value.func.attr == "get_entry"
                and sem.cx(a.value.func.value) == "self.location_table" and len(a.value.args) == 1 and not a.value.keywords
                and sem.cx(a.value.args[0]) in addr_cx):
            return False
    return True


def _selection_outcome(ctx, sel: FuncInfo, facts) -> tuple:
    """(outcomes the state is certainly restricted to, whether any guard mentions the selection at all)."""
    P = ctx.prog
    allowed, mentions = set(), False
    for f in facts:
        if f.kind != "cond":
            continue
        has = any(isinstance(n, ast.Call) and isinstance(n.func, ast.Attribute) and n.func.attr == sel.name
                  for n in ast.walk(f.xnode))
        mentions = mentions or has
        if not (has and f.pol and isinstance(f.xnode, ast.Compare) and len(f.xnode.ops) == 1 and isinstance(f.xnode.ops[0], ast.Eq)):
            continue
        for a, b in ((f.xnode.left, f.xnode.comparators[0]), (f.xnode.comparators[0], f.xnode.left)):
            if isinstance(a, ast.Call) and isinstance(a.func, ast.Attribute) and a.func.attr == sel.name and dotted(b):
                parts = dotted(b).split(".")
                if len(parts) >= 2 and parts[-2] == "GNForwardingAlgorithmResponse":
                    allowed.add(parts[-1])
    return allowed, mentions


def _later_sibling_top(fl, stmt: ast.AST, target: ast.AST):
    """The outermost statement T containing `stmt` such that `target` lies in a LATER statement of T's block
    (so every path to `target` first runs through T's position); None when there is none."""
    cur = stmt
    while cur is not None and id(cur) in fl.parent:
        par = fl.parent[id(cur)]
        for _, val in ast.iter_fields(par):
            if isinstance(val, list) and any(x is cur for x in val):
                idx = [i for i, x in enumerate(val) if x is cur][0]
                for later in val[idx + 1:]:
                    if any(n is target for n in ast.walk(later)):
                        return cur
        if isinstance(par, (ast.FunctionDef, ast.AsyncFunctionDef)):
            return None
        cur = par
    return None


def _f_local(fi) -> str:
    """name of the local that holds F(ego) in a receive handler (`area_f = self.gn_geometric_function_f(...)`)"""
    for n_ in ast.walk(fi.node):
        if isinstance(n_, ast.Assign) and isinstance(n_.targets[0], ast.Name) and isinstance(n_.value, ast.Call) and \
                (dotted(n_.value.func) or "").endswith("gn_geometric_function_f"):
            return n_.targets[0].id
    return "area_f"


def annex_d(ctx, handlers):
    P = ctx.prog
    # the sender's table entry that feeds a forwarding decision (Annex D "sender inside the area", PDR enforcement) is read
    # AFTER this packet was filed in the location table: read before, the entry of a station heard for the first time is None
    # and the check is skipped for exactly that packet
    n_rd = 0
    lt_cls = P.cls("geonet.location_table.LocationTable")
    for name in ("gn_data_indicate_gbc", "gn_data_indicate_gac"):
        h = handlers.get(name)
        if h is None:
            continue
        hfl = ctx.flows.get(h.fi)
        for c in P.calls_in(h.fi):
            if not (isinstance(c.func, ast.Attribute) and c.func.attr == "get_entry" and sem.same(c.func.value, "self.location_table") and c.args):
                continue
            if "so_pv.gn_addr" not in sem.cx(hfl.expand(c.args[0], hfl.state_at(c))):
                continue
            n_rd += 1
            filed = any(f.kind == "call" and any(isinstance(t, str) and t.startswith(lt_cls.qual + ".new_") for t in f.targets)
                        for f in hfl.state_at(c).facts)
            ctx.ob("C07.annex-d", h.fi.short(), "sender-entry-read-after-table-update", filed,
                   "the sender's LocTE consulted by the forwarder is read after the packet was filed in the location table" if filed else
                   "the sender's LocTE is read before the location-table update of this packet: for the first packet of a station the entry is None, "
                   "so the `sender inside the area -> discard` (Annex D) and PDR checks are skipped and the packet is forwarded out of / into the area",
                   f"{h.fi.module.rel}:{c.lineno}")
    if n_rd < 1:
        raise AnalysisError("C07: no handler reads the sender's location-table entry any more (confirmed: GAC forwarder)")
    # inside => delivered: once the indication for a station inside the area has been built and kept in a local, every later
    # return of the handler's try body hands that local back unless the station is known to be outside (F < 0).  A `return None`
    # on the hop-limit / size / rate shortcuts of the FORWARDING part throws the payload of the last hop away.
    n_keep = 0
    for name in ("gn_data_indicate_gbc", "gn_data_indicate_gac"):
        h = handlers.get(name)
        if h is None:
            continue
        hfl = ctx.flows.get(h.fi)
        for t_ in [x for x in ast.walk(h.fi.node) if isinstance(x, ast.Try)]:
            built = None
            for i_, st_ in enumerate(t_.body):
                for a_ in ast.walk(st_):
                    if isinstance(a_, (ast.Assign, ast.AnnAssign)) and isinstance(getattr(a_, "value", None), ast.Call) and \
                            (dotted(a_.value.func) or "").endswith("GNDataIndication"):
                        tg_ = a_.targets[0] if isinstance(a_, ast.Assign) else a_.target
                        if isinstance(tg_, ast.Name) and not isinstance(st_, ast.Return):
                            built = (i_, tg_.id)
                if built:
                    break
            if not built:
                continue
            n_keep += 1
            lost = []
            for st_ in t_.body[built[0] + 1:]:
                for r_ in [x for x in ast.walk(st_) if isinstance(x, ast.Return)]:
                    if isinstance(r_.value, ast.Name) and r_.value.id == built[1]:
                        continue
                    try:
                        outside = sem.holds(sem.facts(hfl, r_), f"{_f_local(h.fi)} < 0")
                    except Exception:  # noqa
                        outside = False
                    if not outside:
                        lost.append(r_.lineno)
            ctx.ob("C07.annex-d", h.fi.short(), "inside-is-delivered-whatever-the-forwarding-decides", not lost,
                   f"every return after the indication was built hands `{built[1]}` back (or the station is known to be outside)" if not lost else
                   f"the return at line {lost[0]} drops the indication although the station may be inside the area: a packet on its last hop "
                   "(or over the size / rate limit) is not delivered to the stations it was sent to", f"{h.fi.module.rel}:{lost[0] if lost else t_.lineno}")
    if n_keep < 1:
        raise AnalysisError("C07: no receive handler keeps its indication in a local any more (confirmed: GBC)")
    fi = P.func(f"{ROUTER}.gn_forwarding_algorithm_selection")
    fl = ctx.flows.get(fi)
    if len(fi.params) < 3:
        raise AnalysisError("C07: gn_forwarding_algorithm_selection no longer takes (request, sender address)")
    req, snd = fi.params[1], fi.params[2]
    fcs = _f_calls(ctx, fi, fl)
    want_shape, want_area = f"{req}.packet_transport_type.header_subtype", f"{req}.area"
    egos = [c for c in fcs if c.is_ego()]
    senders = [c for c in fcs if not c.is_ego()]
    ok_ego = len(egos) == 1 and sem.cx(egos[0].x[0]) == want_shape and sem.cx(egos[0].x[1]) == want_area
    ctx.ob("C07.annex-d", fi.short(), "F-ego-arguments", ok_ego,
           "F(ego) = F(request's shape, request's area, ego latitude, ego longitude)" if ok_ego else
           f"the selection does not evaluate F(request shape, request area, ego lat, ego lon) exactly once "
           f"({[pretty(unparse(c.xcall))[:90] for c in egos]})", fi.loc)
    ok_se, why_se = False, "no evaluation of F at the sender's position"
    if len(senders) == 1:
        c = senders[0]
        v = c.point_owner()
        if v is None:
            why_se = (f"F(sender) is called with point (`{pretty(unparse(c.x[2]))[:50]}`, `{pretty(unparse(c.x[3]))[:50]}`): must be "
                      "(latitude, longitude) of the sender's position vector, in this order")
        elif not (sem.cx(c.x[0]) == want_shape and sem.cx(c.x[1]) == want_area):
            why_se = "F(sender) is not evaluated on the request's shape and area"
        elif not _is_table_pv_of(ctx, fi, fl, c.st, v, {snd}):
            why_se = f"`{unparse(v)}` is not the location-table position vector of the sender address `{snd}`"
        else:
            ok_se, why_se = True, "F(sender) = F(request's shape, request's area, sender PV latitude, sender PV longitude)"
    ctx.ob("C07.annex-d", fi.short(), "F-sender-arguments", ok_se, why_se, f"{fi.module.rel}:{senders[0].call.lineno}" if senders else fi.loc)
    fego = egos[0].xcall if egos else ast.Constant(None)
    inside_a, outside_a = _nonneg_atoms(fego), _neg_atoms(fego)
    seen = set()
    for k, s, st in fl.exits:
        if k != "return":
            continue
        r = P.resolve_expr_entity(fi.module, s.value) if s.value is not None else None
        v = r[2] if isinstance(r, tuple) and r[0] == "enum" and r[1].name == "GNForwardingAlgorithmResponse" else "?"
        facts = _xfacts(st)
        inside, outside = bool(facts & inside_a), bool(facts & outside_a)
        seen.add(v)
        loc = f"{fi.module.rel}:{s.lineno}"
        if v == "AREA_FORWARDING":
            ctx.ob("C07.annex-d", fi.short(), "AREA_FORWARDING", inside, "AREA forwarding exactly when F(ego) >= 0", loc)
        elif v == "DISCARTED":
            se_in = pai = only = False
            extra = set()
            if ok_se:
                c = senders[0]
                vx = fl.expand(c.point_owner(), c.st)
                se_in = bool(facts & _nonneg_atoms(c.xcall))
                pai = bool(facts & set(sem.atoms(_attr(vx, "pai"), True)))
                allowed = _nonneg_atoms(c.xcall) | set(sem.atoms(_attr(vx, "pai"), True)) | outside_a
                for a in [vx] + fl.alternatives(c.point_owner(), c.st) + [ast.Name(id=snd, ctx=ast.Load())]:
                    allowed |= set(sem.atoms(ast.Compare(left=a, ops=[ast.IsNot()], comparators=[ast.Constant(None)]), True))
                    if isinstance(a, ast.Attribute):
                        allowed |= set(sem.atoms(ast.Compare(left=a.value, ops=[ast.IsNot()], comparators=[ast.Constant(None)]), True))
                extra = facts - allowed
                only = not extra
            ctx.ob("C07.annex-d", fi.short(), "DISCARD", outside and se_in and pai and only,
                   "DISCARD exactly when ego is outside, the sender's position is known and accurate (PAI) and the sender is inside "
                   f"(F(sender) >= 0) [outside={outside}, sender-inside={se_in}, pai={pai}, further conditions={sorted(extra)}]", loc)
        elif v == "NON_AREA_FORWARDING":
            ctx.ob("C07.annex-d", fi.short(), "NON_AREA_FORWARDING", outside, "NON-AREA forwarding only when F(ego) < 0", loc)
    ctx.ob("C07.annex-d", fi.short(), "three-outcomes", seen == {"AREA_FORWARDING", "DISCARTED", "NON_AREA_FORWARDING"},
           f"outcomes returned: {sorted(seen)}", fi.loc)
    # users of the decision: no emission unless the outcome is AREA or NON-AREA
    geo = [handlers[n] for n in ("gn_data_indicate_gbc", "gn_data_indicate_gac")]
    for uname in ("gn_data_forward_gbc", "gn_data_request_gbc"):
        u = P.func(f"{ROUTER}.{uname}")
        fl = ctx.flows.get(u)
        sel_calls = [c for c in P.calls_in(u) if any(t is fi for t in P.call_targets(u, c, count=False))]
        if not sel_calls:
            raise AnalysisError(f"C07: {uname} no longer consults the Annex D selection")
        sel_line = sel_calls[0].lineno
        for c in P.calls_in(u):
            emits = G.is_ll_send(P, u, c) or (isinstance(c.func, ast.Attribute) and c.func.attr == "gn_area_cbf_forwarding")
            if not emits:
                continue
            st = fl.state_at(c)
            alg, mentions = _selection_outcome(ctx, fi, st.facts)
            # a send that is not under any outcome of the selection (e.g. the store-carry-forward branch) bypasses Annex D
            if not mentions:
                ctx.ob("C07.annex-d", u.short(), f"emit@+{c.lineno - u.node.lineno}", False,
                       "a packet is emitted on a path that never consulted the Annex D selection: it is forwarded whatever the ego and "
                       "sender positions are (also when Annex D says DISCARD)", f"{u.module.rel}:{c.lineno}")
                continue
            ok = bool(alg) and alg <= {"AREA_FORWARDING", "NON_AREA_FORWARDING"}
            ctx.ob("C07.annex-d", u.short(), f"emit@+{c.lineno - u.node.lineno}", ok,
                   "emission under an explicit AREA / NON-AREA outcome" if ok else
                   "a packet is emitted on a path where the Annex D outcome is only known NOT to be one value: the DISCARD "
                   "outcome falls through to forwarding", f"{u.module.rel}:{c.lineno}")
        # what a FORWARDER hands to the selection: the packet's own area / shape and the packet's sender
        for h in geo:
            if u.qual not in {f.qual for f in G.chain_of(h)}:
                continue
            for n_, c in enumerate(sel_calls):
                _selection_site(ctx, h, u, fi, c, n_)
    # handlers that forward without consulting the selection must apply the sender-inside discard themselves
    for h in geo:
        sinks = [s for s in G.sinks_of(ctx, h) if s.kind in ("send", "deferred-send")]
        for n_, s in enumerate(sinks):
            sfl = G.flow_for(ctx, s.fi, h)
            alg, mentions = _selection_outcome(ctx, fi, sfl.state_at(s.node).facts)
            consults = any(t is fi for c in P.calls_in(s.fi) for t in P.call_targets(s.fi, c, count=False))
            if mentions or consults:
                continue        # governed by the emit@ obligations above (incl. their store-carry-forward exemption)
            ok, why = _inline_discard(ctx, h, s, sfl)
            ctx.ob("C07.annex-d", s.fi.short(), f"{s.kind}#{n_}:discard-when-sender-inside", ok, why,
                   f"{s.fi.module.rel}:{s.node.lineno}")
    ctx.floor("C07.annex-d", 19)


def _selection_site(ctx, h, u: FuncInfo, sel: FuncInfo, call: ast.Call, n: int):
    """Arguments of gn_forwarding_algorithm_selection at a forwarder call site, in the handler's terms."""
    P = ctx.prog
    fl = ctx.flows.get(u, lifted=True)
    st = fl.state_at(call)
    amap = G.bind_args(sel, call) or {}
    req, snd = sel.params[1], sel.params[2]
    con, loc = u.short(), f"{u.module.rel}:{call.lineno}"
    dec_cx = sem.cx(G.decoded_x(ctx, h))
    # sender
    want = sem.cx(G.source_addr_x(ctx, h))
    got = [sem.cx(x) for x in G.to_handler_terms(ctx, h, u, fl.expand(amap[snd], st))] if snd in amap else []
    ok = bool(got) and all(g == want for g in got)
    ctx.ob("C07.annex-d", con, f"selection#{n}:sender", ok,
           "the forwarder passes the packet's source address as sender" if ok else
           f"the forwarder does not pass the packet's source address (`{want[:60]}`) as `{snd}` (passed: {got or 'nothing'}): "
           "the sender's position stays unknown and the DISCARD outcome is unreachable", loc)
    # request: area and shape of the received packet
    rx = fl.expand(amap[req], st) if req in amap else None
    area = shape = None
    if isinstance(rx, ast.Call):
        r = P.resolve_expr_entity(u.module, rx.func)
        if isinstance(r, ClassInfo) and r.name == "GNDataRequest":
            given = G.bind_ctor(r, rx) or {}
            area = given.get("area")
            ptt = given.get("packet_transport_type")
            if isinstance(ptt, ast.Call):
                r2 = P.resolve_expr_entity(u.module, ptt.func)
                if isinstance(r2, ClassInfo) and r2.name == "PacketTransportType":
                    shape = (G.bind_ctor(r2, ptt) or {}).get("header_subtype")
    _area_from_packet(ctx, h, u, area, "C07.annex-d", con, f"selection#{n}:area", loc)
    got = [x for x in G.to_handler_terms(ctx, h, u, shape)] if shape is not None else []
    ok = bool(got) and all(isinstance(x, ast.Attribute) and x.attr == "hst" and _is_handler_param(ctx, h, x.value, "CommonHeader")
                           for x in got)
    ctx.ob("C07.annex-d", con, f"selection#{n}:shape", ok,
           "the selection is run on the packet's own shape sub-type" if ok else
           f"the shape handed to the selection is `{[pretty(unparse(x))[:50] for x in got]}`, not the received common header's HST", loc)


def _is_handler_param(ctx, h, x: ast.AST, cls_name: str) -> bool:
    if not (isinstance(x, ast.Name) and x.id in h.fi.params):
        return False
    ts = ctx.prog.param_types(h.fi).get(x.id, set())
    return any(isinstance(t, str) and t in ctx.prog.classes and ctx.prog.classes[t].name == cls_name for t in ts)


def _area_from_packet(ctx, h, fi: FuncInfo, area_x, rule: str, con: str, disc: str, loc: str):
    """`area_x` (expanded in fi's terms) is Area(<every field> = <decoded header>.<same field>)."""
    P = ctx.prog
    dec_cx = sem.cx(G.decoded_x(ctx, h))
    given = None
    if isinstance(area_x, ast.Call):
        r = P.resolve_expr_entity(fi.module, area_x.func)
        if isinstance(r, ClassInfo) and r.name == "Area":
            given = G.bind_ctor(r, area_x)
            fields = G.ctor_fields(r)
    if given is None:
        ctx.ob(rule, con, f"{disc}", False, "the area is not built as Area(...) from the decoded header", loc)
        return
    for fld in fields:
        got = [sem.cx(x) for x in G.to_handler_terms(ctx, h, fi, given[fld])] if fld in given else []
        ok = bool(got) and all(g == f"{dec_cx}.{fld}" for g in got)
        ctx.ob(rule, con, f"{disc}.{fld}", ok,
               f"Area.{fld} = `{(got or ['<absent>'])[0][:70]}`; must be the packet's `{fld}` field", loc)


def _inline_discard(ctx, h, s, fl) -> tuple:
    """A handler that forwards without the selection function: a `return None` under exactly
    (sender PV known, PAI, F(sender) >= 0) must lie on every path to the emission."""
    if s.fi is not h.fi:
        return False, "emission in a helper that neither runs under a selection outcome nor can be matched to an inline discard"
    P = ctx.prog
    fcs = _f_calls(ctx, h.fi, fl)
    egos = [c for c in fcs if c.is_ego()]
    src = {sem.cx(G.source_addr_x(ctx, h))}
    cands = []
    for c in fcs:
        v = c.point_owner()
        if c.is_ego() or v is None or not _is_table_pv_of(ctx, h.fi, fl, c.st, v, src):
            continue
        if not egos or any(sem.cx(c.x[i]) != sem.cx(egos[0].x[i]) for i in (0, 1)):
            continue
        cands.append(c)
    if not cands:
        return False, ("no evaluation of F(packet's shape, packet's area, sender PV) found: a GeoAnycast/GeoBroadcast packet whose "
                       "sender is inside the area is forwarded back out (Annex D DISCARD not applied)")
    why = "no `return None` under (sender PV accurate, F(sender) >= 0) precedes the emission"
    for c in cands:
        vx = fl.expand(c.point_owner(), c.st)
        fse, pai = _nonneg_atoms(c.xcall), set(sem.atoms(_attr(vx, "pai"), True))
        allowed = fse | pai
        for a in (vx, vx.value if isinstance(vx, ast.Attribute) else vx):
            allowed |= set(sem.atoms(ast.Compare(left=a, ops=[ast.IsNot()], comparators=[ast.Constant(None)]), True))
        for k, r, st in fl.exits:
            if k != "return" or not (r.value is None or (isinstance(r.value, ast.Constant) and r.value.value is None)):
                continue
            facts = _xfacts(st)
            if not (facts & fse and facts & pai):
                continue
            top = _later_sibling_top(fl, r, s.node)
            if top is None:
                why = f"the discard at line {r.lineno} does not lie on the path to the emission"
                continue
            extra = facts - _xfacts(fl.state_at(top)) - allowed
            if extra:
                why = f"the discard at line {r.lineno} is additionally conditioned on {sorted(extra)}"
                continue
            return True, (f"every path to the emission passes the discard `return None` under (sender PV accurate, "
                          f"F(sender) >= 0) at line {r.lineno}")
    return False, why + ": a packet whose sender is inside the area is forwarded although Annex D demands DISCARD"
