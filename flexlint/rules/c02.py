"""C02 - emitted packets and header codecs conform to the ETSI wire formats.

Decides (structure): bit-exact LAYOUT of every codec against the clause-9 tables, writer<->reader
agreement, two's-complement handling of signed fields, enumeration code points, mobility flag position,
zero reserved fields and PL provenance at origination, header order in every emitted packet.
Does not decide: equality of whole packets with a reference encoder for every request (value level).
"""
from __future__ import annotations

import ast

from ..prog import AnalysisError, ClassInfo, FuncInfo, dotted, unparse
from ..layout import writer_table, reader_table, ReaderEval
from ..spec import gn_layouts as S

PROP = "C02"


def _base(n: str) -> str:
    return n.split("#")[0]


def check_layouts(ctx, rule_layout="C02.layout", rule_signed="C02.signed", codecs=None):
    P = ctx.prog
    n_codecs = 0
    for cname, (layout, pairs) in (codecs or S.CODECS).items():
        ci = P.cls(cname)
        spec, total = S.positions(layout)
        spec_named = [(n, lsb, w, s) for n, lsb, w, s in spec if n is not None]
        all_leaves = set()
        for wname, rname in pairs:
            # ------------------------------------------------ writer
            if wname not in ci.methods:
                raise AnalysisError(f"anchor vanished: {ci.qual}.{wname}")
            wfi = ci.methods[wname]
            wtot, wtab = writer_table(P, wfi)
            n_codecs += 1
            con = wfi.short()
            if wtot is not None:
                ctx.ob(rule_layout, con, "total-length", wtot == total,
                       f"writer emits {wtot} bits, clause 9 prescribes {total}", wfi.loc)
            by_lsb = {}
            for k, sg in wtab.items():
                by_lsb.setdefault(sg.lsb, []).append((k, sg))
                all_leaves.add(_base(k))
            for n, lsb, w, signed in spec_named:
                here = by_lsb.get(lsb, [])
                names = [_base(k) for k, _ in here]
                if n in names:
                    sg = [s for k, s in here if _base(k) == n][0]
                    okw = sg.width is None or sg.width == w
                    ctx.ob(rule_layout, con, f"writer:{n}@{lsb}", okw,
                           f"field {n}: writer bounds it to {sg.width} bits, spec width {w}", f"{sg.rel or wfi.module.rel}:{sg.line}")
                    if signed and sg.owner == con:
                        ok = sg.reduced and (sg.width == w)
                        ctx.ob(rule_signed, con, f"writer:{n}", ok,
                               f"signed {w}-bit field {n} is written as `{sg.src}` "
                               + ("reduced modulo 2^%d" % w if ok else
                                  "without reduction modulo 2^%d: a negative value raises OverflowError in to_bytes "
                                  "or spills into the neighbouring bits" % w),
                               f"{sg.rel or wfi.module.rel}:{sg.line}")
                else:
                    same_name_pos = {l for nn, l, _, _ in spec_named if nn == n}
                    where = [(k, s.lsb) for k, s in wtab.items() if _base(k) == n and s.lsb not in same_name_pos]
                    if where:
                        ctx.ob(rule_layout, con, f"writer:{n}@{lsb}", False,
                               f"field {n} is written at bit offset(s) {[l for _, l in where]}, clause 9 puts it at {lsb}"
                               + (f" (found there: {names})" if names else ""), wfi.loc)
                    elif n.split(".")[0].startswith("reserved"):
                        ctx.ob(rule_layout, con, f"writer:{n}@{lsb}", True, "reserved field not written (zero)", wfi.loc)
                    else:
                        ctx.ob(rule_layout, con, f"writer:{n}@{lsb}", False,
                               f"no writer operand for field {n} at offset {lsb}" +
                               (f"; operands there: {names}" if names else ""), wfi.loc)
            spec_lsbs = {lsb for _, lsb, _, _ in spec_named}
            for k, sg in wtab.items():
                if sg.lsb not in spec_lsbs:
                    ctx.ob(rule_layout, con, f"writer-extra:{_base(k)}@{sg.lsb}", False,
                           f"operand `{sg.src}` written at offset {sg.lsb}, which is not a field boundary of clause 9",
                           f"{sg.rel or wfi.module.rel}:{sg.line}")
            # ------------------------------------------------ reader
            if rname is None:
                continue
            if rname not in ci.methods:
                raise AnalysisError(f"anchor vanished: {ci.qual}.{rname}")
            rfi = ci.methods[rname]
            guard, rtab, guards = reader_table(P, rfi, total if rname.endswith("from_int") else None)
            rcon = rfi.short()
            if guard is not None:
                ctx.ob(rule_layout, rcon, "min-length-guard", guard * 8 == total,
                       f"reader demands {guard} bytes, header is {total // 8}", rfi.loc)
            unresolved = [k for k, b in rtab.items() if b.lsb is None]
            if unresolved and guard is None:
                # slices relative to the start with no length guard: exact-length input assumed = spec total
                for k in unresolved:
                    b = rtab[k]
                    if b.msb is not None and b.width is not None:
                        b.lsb = total - b.msb - b.width
            r_by_lsb = {}
            for k, b in rtab.items():
                r_by_lsb.setdefault(b.lsb, []).append((k, b))
                all_leaves.add(k)
            for n, lsb, w, signed in spec_named:
                here = r_by_lsb.get(lsb if n != "flags" else None, [])
                if n == "flags":
                    # the reader may keep only the defined flag bit(s); accept any slice inside the flags octet
                    cand = [(k, b) for k, b in rtab.items() if k == n]
                    ok = bool(cand) and all(lsb <= b.lsb and b.lsb + b.width <= lsb + w and b.scale == b.lsb - lsb
                                            for _, b in cand)
                    ctx.ob(rule_layout, rcon, f"reader:{n}@{lsb}", ok,
                           f"flags octet: reader slice {[(b.lsb, b.width, b.scale) for _, b in cand]}", rfi.loc)
                    continue
                names = [k for k, _ in here]
                if n in names:
                    b = [b for k, b in here if k == n][0]
                    ctx.ob(rule_layout, rcon, f"reader:{n}@{lsb}", b.width == w and b.scale == 0,
                           f"field {n}: reader takes {b.width} bits (scale {b.scale}), spec width {w}", f"{b.rel or rfi.module.rel}:{b.line}")
                    if getattr(b, "partial", False):
                        ctx.ob(rule_layout, rcon, f"reader:{n}:every-branch", False,
                               f"field {n} is taken from the wire only on some branches; on the others the decoder substitutes a "
                               f"constant, so the value a conformant encoder put on the wire (incl. reserved/unknown code points) "
                               f"is not returned / not validated", f"{b.rel or rfi.module.rel}:{b.line}")
                    if signed and b.owner == rcon:
                        ctx.ob(rule_signed, rcon, f"reader:{n}", b.signed,
                               f"signed {w}-bit field {n} is " + ("sign-extended" if b.signed else
                                                                   "returned unsigned (no sign extension): negative values come back as 2^%d+x" % w),
                               f"{b.rel or rfi.module.rel}:{b.line}")
                else:
                    same_name_pos = {l for nn, l, _, _ in spec_named if nn == n}
                    where = [(k, b.lsb) for k, b in rtab.items() if k == n and b.lsb not in same_name_pos]
                    if where:
                        ctx.ob(rule_layout, rcon, f"reader:{n}@{lsb}", False,
                               f"field {n} is read from offset(s) {[l for _, l in where]}, clause 9 puts it at {lsb}"
                               + (f" (read there: {names})" if names else ""), rfi.loc)
                    elif n.split(".")[0].startswith("reserved"):
                        ctx.ob(rule_layout, rcon, f"reader:{n}@{lsb}", True, "reserved field not read", rfi.loc)
                    else:
                        ctx.ob(rule_layout, rcon, f"reader:{n}@{lsb}", False,
                               f"no reader slice for field {n} at offset {lsb}" + (f"; read there: {names}" if names else ""),
                               rfi.loc)
            for k, b in rtab.items():
                if k == "flags":
                    continue
                if b.lsb not in {l for _, l, _, _ in spec_named}:
                    ctx.ob(rule_layout, rcon, f"reader-extra:{k}@{b.lsb}", False,
                           f"reader slice for {k} at offset {b.lsb} width {b.width} is not a clause-9 field", rfi.loc)
        # renamed-field policy: a spec label that names no leaf at all on either side => the table is stale
        for n, lsb, w, s in spec_named:
            if n not in all_leaves and not n.split(".")[-1].startswith("reserved"):
                raise AnalysisError(f"{ci.qual}: no leaf named {n!r} on either side - dataclass fields renamed? "
                                    f"update spec/gn_layouts.py labels")
    return n_codecs


def check_enums(ctx):
    P = ctx.prog
    for cname, table in S.ENUMS.items():
        ci = P.cls(cname)
        if not ci.is_enum:
            raise AnalysisError(f"{cname} is no longer an Enum")
        for member, val in table.items():
            got = ci.enum_members.get(member, "<missing>")
            ctx.ob("C02.enums", ci.qual[10:], member, got == val,
                   f"{ci.name}.{member} = {got!r}, clause 9 code point is {val}", f"{ci.module.rel}:{ci.node.lineno}")
        for member, got in ci.enum_members.items():
            if member not in table:
                dup = [m for m, v in table.items() if v == got]
                ctx.ob("C02.enums", ci.qual[10:], member, not dup,
                       f"extra member {member} = {got!r} aliases the code point of {dup}", f"{ci.module.rel}:{ci.node.lineno}")
    for cname, bits in S.ENUM_FIT.items():
        ci = P.cls(cname)
        for member, got in ci.enum_members.items():
            ctx.ob("C02.enums", ci.qual[10:], member, isinstance(got, int) and 0 <= got < (1 << bits),
                   f"{ci.name}.{member} = {got!r} must fit {bits} bit(s)", f"{ci.module.rel}:{ci.node.lineno}")
    # decoder's HT -> HST enumeration dispatch
    fi = P.func("geonet.common_header.CommonHeader.decode_from_int")
    found = {}
    for node in ast.walk(fi.node):
        if isinstance(node, ast.If) and isinstance(node.test, ast.Compare) and len(node.test.ops) == 1 \
                and isinstance(node.test.ops[0], ast.Eq):
            d = dotted(node.test.comparators[0]) or ""
            if d.startswith("HeaderType."):
                for st in node.body:
                    if isinstance(st, ast.Assign) and isinstance(st.value, ast.Call):
                        found[d.split(".")[1]] = dotted(st.value.func)
    for ht, hst in S.HST_OF_HT.items():
        ctx.ob("C02.enums", fi.short(), f"hst-dispatch:{ht}", found.get(ht) == hst,
               f"HT {ht}: sub-type decoded with {found.get(ht)!r}, expected {hst}", fi.loc)


HEADER_CLASSES = ("BasicHeader", "CommonHeader", "GBCExtendedHeader", "TSBExtendedHeader", "GUCExtendedHeader",
                  "LSRequestExtendedHeader", "LSReplyExtendedHeader")


def _ctor_sites(ctx, cls_names):
    """(FuncInfo, Call, ClassInfo) for every construction of the given classes outside decoders/`with_`/`set_` copies."""
    P = ctx.prog
    out = []
    for fi in P.iter_funcs():
        for c in P.calls_in(fi):
            for t in P.call_targets(fi, c, count=False):
                if isinstance(t, ClassInfo) and t.name in cls_names:
                    out.append((fi, c, t))
    return out


def check_flags_reserved_pl(ctx):
    P = ctx.prog
    sites = _ctor_sites(ctx, set(HEADER_CLASSES))
    for fi, call, ci in sites:
        if fi.name in ReaderEval.DEC_NAMES:
            continue
        fl = ctx.flows.get(fi)
        kws = {kw.arg: kw.value for kw in call.keywords if kw.arg}
        con = fi.short()
        is_copy = fi.cls is ci and (fi.name.startswith("set_") or fi.name.startswith("with_"))
        # ---- reserved fields are zero at origination (copies of a received header keep the received value)
        for rk in ("reserved", "reserved2"):
            if rk in kws:
                v = kws[rk]
                val = P.try_fold(fi.module, fl.xexpr(v))
                src = unparse(fl.xexpr(v))
                copy_of_field = src.endswith("." + rk)
                ctx.ob("C02.reserved", con, f"{ci.name}.{rk}", val == 0 or copy_of_field,
                       f"{ci.name}({rk}={unparse(v)}) - reserved must be zero at origination", f"{fi.module.rel}:{call.lineno}")
        if ci.name != "CommonHeader" or is_copy:
            continue
        # ---- mobility flag = MSB of the flags octet
        if "flags" in kws:
            alts = fl.alternatives(kws["flags"], fl.state_at(call))
            for a in alts:
                ok = False
                if isinstance(a, ast.BinOp) and isinstance(a.op, ast.LShift):
                    k = P.try_fold(fi.module, a.right)
                    ok = k == 7 and "itsGnIsMobile" in unparse(a.left)
                elif isinstance(a, ast.BinOp) and isinstance(a.op, ast.Mult):
                    k = P.try_fold(fi.module, a.right)
                    k2 = P.try_fold(fi.module, a.left)
                    ok = (k == 128 and "itsGnIsMobile" in unparse(a.left)) or (k2 == 128 and "itsGnIsMobile" in unparse(a.right))
                ctx.ob("C02.flags", con, f"flags={unparse(kws['flags'])}", ok,
                       f"CommonHeader flags built as `{unparse(a)}`: itsGnIsMobile must occupy bit 0 = the most "
                       f"significant bit of the flags octet (<< 7); the decoder keeps only `& 128`",
                       f"{fi.module.rel}:{call.lineno}")
        else:
            ctx.ob("C02.flags", con, "flags=<absent>", False,
                   "CommonHeader built at origination without the mobility flag", f"{fi.module.rel}:{call.lineno}")
        # ---- payload length
        if "pl" in kws:
            x = fl.xexpr(kws["pl"])
            xs = unparse(x)
            val = P.try_fold(fi.module, x)
            ok = xs.endswith(".length") or val == 0
            ctx.ob("C02.pl", con, f"pl={unparse(kws['pl'])}", ok,
                   f"PL is `{xs}`; must be the request's payload length (or 0 for payload-less packets)",
                   f"{fi.module.rel}:{call.lineno}")
            if val == 0:
                # payload-less packet types only (beacon, LS)
                ht = unparse(fl.xexpr(kws.get("ht"))) if "ht" in kws else ""
                ctx.ob("C02.pl", con, "pl=0:type", ("BEACON" in ht) or (".LS" in ht) or ht.endswith("LS"),
                       f"PL=0 used for header type `{ht}`", f"{fi.module.rel}:{call.lineno}")
    # length = len(data) where data is what is handed down (BTP -> GN)
    n = 0
    for fi in P.iter_funcs():
        for c in P.calls_in(fi):
            for t in P.call_targets(fi, c, count=False):
                if isinstance(t, ClassInfo) and t.name == "GNDataRequest" and fi.module.name.endswith("btp.router"):
                    kws = {kw.arg: kw.value for kw in c.keywords if kw.arg}
                    if "length" in kws and "data" in kws:
                        n += 1
                        fl = ctx.flows.get(fi)
                        l, d = unparse(fl.xexpr(kws["length"])), unparse(fl.xexpr(kws["data"]))
                        ctx.ob("C02.pl", fi.short(), f"length@{unparse(kws['data'])}:{n}", l == f"len({d})",
                               f"GNDataRequest(length={l}, data={d})", f"{fi.module.rel}:{c.lineno}")
    ctx.floor("C02.flags", 4, "CommonHeader constructions")
    ctx.floor("C02.pl", 5)


def check_assembly(ctx):
    """Every packet handed to LinkLayer.send is Basic || Common || extended header(s) || payload, in that order."""
    P = ctx.prog
    router = P.cls("geonet.router.Router")
    n = 0
    for fi in router.methods.values():
        fl = ctx.flows.get(fi)
        for c in P.calls_in(fi):
            if not (isinstance(c.func, ast.Attribute) and c.func.attr == "send" and c.args):
                continue
            tg = [t for t in P.call_targets(fi, c, count=False) if isinstance(t, FuncInfo)]
            if not any(t.cls is not None and any(k.name == "LinkLayer" for k in t.cls.mro()) for t in tg):
                continue
            st = fl.state_at(c)
            for alt in fl.alternatives(c.args[0], st):
                n += 1
                seq = _concat_operands(alt)
                kinds = []
                for o in seq:
                    k = _operand_kind(P, fi, o)
                    kinds.extend([k] if k.startswith("(") else k.split("+"))
                ok, why = _assembly_ok(kinds)
                ctx.ob("C02.assembly", fi.short(), f"send:{'+'.join(kinds)}"[:120], ok,
                       f"packet = {' || '.join(kinds)} : {why}", f"{fi.module.rel}:{c.lineno}")
    ctx.floor("C02.assembly", 12, "assembled packets")


def _concat_operands(e):
    if isinstance(e, ast.BinOp) and isinstance(e.op, ast.Add):
        return _concat_operands(e.left) + _concat_operands(e.right)
    if isinstance(e, ast.IfExp):
        # both alternatives must be well-formed; flatten as two options is handled by caller via kinds 'ifexp'
        return [e]
    return [e]


def _operand_kind(P, fi, o) -> str:
    if isinstance(o, ast.IfExp):
        t = o.test
        if isinstance(t, ast.Compare) and len(t.ops) == 1 and isinstance(t.left, ast.Constant) \
                and isinstance(t.comparators[0], ast.Constant) and isinstance(t.ops[0], (ast.Is, ast.IsNot)):
            same = t.left.value is t.comparators[0].value
            take = o.body if (same == isinstance(t.ops[0], ast.Is)) else o.orelse
            return "+".join(_operand_kind(P, fi, x) for x in _concat_operands(take))
        a = "+".join(_operand_kind(P, fi, x) for x in _concat_operands(o.body))
        b = "+".join(_operand_kind(P, fi, x) for x in _concat_operands(o.orelse))
        return f"({a}|{b})"
    if isinstance(o, ast.Call) and isinstance(o.func, ast.Attribute) and o.func.attr in ("encode", "encode_to_bytes"):
        # receiver type; look through set_*/with_* copies
        r = o.func.value
        ts = {t for t in P.expr_types(fi, r) if isinstance(t, str) and t in P.classes}
        if ts:
            return "/".join(sorted(P.classes[t].name for t in ts))
        return "encode(?)"
    c = P.try_fold(fi.module, o)
    if isinstance(c, bytes):
        return f"bytes[{len(c)}]"
    u = unparse(o)
    if u.endswith(".sec_message"):
        return "SEC"
    if u.endswith(".data") or u in ("packet", "payload", "full_packet") or "[" in u:
        return "PAYLOAD"
    return "PAYLOAD?" + u[:30]


def _assembly_ok(kinds):
    if kinds and kinds[0] in ("PAYLOAD", "PAYLOAD?full_packet"):
        return len(kinds) == 1, "pre-assembled packet passed through (checked at its assembly site)"
    if not kinds or kinds[0] != "BasicHeader":
        return False, "first operand must be the Basic Header"
    rest = kinds[1:]
    if rest == ["SEC"]:
        return True, "Basic Header || secured packet"
    if len(rest) == 1 and rest[0].startswith("("):
        inner = rest[0][1:-1].split("|")
        oks = []
        for opt in inner:
            oks.append(_assembly_ok(["BasicHeader"] + opt.split("+"))[0])
        return all(oks), "conditional inner part"
    if not rest or rest[0] != "CommonHeader":
        return False, "second operand must be the Common Header"
    ext = rest[1:]
    EXT = {"LongPositionVector", "GBCExtendedHeader", "TSBExtendedHeader", "GUCExtendedHeader",
           "LSRequestExtendedHeader", "LSReplyExtendedHeader"}
    if not ext or ext[0] not in EXT:
        return False, f"third operand must be an extended header / SO PV, found {ext[:1]}"
    tail = ext[1:]
    if ext[0] == "LongPositionVector" and tail and tail[0] == "bytes[4]":
        tail = tail[1:]      # SHB media-dependent data
    ok = all(t.startswith("PAYLOAD") and "?" not in t for t in tail) and len(tail) <= 1
    return ok, "Basic || Common || Extended || payload" if ok else f"unexpected trailing operands {tail}"


def run(ctx):
    ctx.explanation = (
        "Static layout analysis. Every encoder/decoder of the 14 header codecs is abstractly interpreted "
        "(shifts, masks, to_bytes/from_bytes, slices, nested codecs inlined) into a table field -> (bit offset, "
        "width, reduction/sign handling); the tables are compared with each other and with the EN 302 636-4-1 "
        "clause 9 / EN 302 636-5-1 clause 7 tables embedded in flexlint/spec/gn_layouts.py. A layout table covers "
        "every value of every field at once. Also decided: enum code points, mobility flag = MSB of the flags octet "
        "at every CommonHeader construction, zero reserved fields and PL provenance at origination, and the order "
        "Basic||Common||Extended||payload of every packet passed to LinkLayer.send. Not decided: octet equality of "
        "whole packets with a reference encoder per request (value level).")
    ctx.declined = ["octet-for-octet equality of emitted packets with a reference encoder for every request/MIB/PV",
                    "exhaustive per-field value round trips (implied by layout agreement only under the no-spill rule)"]
    n = check_layouts(ctx)
    ctx.floor("C02.layout", 150, "field positions")
    ctx.floor("C02.signed", 19, "signed field sides")
    check_enums(ctx)
    ctx.floor("C02.enums", 40, "enum members")
    check_flags_reserved_pl(ctx)
    check_assembly(ctx)
    from . import gnutil as G
    G.check_copy_methods(ctx, "C02.copy-faithful", [
        "geonet.basic_header.BasicHeader", "geonet.service_access_point.TrafficClass", "geonet.gn_address.GNAddress",
        "geonet.position_vector.LongPositionVector", "geonet.position_vector.ShortPositionVector",
        "geonet.guc_extended_header.GUCExtendedHeader"])
    ctx.floor("C02.copy-faithful", 100, "copied fields")
    ctx.extra["codec_methods_analysed"] = n
