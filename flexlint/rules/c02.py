"""C02 - emitted packets and header codecs conform to the ETSI wire formats.

Decides (structure): bit-exact LAYOUT of every codec against the clause-9 (GN) / clause-7 (BTP) tables (layout: total
length, offset and width of every field on the writer and on the reader side, hence writer<->reader agreement; the
reader's minimum-length guard; every field taken from the wire on every decoder branch); two's-complement handling of
signed fields (signed: reduced modulo 2^w when written, sign-extended when read); enumeration code points, their fit into
the field width and the decoder's HT -> HST enumeration dispatch (enums); mobility flag = MSB of the flags octet (flags);
zero reserved fields at origination (reserved); provenance of NH, HT/HST, TC and MHL (origin: from the request; MHL 1
only where TSB/SINGLE_HOP is established; NH ANY for payload-less packets) and of PL (pl: the request's length, the
constant 0 only for BEACON / LS, GNDataRequest.length = len(data)) as clause 10.3 prescribes; header order and operand
grammar of every emitted packet and of every to-be-signed part (assembly: Basic || Common || Extended [|| 4
media-dependent octets for SHB] || exactly one payload: the request data at origination, the received residual when
forwarding, the secured packet when signed), with packets that are handed on pre-assembled (Timer arguments, parameters)
followed to the site that assembles them; that the copy-with-one-change methods (set_* / with_*) of the header, address
and position-vector records forward every other field unchanged (copy-faithful).
Does not decide: equality of whole packets with a reference encoder for every request, nor per-field value round trips
other than through layout agreement (value level).
"""
from __future__ import annotations

import ast
import re

from ..prog import AnalysisError, ClassInfo, FuncInfo, dotted, unparse
from ..layout import writer_table, ReaderEval, Bits, Record, flatten
from ..spec import gn_layouts as S
from .. import sem

PROP = "C02"


def _base(n: str) -> str:
    return n.split("#")[0]


class RebasingReader(ReaderEval):
    """ReaderEval whose nested-codec results are re-based like direct slices are.

    A decoder without a length guard reads `data[a:b]` at an MSB-relative position (block total unknown).  When such a
    slice is handed to a nested decoder (GNAddress.decode(data[0:8]), TST.decode(int.from_bytes(data[8:12]))) the nested
    leaves come back in the coordinates of the nested block; they are translated here into MSB-relative positions of the
    enclosing block: msb = a*8 + (nested width - leaf.lsb - leaf.width).  Guarded decoders (known total) never take this
    path."""

    def _ev(self, e, fi, env):
        if isinstance(e, ast.Call) and e.args:
            m = fi.module
            ent = self.prog.resolve_expr_entity(m, e.func)
            if isinstance(e.func, ast.Attribute) and isinstance(e.func.value, ast.Name) and e.func.value.id == "cls" and fi.cls is not None:
                ent = fi.cls.find_method(e.func.attr)
            if isinstance(ent, FuncInfo) and ent.name in self.DEC_NAMES:
                v = self.ev(e.args[0], fi, env)
                if isinstance(v, Bits) and v.lsb is None and v.msb is not None and v.width is not None:
                    self.depth += 1
                    if self.depth > 8:
                        raise AnalysisError("decoder recursion too deep")
                    try:
                        sub = self.of_method(ent, Bits(None, v.width, "bytes" if ent.name != "decode_from_int" and v.kind == "bytes" else v.kind))
                    finally:
                        self.depth -= 1
                    return self._rebase(sub, v.msb, v.width)
        return super()._ev(e, fi, env)

    def _rebase(self, v, msb: int, width: int):
        if isinstance(v, Record):
            return Record(v.cls, {k: self._rebase(x, msb, width) for k, x in v.fields.items()})
        if isinstance(v, tuple):
            return tuple(self._rebase(x, msb, width) for x in v)
        if isinstance(v, Bits):
            if v.lsb is not None and v.width is not None:
                nm = msb + (width - v.lsb - v.width)
            elif v.msb is not None:
                nm = msb + v.msb
            else:
                return v
            return Bits(None, v.width, v.kind, v.signed, v.scale, nm, v.line, v.owner, v.rel, v.partial)
        return v


def reader_table(prog, fi: FuncInfo, total_bits=None) -> tuple:
    """layout.reader_table evaluated with the re-basing reader: (guard bytes or None, {leaf: Bits}, guards)."""
    rv = RebasingReader(prog)
    kind = "int" if fi.name == "decode_from_int" else "bytes"
    blk = Bits(0 if total_bits is not None else None, total_bits, kind)
    if total_bits is None:
        blk.lsb = 0 if kind == "int" else None
    rec = rv.of_method(fi, blk)
    tab = flatten(rec)
    g = rv.guards.get(fi.qual)
    tot = total_bits if total_bits is not None else (8 * g if g is not None else None)
    for k, b in tab.items():
        if b.lsb is None and b.msb is not None and tot is not None and b.width is not None:
            b.lsb = tot - b.msb - b.width
    return g, tab, rv.guards


def check_layouts(ctx, rule_layout="C02.layout", rule_signed="C02.signed", codecs=None):
    P = ctx.prog
    n_codecs = 0
    for cname, (layout, pairs) in (codecs or S.CODECS).items():
        ci = P.cls(cname)
        spec, total = S.positions(layout)
        spec_named = [(n, lsb, w, s) for n, lsb, w, s in spec if n is not None]
        all_leaves = set()
        for wname, rname in pairs:
            # ------------------------------------------------ writer
            if wname not in ci.methods:
                raise AnalysisError(f"anchor vanished: {ci.qual}.{wname}")
            wfi = ci.methods[wname]
            wtot, wtab = writer_table(P, wfi)
            n_codecs += 1
            con = wfi.short()
            if wtot is not None:
                ctx.ob(rule_layout, con, "total-length", wtot == total,
                       f"writer emits {wtot} bits, clause 9 prescribes {total}", wfi.loc)
            by_lsb = {}
            for k, sg in wtab.items():
                by_lsb.setdefault(sg.lsb, []).append((k, sg))
                all_leaves.add(_base(k))
            for n, lsb, w, signed in spec_named:
                here = by_lsb.get(lsb, [])
                names = [_base(k) for k, _ in here]
                if n in names:
                    sg = [s for k, s in here if _base(k) == n][0]
                    okw = sg.width is None or sg.width == w
                    ctx.ob(rule_layout, con, f"writer:{n}@{lsb}", okw,
                           f"field {n}: writer bounds it to {sg.width} bits, spec width {w}", f"{sg.rel or wfi.module.rel}:{sg.line}")
                    if signed and sg.owner == con:
                        ok = sg.reduced and (sg.width == w)
                        ctx.ob(rule_signed, con, f"writer:{n}", ok,
                               f"signed {w}-bit field {n} is written as `{sg.src}` "
                               + ("reduced modulo 2^%d" % w if ok else
                                  "without reduction modulo 2^%d: a negative value raises OverflowError in to_bytes "
                                  "or spills into the neighbouring bits" % w),
                               f"{sg.rel or wfi.module.rel}:{sg.line}")
                else:
                    same_name_pos = {l for nn, l, _, _ in spec_named if nn == n}
                    where = [(k, s.lsb) for k, s in wtab.items() if _base(k) == n and s.lsb not in same_name_pos]
                    if where:
                        ctx.ob(rule_layout, con, f"writer:{n}@{lsb}", False,
                               f"field {n} is written at bit offset(s) {[l for _, l in where]}, clause 9 puts it at {lsb}"
                               + (f" (found there: {names})" if names else ""), wfi.loc)
                    elif n.split(".")[0].startswith("reserved"):
                        ctx.ob(rule_layout, con, f"writer:{n}@{lsb}", True, "reserved field not written (zero)", wfi.loc)
                    else:
                        ctx.ob(rule_layout, con, f"writer:{n}@{lsb}", False,
                               f"no writer operand for field {n} at offset {lsb}" +
                               (f"; operands there: {names}" if names else ""), wfi.loc)
            spec_lsbs = {lsb for _, lsb, _, _ in spec_named}
            for k, sg in wtab.items():
                if sg.lsb not in spec_lsbs:
                    ctx.ob(rule_layout, con, f"writer-extra:{_base(k)}@{sg.lsb}", False,
                           f"operand `{sg.src}` written at offset {sg.lsb}, which is not a field boundary of clause 9",
                           f"{sg.rel or wfi.module.rel}:{sg.line}")
            # ------------------------------------------------ reader
            if rname is None:
                continue
            if rname not in ci.methods:
                raise AnalysisError(f"anchor vanished: {ci.qual}.{rname}")
            rfi = ci.methods[rname]
            guard, rtab, guards = reader_table(P, rfi, total if rname.endswith("from_int") else None)
            rcon = rfi.short()
            if guard is not None:
                ctx.ob(rule_layout, rcon, "min-length-guard", guard * 8 == total,
                       f"reader demands {guard} bytes, header is {total // 8}", rfi.loc)
            unresolved = [k for k, b in rtab.items() if b.lsb is None]
            if unresolved and guard is None:
                # slices relative to the start with no length guard: exact-length input assumed = spec total
                for k in unresolved:
                    b = rtab[k]
                    if b.msb is not None and b.width is not None:
                        b.lsb = total - b.msb - b.width
            r_by_lsb = {}
            for k, b in rtab.items():
                r_by_lsb.setdefault(b.lsb, []).append((k, b))
                all_leaves.add(k)
            for n, lsb, w, signed in spec_named:
                here = r_by_lsb.get(lsb if n != "flags" else None, [])
                if n == "flags":
                    # the reader may keep only the defined flag bit(s); accept any slice inside the flags octet
                    cand = [(k, b) for k, b in rtab.items() if k == n]
                    ok = bool(cand) and all(lsb <= b.lsb and b.lsb + b.width <= lsb + w and b.scale == b.lsb - lsb
                                            for _, b in cand)
                    ctx.ob(rule_layout, rcon, f"reader:{n}@{lsb}", ok,
                           f"flags octet: reader slice {[(b.lsb, b.width, b.scale) for _, b in cand]}", rfi.loc)
                    continue
                names = [k for k, _ in here]
                if n in names:
                    b = [b for k, b in here if k == n][0]
                    ctx.ob(rule_layout, rcon, f"reader:{n}@{lsb}", b.width == w and b.scale == 0,
                           f"field {n}: reader takes {b.width} bits (scale {b.scale}), spec width {w}", f"{b.rel or rfi.module.rel}:{b.line}")
                    if getattr(b, "partial", False):
                        ctx.ob(rule_layout, rcon, f"reader:{n}:every-branch", False,
                               f"field {n} is taken from the wire only on some branches; on the others the decoder substitutes a "
                               f"constant, so the value a conformant encoder put on the wire (incl. reserved/unknown code points) "
                               f"is not returned / not validated", f"{b.rel or rfi.module.rel}:{b.line}")
                    if signed and b.owner == rcon:
                        ctx.ob(rule_signed, rcon, f"reader:{n}", b.signed,
                               f"signed {w}-bit field {n} is " + ("sign-extended" if b.signed else
                                                                   "returned unsigned (no sign extension): negative values come back as 2^%d+x" % w),
                               f"{b.rel or rfi.module.rel}:{b.line}")
                else:
                    same_name_pos = {l for nn, l, _, _ in spec_named if nn == n}
                    where = [(k, b.lsb) for k, b in rtab.items() if k == n and b.lsb not in same_name_pos]
                    if where:
                        ctx.ob(rule_layout, rcon, f"reader:{n}@{lsb}", False,
                               f"field {n} is read from offset(s) {[l for _, l in where]}, clause 9 puts it at {lsb}"
                               + (f" (read there: {names})" if names else ""), rfi.loc)
                    elif n.split(".")[0].startswith("reserved"):
                        ctx.ob(rule_layout, rcon, f"reader:{n}@{lsb}", True, "reserved field not read", rfi.loc)
                    else:
                        ctx.ob(rule_layout, rcon, f"reader:{n}@{lsb}", False,
                               f"no reader slice for field {n} at offset {lsb}" + (f"; read there: {names}" if names else ""),
                               rfi.loc)
            for k, b in rtab.items():
                if k == "flags":
                    continue
                if b.lsb not in {l for _, l, _, _ in spec_named}:
                    ctx.ob(rule_layout, rcon, f"reader-extra:{k}@{b.lsb}", False,
                           f"reader slice for {k} at offset {b.lsb} width {b.width} is not a clause-9 field", rfi.loc)
        # renamed-field policy: a spec label that names no leaf at all on either side => the table is stale
        for n, lsb, w, s in spec_named:
            if n not in all_leaves and not n.split(".")[-1].startswith("reserved"):
                raise AnalysisError(f"{ci.qual}: no leaf named {n!r} on either side - dataclass fields renamed? "
                                    f"update spec/gn_layouts.py labels")
    return n_codecs


def check_enums(ctx):
    P = ctx.prog
    for cname, table in S.ENUMS.items():
        ci = P.cls(cname)
        if not ci.is_enum:
            raise AnalysisError(f"{cname} is no longer an Enum")
        for member, val in table.items():
            got = ci.enum_members.get(member, "<missing>")
            ctx.ob("C02.enums", ci.qual[10:], member, got == val,
                   f"{ci.name}.{member} = {got!r}, clause 9 code point is {val}", f"{ci.module.rel}:{ci.node.lineno}")
        for member, got in ci.enum_members.items():
            if member not in table:
                dup = [m for m, v in table.items() if v == got]
                ctx.ob("C02.enums", ci.qual[10:], member, not dup,
                       f"extra member {member} = {got!r} aliases the code point of {dup}", f"{ci.module.rel}:{ci.node.lineno}")
    for cname, bits in S.ENUM_FIT.items():
        ci = P.cls(cname)
        for member, got in ci.enum_members.items():
            ctx.ob("C02.enums", ci.qual[10:], member, isinstance(got, int) and 0 <= got < (1 << bits),
                   f"{ci.name}.{member} = {got!r} must fit {bits} bit(s)", f"{ci.module.rel}:{ci.node.lineno}")
    # decoder's HT -> HST enumeration dispatch
    fi = P.func("geonet.common_header.CommonHeader.decode_from_int")
    found = {}
    dfl = ctx.flows.get(fi)
    # every construction of a sub-type enumeration: under which `ht == HeaderType.X` fact does it happen?
    for node in ast.walk(fi.node):
        if isinstance(node, ast.Call) and (dotted(node.func) or "").endswith("HST") and id(node) in dfl.stmt_of:
            try:
                facts = sem.facts(dfl, node, expanded=False)
            except AnalysisError:
                continue
            hts = sorted({m for a_ in facts if a_.startswith("eq(") for m in re.findall(r"HeaderType\.(\w+)", a_)})
            if len(hts) == 1:
                found[hts[0]] = dotted(node.func)
    for ht, hst in S.HST_OF_HT.items():
        ctx.ob("C02.enums", fi.short(), f"hst-dispatch:{ht}", found.get(ht) == hst,
               f"HT {ht}: sub-type decoded with {found.get(ht)!r}, expected {hst}", fi.loc)


HEADER_CLASSES = ("BasicHeader", "CommonHeader", "GBCExtendedHeader", "TSBExtendedHeader", "GUCExtendedHeader",
                  "LSRequestExtendedHeader", "LSReplyExtendedHeader")


def _ctor_sites(ctx, cls_names):
    """(FuncInfo, Call, ClassInfo) for every construction of the given classes outside decoders/`with_`/`set_` copies."""
    P = ctx.prog
    out = []
    for fi in P.iter_funcs():
        for c in P.calls_in(fi):
            for t in P.call_targets(fi, c, count=False):
                if isinstance(t, ClassInfo) and t.name in cls_names:
                    out.append((fi, c, t))
    return out


def _typed_params(P, fi, cls_name: str) -> list:
    """Parameters of fi annotated with the class `cls_name`."""
    return [p for p, ts in P.param_types(fi).items()
            if any(isinstance(t, str) and t in P.classes and P.classes[t].name == cls_name for t in ts)]


def _bytes_params(fi) -> set:
    a = fi.node.args
    return {x.arg for x in a.posonlyargs + a.args + a.kwonlyargs if x.annotation is not None and dotted(x.annotation) == "bytes"}


def _enum_name(P, mod, e):
    v = P.try_fold(mod, e)
    return v[2] if isinstance(v, tuple) and len(v) == 3 and v[0] == "enum" else None


def _bare_param(e, names) -> bool:
    # expansion keeps a bare name only for a parameter that was never re-bound
    return isinstance(e, ast.Name) and e.id in names


def _is_mobile_flag(P, fi, e) -> bool:
    """<MIB-typed expression>.itsGnIsMobile.value"""
    if not (isinstance(e, ast.Attribute) and e.attr == "value" and isinstance(e.value, ast.Attribute) and e.value.attr == "itsGnIsMobile"):
        return False
    ts = P.expr_types(fi, e.value.value)
    return any(isinstance(t, str) and t in P.classes and P.classes[t].name == "MIB" for t in ts)


def check_flags_reserved_pl(ctx):
    P = ctx.prog
    sites = _ctor_sites(ctx, set(HEADER_CLASSES))
    for fi, call, ci in sites:
        if fi.name in ReaderEval.DEC_NAMES:
            continue
        fl = ctx.flows.get(fi)
        st = fl.state_at(call)
        kws = {kw.arg: kw.value for kw in call.keywords if kw.arg}
        con = fi.short()
        loc = f"{fi.module.rel}:{call.lineno}"
        is_copy = fi.cls is ci and (fi.name.startswith("set_") or fi.name.startswith("with_"))
        # ---- reserved fields are zero at origination (copies of a received header keep the received value)
        for rk in ("reserved", "reserved2"):
            if rk in kws:
                v = kws[rk]
                x = fl.xexpr(v)
                val = P.try_fold(fi.module, x)
                copy_of_field = False
                if isinstance(x, ast.Attribute) and x.attr == rk:
                    ts = {t for t in P.expr_types(fi, x.value) if isinstance(t, str) and t in P.classes}
                    copy_of_field = bool(ts) and all(ci in P.classes[t].mro() or P.classes[t] in ci.mro() for t in ts)
                ctx.ob("C02.reserved", con, f"{ci.name}.{rk}", val == 0 or copy_of_field,
                       f"{ci.name}({rk}={unparse(v)}) - reserved must be zero at origination", loc)
        if ci.name != "CommonHeader" or is_copy:
            continue
        # ---- mobility flag = MSB of the flags octet
        if "flags" in kws:
            alts = fl.alternatives(kws["flags"], st)
            for a in alts:
                ok = False
                if isinstance(a, ast.BinOp) and isinstance(a.op, ast.LShift):
                    ok = P.try_fold(fi.module, a.right) == 7 and _is_mobile_flag(P, fi, a.left)
                elif isinstance(a, ast.BinOp) and isinstance(a.op, ast.Mult):
                    ok = (P.try_fold(fi.module, a.right) == 128 and _is_mobile_flag(P, fi, a.left)) or \
                         (P.try_fold(fi.module, a.left) == 128 and _is_mobile_flag(P, fi, a.right))
                ctx.ob("C02.flags", con, f"flags={unparse(kws['flags'])}", ok,
                       f"CommonHeader flags built as `{unparse(a)}`: itsGnIsMobile must occupy bit 0 = the most "
                       f"significant bit of the flags octet (<< 7); the decoder keeps only `& 128`", loc)
        else:
            ctx.ob("C02.flags", con, "flags=<absent>", False,
                   "CommonHeader built at origination without the mobility flag", loc)
        rqs = _typed_params(P, fi, "GNDataRequest")
        rq = rqs[0] if len(rqs) == 1 else None
        # ---- payload length
        if "pl" in kws:
            x = fl.xexpr(kws["pl"])
            xs = unparse(x)
            val = P.try_fold(fi.module, x)
            ok = val == 0 or (rq is not None and sem.same(x, f"{rq}.length") and "@" not in xs)
            ctx.ob("C02.pl", con, f"pl={unparse(kws['pl'])}", ok,
                   f"PL is `{xs}`; must be the request's payload length (or 0 for payload-less packets)", loc)
            if val == 0:
                # payload-less packet types only (beacon, LS)
                hts = {_enum_name(P, fi.module, a) for a in fl.alternatives(kws["ht"], st)} if "ht" in kws else {None}
                ctx.ob("C02.pl", con, "pl=0:type", hts <= {"BEACON", "LS"},
                       f"PL=0 used for header type(s) {sorted(str(h) for h in hts)}", loc)
                # a packet without payload has no next header
                nhs = {_enum_name(P, fi.module, a) for a in fl.alternatives(kws["nh"], st)} if "nh" in kws else {"ANY"}
                ctx.ob("C02.origin", con, "pl=0:nh", nhs == {"ANY"},
                       f"payload-less packet announces next header {sorted(str(h) for h in nhs)} (must be CommonNH.ANY)", loc)
        # ---- the other Common Header fields at origination come from the request (EN 302 636-4-1 10.3.4)
        if rq is not None:
            for k, want in (("nh", f"{rq}.upper_protocol_entity"), ("ht", f"{rq}.packet_transport_type.header_type"),
                            ("hst", f"{rq}.packet_transport_type.header_subtype"), ("tc", f"{rq}.traffic_class")):
                if k not in kws:
                    ctx.ob("C02.origin", con, k, False, f"CommonHeader built from a request without `{k}` (left at its default)", loc)
                    continue
                alts = fl.alternatives(kws[k], st)
                bad = [unparse(a) for a in alts if not (sem.same(a, want) and "@" not in unparse(a))]
                ctx.ob("C02.origin", con, k, not bad,
                       f"{k} = {[unparse(a)[:60] for a in alts]}; must be {want} on every path", loc)
            # MHL: the request's maximum hop limit; the constant 1 only where the packet is established to be SHB
            if "mhl" not in kws:
                ctx.ob("C02.origin", con, "mhl", False, "CommonHeader built from a request without `mhl`", loc)
            else:
                v = kws["mhl"]
                defs = [(d.xvalue if d.xvalue is not None else d.value, d.stmt) for d in fl.reaching(v.id, st)] \
                    if isinstance(v, ast.Name) and v.id in st.defs else [(fl.expand(v, st), call)]
                shb = sem.want(f"{rq}.packet_transport_type.header_type == HeaderType.TSB") + \
                    sem.want(f"{rq}.packet_transport_type.header_subtype == TopoBroadcastHST.SINGLE_HOP")
                bad = []

                def cases(val, fs):
                    """(value, facts) for every arm of a conditional expression"""
                    if isinstance(val, ast.IfExp):
                        yield from cases(val.body, fs | set(sem.atoms(val.test, True)))
                        yield from cases(val.orelse, fs | set(sem.atoms(val.test, False)))
                    else:
                        yield val, fs
                for val0, stmt in defs:
                    fs0 = sem.facts(fl, stmt) if isinstance(stmt, ast.stmt) or stmt is call else set()
                    for val, fs in (cases(val0, fs0) if val0 is not None else [(None, fs0)]):
                        if val is not None and sem.same(val, f"{rq}.max_hop_limit") and "@" not in unparse(val):
                            continue
                        if val is not None and P.try_fold(fi.module, val) == 1 and all(a in fs for a in shb):
                            continue
                        bad.append(unparse(val) if val is not None else "<opaque>")
                ctx.ob("C02.origin", con, "mhl", not bad,
                       "MHL is the request's max_hop_limit, or 1 where header type/sub-type are established as TSB/SINGLE_HOP" +
                       (f"; other values: {bad}" if bad else ""), loc)
    # length = len(data) where data is what is handed down (BTP -> GN)
    n = 0
    for fi in P.iter_funcs():
        for c in P.calls_in(fi):
            for t in P.call_targets(fi, c, count=False):
                if isinstance(t, ClassInfo) and t.name == "GNDataRequest" and fi.module.name.endswith("btp.router"):
                    kws = {kw.arg: kw.value for kw in c.keywords if kw.arg}
                    if "length" in kws and "data" in kws:
                        n += 1
                        fl = ctx.flows.get(fi)
                        l, d = fl.xexpr(kws["length"]), fl.xexpr(kws["data"])
                        ok = isinstance(l, ast.Call) and dotted(l.func) == "len" and len(l.args) == 1 and not l.keywords and \
                            sem.cx(l.args[0]) == sem.cx(d) and unparse(l.args[0]) == unparse(d)
                        ctx.ob("C02.pl", fi.short(), f"length@{unparse(kws['data'])}:{n}", ok,
                               f"GNDataRequest(length={unparse(l)}, data={unparse(d)})", f"{fi.module.rel}:{c.lineno}")
    ctx.floor("C02.flags", 4, "CommonHeader constructions")
    ctx.floor("C02.pl", 9)
    ctx.floor("C02.origin", 8)


# --------------------------------------------------------------------------------------------
# packet assembly
# --------------------------------------------------------------------------------------------
EXT = {"LongPositionVector", "GBCExtendedHeader", "TSBExtendedHeader", "GUCExtendedHeader",
       "LSRequestExtendedHeader", "LSReplyExtendedHeader"}


def _concat_operands(e):
    if isinstance(e, ast.BinOp) and isinstance(e.op, ast.Add):
        return _concat_operands(e.left) + _concat_operands(e.right)
    return [e]


def _strip_slices(e):
    while isinstance(e, ast.Subscript) and isinstance(e.slice, ast.Slice):
        e = e.value
    return e


def _common_header_info(ctx, fi, recv) -> dict:
    """What is known about the Common Header whose encoding is an operand: origin 'param' (a received header handed
    to this function) / 'built' (constructed here or by a classmethod); for built ones the constant header type(s)
    and whether PL is the constant 0 on every return."""
    P = ctx.prog
    if _bare_param(recv, _typed_params(P, fi, "CommonHeader")):
        return {"origin": "param"}
    info = {"origin": "unknown"}
    if not isinstance(recv, ast.Call):
        return info
    ctors = []     # (FuncInfo context, flow, state, constructor call)
    for t in P.call_targets(fi, recv, count=False, cha=False):
        if isinstance(t, ClassInfo) and t.name == "CommonHeader":
            fl = ctx.flows.get(fi)
            ctors.append((fi, None, None, recv))
        elif isinstance(t, FuncInfo) and t.cls is not None and t.cls.name == "CommonHeader":
            fl2 = ctx.flows.get(t)
            for k, s, st in fl2.exits:
                if k == "return" and isinstance(s.value, ast.Call) and any(
                        isinstance(x, ClassInfo) and x.name == "CommonHeader" for x in P.call_targets(t, s.value, count=False)):
                    ctors.append((t, fl2, st, s.value))
                elif k == "return":
                    return info
    if not ctors:
        return info
    info["origin"] = "built"
    hts, pl0 = set(), True
    for cf, fl2, st, c in ctors:
        kws = {kw.arg: kw.value for kw in c.keywords if kw.arg}
        for name, sink in (("ht", hts),):
            alts = fl2.alternatives(kws[name], st) if (fl2 is not None and name in kws) else ([kws[name]] if name in kws else [])
            for a in alts:
                sink.add(_enum_name(P, cf.module, a))
        plx = kws.get("pl")
        plv = [P.try_fold(cf.module, a) for a in (fl2.alternatives(plx, st) if fl2 is not None else [plx])] if plx is not None else [0]
        pl0 = pl0 and all(v == 0 for v in plv)
    info["ht"] = hts
    info["pl0"] = pl0
    return info


def _operand_kind(ctx, fi, o, info: dict) -> str:
    P = ctx.prog
    if isinstance(o, ast.IfExp):
        t = o.test
        neg = False
        while isinstance(t, ast.UnaryOp) and isinstance(t.op, ast.Not):
            t, neg = t.operand, not neg
        if isinstance(t, ast.Compare) and len(t.ops) == 1 and isinstance(t.left, ast.Constant) \
                and isinstance(t.comparators[0], ast.Constant) and isinstance(t.ops[0], (ast.Is, ast.IsNot, ast.Eq, ast.NotEq)):
            same = t.left.value is t.comparators[0].value
            truth = (same == isinstance(t.ops[0], (ast.Is, ast.Eq))) != neg
            take = o.body if truth else o.orelse
            return "+".join(_operand_kind(ctx, fi, x, info) for x in _concat_operands(take))
        a = "+".join(_operand_kind(ctx, fi, x, info) for x in _concat_operands(o.body))
        b = "+".join(_operand_kind(ctx, fi, x, info) for x in _concat_operands(o.orelse))
        return f"({a}|{b})"
    if isinstance(o, ast.Call) and isinstance(o.func, ast.Attribute) and o.func.attr in ("encode", "encode_to_bytes") \
            and not o.args and not o.keywords:
        r = o.func.value
        ts = {t for t in P.expr_types(fi, r) if isinstance(t, str) and t in P.classes}
        if ts:
            names = sorted(P.classes[t].name for t in ts)
            if names == ["CommonHeader"]:
                info.setdefault("ch", _common_header_info(ctx, fi, r))
            return "/".join(names)
        return "encode(?)"
    c = P.try_fold(fi.module, o)
    if isinstance(c, bytes):
        return f"bytes[{len(c)}]"
    if isinstance(o, ast.Attribute) and o.attr == "sec_message":
        b = o.value
        ts = {P.classes[t].name for t in P.expr_types(fi, b) if isinstance(t, str) and t in P.classes}
        from_signer = isinstance(b, ast.Call) and isinstance(b.func, ast.Attribute) and dotted(b.func.value) == "self.sign_service"
        if from_signer or ts == {"SNSIGNConfirm"}:
            return "SEC"
    if isinstance(o, ast.Attribute) and o.attr == "data" and _bare_param(o.value, _typed_params(P, fi, "GNDataRequest")):
        return "DATA"
    if _bare_param(_strip_slices(o), _bytes_params(fi)):
        return "RESIDUAL"
    return "?" + unparse(o)[:30]


def _merge_bytes(kinds: list) -> list:
    """adjacent constant byte strings are one run of octets"""
    out = []
    for k in kinds:
        if k.startswith("bytes[") and out and out[-1].startswith("bytes["):
            out[-1] = f"bytes[{int(out[-1][6:-1]) + int(k[6:-1])}]"
        else:
            out.append(k)
    return out


def _assembly_ok(kinds, info: dict, inner_only: bool = False):
    """Basic || (SEC | Common || Extended [|| 4 media-dependent octets] || payload).  The payload is required exactly
    once unless the Common Header is built with the constant PL = 0 (beacon, LS): the request's data where the Common
    Header is built here, the received residual where the Common Header is a received one."""
    if not inner_only:
        if not kinds or kinds[0] != "BasicHeader":
            return False, "first operand must be the Basic Header"
        rest = kinds[1:]
        if rest == ["SEC"]:
            return True, "Basic Header || secured packet"
        if len(rest) == 1 and rest[0].startswith("("):
            inner = rest[0][1:-1].split("|")
            oks = [opt == "SEC" or _assembly_ok(opt.split("+"), info, True)[0] for opt in inner]
            return all(oks), "conditional inner part"
    else:
        rest = kinds
    if not rest or rest[0] != "CommonHeader":
        return False, "the Common Header must follow the Basic Header"
    ext = rest[1:]
    if not ext or ext[0] not in EXT:
        return False, f"an extended header / SO PV must follow the Common Header, found {ext[:1]}"
    tail = ext[1:]
    ch = info.get("ch", {"origin": "unknown"})
    if ext[0] == "LongPositionVector":
        if ch.get("ht") == {"BEACON"}:
            return tail == [], "beacon: Basic || Common || SO PV" if tail == [] else f"beacon carries trailing operands {tail}"
        ok = tail == ["bytes[4]", "DATA"]
        return ok, "SHB: Basic || Common || SO PV || 4 media-dependent octets || payload" if ok else \
            f"SHB needs the 4 media-dependent octets and the request's payload after the SO PV, found {tail}"
    if ch.get("pl0") is True:
        return tail == [], "payload-less packet (PL = 0)" if tail == [] else f"PL is 0 but the packet carries {tail}"
    want = {"built": [["DATA"]], "param": [["RESIDUAL"]]}.get(ch.get("origin"), [["DATA"], ["RESIDUAL"]])
    ok = tail in want
    return ok, "Basic || Common || Extended || payload" if ok else \
        f"payload operand(s) {tail}: expected exactly {' or '.join('+'.join(w) for w in want)} " \
        f"(Common Header {ch.get('origin')})"


def _timer_producers(ctx, fi: FuncInfo, pname: str) -> list:
    """(producer FuncInfo, expression, line) for every value bound to parameter `pname` of fi: direct in-src calls and
    threading.Timer(..., <fi>, args=[...]) wirings."""
    P = ctx.prog
    from . import gnutil as G
    out = []
    params = fi.params
    off = 1 if fi.kind in ("method", "classmethod") and params else 0
    if pname not in params:
        return out
    idx = params.index(pname) - off
    for caller, call in P.callers_of(fi):
        if idx < len(call.args):
            out.append((caller, call.args[idx], call.lineno))
        for kw in call.keywords:
            if kw.arg == pname:
                out.append((caller, kw.value, call.lineno))
    for g in P.iter_funcs():
        for c in P.calls_in(g):
            if not G.is_timer_with_packet(P, g, c):
                continue
            tgt = c.args[1] if len(c.args) > 1 else next((kw.value for kw in c.keywords if kw.arg == "function"), None)
            if tgt is None or ("func:" + fi.qual) not in P.expr_types(g, tgt):
                continue
            for kw in c.keywords:
                if kw.arg == "args" and isinstance(kw.value, (ast.List, ast.Tuple)) and idx < len(kw.value.elts):
                    out.append((g, kw.value.elts[idx], c.lineno))
                elif kw.arg == "args":
                    out.append((g, None, c.lineno))
    return out


def _check_packet(ctx, n, fi, expr, node, sink_fi, via: str, depth: int = 3):
    """Obligations for every alternative value of the bytes expression `expr` (evaluated at `node` in fi)."""
    P = ctx.prog
    fl = ctx.flows.get(fi)
    st = fl.state_at(node)
    for alt in fl.alternatives(expr, st):
        seq = _concat_operands(alt)
        if len(seq) == 1 and _bare_param(seq[0], _bytes_params(fi)) and depth > 0:
            # pre-assembled packet handed in: decided at the place(s) that produce it
            prods = _timer_producers(ctx, fi, seq[0].id)
            if not prods:
                n[0] += 1
                ctx.ob("C02.assembly", sink_fi.short(), f"send:{via}{seq[0].id}", False,
                       f"parameter `{seq[0].id}` of {fi.name} is sent as a complete packet but no call / Timer wiring that "
                       "provides it was found", f"{fi.module.rel}:{node.lineno}")
            for pfi, pexpr, line in prods:
                if pexpr is None:
                    n[0] += 1
                    ctx.ob("C02.assembly", sink_fi.short(), f"send:{via}{seq[0].id}<-{pfi.name}", False,
                           "Timer argument list is not a literal list", f"{pfi.module.rel}:{line}")
                    continue
                _check_packet(ctx, n, pfi, pexpr, pexpr, sink_fi, f"{via}{seq[0].id}<-{pfi.name}:", depth - 1)
            continue
        n[0] += 1
        info = {}
        kinds = []
        for o in seq:
            k = _operand_kind(ctx, fi, o, info)
            kinds.extend([k] if k.startswith("(") else k.split("+"))
        kinds = _merge_bytes(kinds)
        ok, why = _assembly_ok(kinds, info)
        ctx.ob("C02.assembly", sink_fi.short(), f"send:{via}{'+'.join(kinds)}"[:140], ok,
               f"packet = {' || '.join(kinds)} : {why}", f"{fi.module.rel}:{getattr(node, 'lineno', 0)}")


def check_assembly(ctx):
    """Every packet handed to LinkLayer.send is Basic || Common || extended header(s) || payload, in that order; the
    to-be-signed part of a secured packet is the same without the Basic Header."""
    P = ctx.prog
    from . import gnutil as G
    router = P.cls("geonet.router.Router")
    n = [0]
    for fi in router.methods.values():
        fl = ctx.flows.get(fi)
        for c in P.calls_in(fi):
            if G.is_ll_send(P, fi, c):
                _check_packet(ctx, n, fi, c.args[0], c, fi, "")
                continue
            if any(isinstance(t, ClassInfo) and t.name == "SNSIGNRequest" for t in P.call_targets(fi, c, count=False)):
                tbs = next((kw.value for kw in c.keywords if kw.arg == "tbs_message"), None)
                if tbs is None:
                    continue
                st = fl.state_at(c)
                for alt in fl.alternatives(tbs, st):
                    n[0] += 1
                    info, kinds = {}, []
                    for o in _concat_operands(alt):
                        k = _operand_kind(ctx, fi, o, info)
                        kinds.extend([k] if k.startswith("(") else k.split("+"))
                    kinds = _merge_bytes(kinds)
                    ok, why = _assembly_ok(kinds, info, inner_only=True)
                    ctx.ob("C02.assembly", fi.short(), f"tbs:{'+'.join(kinds)}"[:140], ok,
                           f"signed part = {' || '.join(kinds)} : {why}", f"{fi.module.rel}:{c.lineno}")
    ctx.floor("C02.assembly", 29, "assembled packets")


def ext_origin(ctx) -> None:
    """Originated extended headers: every field the initialiser of an extended-header class fills is a plain copy - of one
    of its parameters (each parameter feeds at most one field, and its annotated type is the field's), or of the
    same-named attribute reached from a parameter (`a=request.area.a`); a constant only where it is the field's default.
    Anything computed (max / min / arithmetic / another field's attribute) puts a value on the wire the request did not ask for."""
    P = ctx.prog
    n = 0
    for ci in sorted(P.classes.values(), key=lambda c: c.qual):
        if not (ci.module.name.startswith("flexstack.geonet.") and ci.module.name.endswith("_extended_header")):
            continue
        for name, fi in sorted(ci.methods.items()):
            if not name.startswith("initialize") or fi.kind != "classmethod":
                continue
            fl = ctx.flows.get(fi)
            params = fi.params[1:]
            cls_name = fi.params[0] if fi.params else "cls"
            for k, s_, st in fl.exits:
                if k != "return" or not isinstance(s_.value, ast.Call):
                    continue
                c = s_.value
                if not (isinstance(c.func, ast.Name) and c.func.id in (cls_name, ci.name)):
                    continue
                used = {}
                for kw in c.keywords:
                    if kw.arg is None:
                        continue
                    n += 1
                    v = fl.expand(kw.value, st)
                    fld = ci.fields.get(kw.arg)
                    ok, why = False, ""
                    if isinstance(v, ast.Name) and v.id in params:
                        a_par = [a.annotation for a in fi.node.args.args if a.arg == v.id][0]
                        t_par = P.ann_types(fi.module, a_par) if a_par is not None else set()
                        t_fld = P.ann_types(ci.module, fld[0]) if fld and fld[0] is not None else set()
                        if v.id in used:
                            why = f"parameter `{v.id}` also feeds `{used[v.id]}`"
                        elif t_par and t_fld and t_par != t_fld:
                            why = f"parameter `{v.id}` has type {sorted(map(str, t_par))}, the field {sorted(map(str, t_fld))}"
                        else:
                            ok = True
                            used[v.id] = kw.arg
                    elif isinstance(v, ast.Attribute) and dotted(v) and dotted(v).split(".")[0] in params:
                        ok = v.attr == kw.arg
                        why = "" if ok else f"fed by `{dotted(v)}` (another attribute than `{kw.arg}`)"
                    else:
                        cv = P.try_fold(fi.module, v, default=_NOFOLD)
                        dv = P.try_fold(ci.module, fld[1], default=_NOFOLD) if fld and fld[1] is not None else _NOFOLD
                        ok = cv is not _NOFOLD and dv is not _NOFOLD and cv == dv
                        why = "" if ok else f"computed as `{sem.cx(v)}`"
                    ctx.ob("C02.origin", fi.short(), f"ext:{kw.arg}", ok,
                           f"`{kw.arg}` of the originated {ci.name} is a plain copy (`{sem.cx(v)}`)" if ok else
                           f"`{kw.arg}` of the originated {ci.name} is not a plain copy of what the caller asked for - {why}", f"{fi.module.rel}:{s_.lineno}")
    if n < 17:
        raise AnalysisError(f"C02: only {n} fields filled by extended-header initialisers found (confirmed: 23)")


_NOFOLD = object()


def run(ctx):
    ctx.explanation = (
        "Static layout analysis. Every encoder/decoder of the 14 header codecs is abstractly interpreted "
        "(shifts, masks, to_bytes/from_bytes, slices, nested codecs inlined) into a table field -> (bit offset, "
        "width, reduction/sign handling); the tables are compared with each other and with the EN 302 636-4-1 "
        "clause 9 / EN 302 636-5-1 clause 7 tables embedded in flexlint/spec/gn_layouts.py. A layout table covers "
        "every value of every field at once. Also decided: enum code points, mobility flag = MSB of the flags octet "
        "at every CommonHeader construction, zero reserved fields and PL provenance at origination, and the order "
        "Basic||Common||Extended||payload of every packet passed to LinkLayer.send. Not decided: octet equality of "
        "whole packets with a reference encoder per request (value level).")
    ctx.declined = ["octet-for-octet equality of emitted packets with a reference encoder for every request/MIB/PV",
                    "exhaustive per-field value round trips (implied by layout agreement only under the no-spill rule)"]
    n = check_layouts(ctx)
    ctx.floor("C02.layout", 150, "field positions")
    ctx.floor("C02.signed", 19, "signed field sides")
    check_enums(ctx)
    ctx.floor("C02.enums", 40, "enum members")
    check_flags_reserved_pl(ctx)
    check_assembly(ctx)
    ext_origin(ctx)
    from . import gnutil as G
    G.check_copy_methods(ctx, "C02.copy-faithful", [
        "geonet.basic_header.BasicHeader", "geonet.service_access_point.TrafficClass", "geonet.gn_address.GNAddress",
        "geonet.position_vector.LongPositionVector", "geonet.position_vector.ShortPositionVector",
        "geonet.guc_extended_header.GUCExtendedHeader"])
    ctx.floor("C02.copy-faithful", 100, "copied fields")
    ctx.extra["codec_methods_analysed"] = n
